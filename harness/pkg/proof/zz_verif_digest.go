//go:build verif

package proof

import (
	"github.com/meshplus/bitxhub-model/pb"
	"github.com/meshplus/bitxhub/pkg/utils"
)

func zzDigest(ibtp *pb.IBTP, st pb.TransactionStatus) ([]byte, error) {
	return utils.EncodePackedAndHash(ibtp, st)
}
