//go:build verif

package proof

import (
	"crypto/sha256"
	"encoding/json"

	appchainMgr "github.com/meshplus/bitxhub-core/appchain-mgr"
	"github.com/meshplus/bitxhub-core/governance"
	ruleMgr "github.com/meshplus/bitxhub-core/rule-mgr"
	"github.com/meshplus/bitxhub-kit/types"
	"github.com/meshplus/bitxhub-model/constant"
	"github.com/meshplus/bitxhub-model/pb"
	"github.com/meshplus/bitxhub/internal/ledger"
	zz "github.com/meshplus/bitxhub/internal/zzverif"
)

// zzEngine is the validation-engine stub: it records what it was asked and answers symbolically.
type zzEngine struct {
	calls   int
	address string
	from    string
	ok      bool
	fail    bool
}

func (e *zzEngine) Validate(address, from string, proof, payload []byte, validators string) (bool, uint64, error) {
	e.calls++
	e.address, e.from = address, from
	if e.fail {
		return false, 7, errZZ("rule engine error")
	}
	return e.ok, 7, nil
}

type errZZ string

func (e errZZ) Error() string { return string(e) }

func zzPool() (*VerifyPool, *zzEngine, *ledger.Ledger) {
	lg, err := ledger.New(nil, zz.NewStore(), zz.NewStore(), zz.NewBlockFile(), nil, zz.Logger())
	if err != nil {
		panic(err)
	}
	ve := &zzEngine{ok: zz.Bool("ruleAccepts"), fail: zz.Bool("ruleErrors")}
	return &VerifyPool{ledger: lg, ve: ve, logger: zz.Logger(), bitxhubID: "1356"}, ve, lg
}

var zzRuleStatuses = []governance.GovernanceStatus{governance.GovernanceAvailable, governance.GovernanceBindable, governance.GovernanceForbidden, governance.GovernanceBinding,
	governance.GovernanceUnavailable, governance.GovernanceUnbinding}

// the master flag a rule in that status carries in reachable states: the bound rule has it, a rule
// being unbound still has it, and ClearRule (appchain logged out) leaves it on the unavailable rule
var zzRuleMaster = []bool{true, false, false, false, true, true}

// ZZH_C03_verify_proof: CheckProof on an appchain IBTP with symbolic proof bytes / committed
// hash / type / registration / rule list / rule verdict: accepted only if the proof hashes to
// ibtp.Proof, the chain the IBTP claims to come from is registered, the rule consulted is an
// AVAILABLE rule of exactly that chain, and the rule said yes. No combination crashes the pool (C08:
// CheckProof runs in goroutines nobody recovers), and the verdict does not depend on what the
// long-lived pool verified before (C01).
// zz:also C08 C01
func ZZH_C03_verify_proof() {
	pl, ve, lg := zzPool()
	// registered appchain chA (and maybe chB); the chain the IBTP originates from has a symbolic rule list
	isReq := zz.Choice("request", 2) == 1
	origin := "chA"
	if !isReq {
		origin = "chB"
	}
	chains := []string{"chA", "chB"}
	ruleAddr := map[string]string{}
	for ci, ch := range chains {
		if ci == 1 && zz.Choice("chBRegistered", 2) == 0 {
			continue
		}
		app := &appchainMgr.Appchain{ID: ch, TrustRoot: []byte("root-" + ch), Status: governance.GovernanceAvailable}
		data, _ := json.Marshal(app)
		lg.SetState(constant.AppchainMgrContractAddr.Address(), []byte(appchainMgr.AppchainKey(ch)), data, nil)
		n := 0
		if ch == origin {
			n = zz.Choice("rules-"+ch, zz.Tier(3, 4))
		}
		var rules []*ruleMgr.Rule
		for i := 0; i < n; i++ {
			si := zz.Choice("ruleStatus", len(zzRuleStatuses))
			st := zzRuleStatuses[si]
			addr := "0xRULE-" + ch + "-" + string("012"[i])
			rules = append(rules, &ruleMgr.Rule{Address: addr, ChainID: ch, Status: st, Master: zzRuleMaster[si]})
			if st == governance.GovernanceAvailable && ruleAddr[ch] == "" {
				ruleAddr[ch] = addr
			}
		}
		if n > 0 {
			rd, _ := json.Marshal(rules)
			lg.SetState(constant.RuleManagerContractAddr.Address(), []byte(ruleMgr.RuleKey(ch)), rd, nil)
		}
	}
	var proof []byte
	if zz.Choice("proofPresent", 2) == 1 {
		proof = []byte{zz.U8("proofByte")}
	}
	other := []byte{zz.U8("otherByte")}
	h := sha256.Sum256(proof)
	ho := sha256.Sum256(other)
	commits := [][]byte{h[:], ho[:], make([]byte, 32)}
	ck := zz.Choice("committedHash", 3)
	from, to := "1356:chA:s1", "1356:chB:s2"
	typ := pb.IBTP_INTERCHAIN
	if !isReq {
		typ = pb.IBTP_RECEIPT_SUCCESS
	}
	ibtp := &pb.IBTP{From: from, To: to, Index: 1, Type: typ, Proof: commits[ck]}
	tx := &pb.BxhTransaction{IBTP: ibtp, Extra: proof, TransactionHash: types.NewHashByStr("0x1111111111111111111111111111111111111111111111111111111111111111")}
	// the pool is long-lived: optionally another IBTP of the same chain with the same proof
	// bytes was verified (and accepted by the rule) earlier
	// (or the very same IBTP with the same proof: a pier re-submits it; what the rule said then must
	// not be remembered, because the rule, its binding and the trust root are ledger state that
	// may have changed since - a restarted node would ask the rule again)
	if e := zz.Choice("earlierIBTP", 3); e > 0 {
		savedOK, savedFail := ve.ok, ve.fail
		ve.ok, ve.fail = true, false
		earlier := &pb.IBTP{From: from, To: to, Index: 7, Type: typ, Proof: commits[ck], Payload: []byte("other payload")}
		if e == 2 {
			earlier = &pb.IBTP{From: from, To: to, Index: 1, Type: typ, Proof: commits[ck]}
		}
		_, _, _ = pl.CheckProof(&pb.BxhTransaction{IBTP: earlier, Extra: proof, TransactionHash: types.NewHashByStr("0x2222222222222222222222222222222222222222222222222222222222222222")})
		ve.ok, ve.fail, ve.calls, ve.address, ve.from = savedOK, savedFail, 0, "", ""
	}
	ok, _, err := pl.CheckProof(tx)
	zz.Cover("C03.proof.accepted", ok)
	zz.Cover("C03.proof.rejected", !ok)
	hashOK := proof != nil && (ck == 0 || (ck == 1 && zz.EqBytes(proof, other)))
	if ok {
		zz.Assert("C03.proof.noerr", err == nil)
		zz.Assert("C03.proof.hash-matches", hashOK)
		zz.Assert("C03.proof.rule-consulted-once", ve.calls == 1)
		zz.Assert("C03.proof.rule-of-origin-chain", ve.from == origin && ve.address == ruleAddr[origin] && ruleAddr[origin] != "")
		zz.Assert("C03.proof.rule-accepted", ve.ok && !ve.fail)
	} else {
		// completeness: everything in order => accepted
		zz.Assert("C03.proof.complete", !(hashOK && ruleAddr[origin] != "" && ve.ok && !ve.fail))
	}
}

// ZZH_C03_multisign: an IBTP relayed from another BitXHub (1357) is accepted only with more
// than (n-1)/3 signatures by DISTINCT registered validators over the IBTP and its status.
// Malformed entries (wrong length, junk) are skipped without bringing the node down (the call
// runs on an unrecovered goroutine of BlockExecutor.verifyProofs).
// zz:also C08
func ZZH_C03_multisign() {
	pl, _, lg := zzPool()
	n := 1 + zz.Choice("validators", 4) // 1..4 registered validators (keys 0..n-1)
	var vals bxhValidators
	for i := 0; i < n; i++ {
		vals.Addresses = append(vals.Addresses, zz.SignerAddr(i))
	}
	tr, _ := json.Marshal(vals)
	app := &appchainMgr.Appchain{ID: "1357", TrustRoot: tr, Status: governance.GovernanceAvailable}
	data, _ := json.Marshal(app)
	lg.SetState(constant.AppchainMgrContractAddr.Address(), []byte(appchainMgr.AppchainKey("1357")), data, nil)
	ibtp := &pb.IBTP{From: "1357:chX:s1", To: "1356:chB:s2", Index: 1, Type: pb.IBTP_INTERCHAIN}
	status := pb.TransactionStatus_BEGIN
	digest, err := zzDigest(ibtp, status)
	zz.Assert("C03.multisign.digest", err == nil)
	wrong, _ := zzDigest(&pb.IBTP{From: ibtp.From, To: ibtp.To, Index: 2, Type: ibtp.Type}, status)
	k := zz.Choice("signatures", 4) // 0..3 signatures
	bp := &pb.BxhProof{TxStatus: status}
	good := map[int]bool{}
	for j := 0; j < k; j++ {
		signer := zz.Choice("signer", 6) // keys 0..4 (4 is never registered); 5: malformed bytes
		if signer == 5 {
			// not a signature at all: 0, 64, 65 or 66 bytes of 0x00 or 0x1b
			g := make([]byte, []int{0, 64, 65, 66}[zz.Choice("garbageLen", 4)])
			if zz.Choice("garbageByte", 2) == 1 {
				for x := range g {
					g[x] = 0x1b
				}
			}
			bp.MultiSign = append(bp.MultiSign, g)
			continue
		}
		overWrong := zz.Choice("overWrongDigest", 2) == 1
		d := digest
		if overWrong {
			d = wrong
		}
		bp.MultiSign = append(bp.MultiSign, zz.SignDigest(signer, d))
		if signer < n && !overWrong {
			good[signer] = true
		}
	}
	proof, _ := bp.Marshal()
	h := sha256.Sum256(proof)
	ibtp.Proof = h[:]
	tx := &pb.BxhTransaction{IBTP: ibtp, Extra: proof, TransactionHash: types.NewHashByStr("0x1111111111111111111111111111111111111111111111111111111111111111")}
	var ok bool
	crashed, _ := zz.Crashed(func() { ok, _, _ = pl.CheckProof(tx) })
	zz.Assert("C03.multisign.no-crash", !crashed)
	threshold := (n - 1) / 3
	zz.Cover("C03.multisign.accepted", ok)
	zz.Cover("C03.multisign.rejected", !ok)
	zz.Assert("C03.multisign.iff-enough-distinct-valid", ok == (len(good) > threshold))
}
