//go:build verif

package proof

import (
	"github.com/meshplus/bitxhub-model/pb"
	zz "github.com/meshplus/bitxhub/internal/zzverif"
)

// ZZH_C03_digest_binds_fields: what the validators of another BitXHub sign is the digest of
// (From, To, Index, Type, payload hash, status), computed by the real EncodePackedAndHash. For two
// IBTPs of the same service pair the digests are equal only if index, type, payload hash (a byte
// string of the sender's choosing, 0..2 bytes here) and status are all equal: signatures collected
// for one IBTP and status can never be presented for another. Mode 0: all fields symbolic (the hash
// model makes digests equal exactly when the packed bytes are equal). Mode 1: the same question over
// small concrete candidate values chosen around the field boundaries (byte values that are also
// leading / trailing bytes of a neighbouring number).
func ZZH_C03_digest_binds_fields() {
	mode := zz.Choice("mode", 3)
	if mode == 2 {
		// the service pair itself: two IBTPs that differ only in where From ends and To begins
		pairs := [][2]string{{"1357:chX:s1", "1356:chB:s2"}, {"1357:chX:s", "11356:chB:s2"}, {"1357:chX:s11", "356:chB:s2"}, {"1357:chX:s1", "1356:chB:s22"}}
		pa, pb2 := pairs[zz.Choice("pairA", len(pairs))], pairs[zz.Choice("pairB", len(pairs))]
		payload, _ := (&pb.Payload{Hash: []byte{7}}).Marshal()
		d1, e1 := zzDigest(&pb.IBTP{From: pa[0], To: pa[1], Index: 3, Type: pb.IBTP_INTERCHAIN, Payload: payload}, pb.TransactionStatus_BEGIN)
		d2, e2 := zzDigest(&pb.IBTP{From: pb2[0], To: pb2[1], Index: 3, Type: pb.IBTP_INTERCHAIN, Payload: payload}, pb.TransactionStatus_BEGIN)
		zz.Assert("C03.digest.computed", e1 == nil && e2 == nil)
		zz.Tag("C03.F-digest-pair-boundary", true)
		zz.Assert("C03.digest.equal-only-for-the-same-service-pair", !zz.EqBytes(d1, d2) || (pa[0] == pb2[0] && pa[1] == pb2[1]))
		return
	}
	symbolic := mode == 0
	type fields struct {
		idx  uint64
		typ  pb.IBTP_Type
		st   pb.TransactionStatus
		hash []byte
	}
	mk := func() fields {
		var f fields
		if symbolic {
			f.idx = zz.U64("index")
			f.typ = pb.IBTP_Type(zz.I32("type"))
			zz.Assume(f.typ >= 0)
			zz.Assume(f.typ <= 4)
			f.st = pb.TransactionStatus(zz.I32("status"))
			zz.Assume(f.st >= 0)
			zz.Assume(f.st <= 5)
			f.hash = zz.Bytes("payloadHash", zz.Choice("hashLen", 3))
		} else {
			f.idx = []uint64{1, 3, 256, 259}[zz.Choice("index", 4)]
			f.typ = []pb.IBTP_Type{0, 1, 3}[zz.Choice("type", 3)]
			f.st = []pb.TransactionStatus{0, 2, 3}[zz.Choice("status", 3)]
			f.hash = [][]byte{{}, {3}, {0, 3}, {1, 3}, {3, 2}}[zz.Choice("payloadHash", 5)]
		}
		return f
	}
	a, b := mk(), mk()
	digest := func(f fields) []byte {
		payload, _ := (&pb.Payload{Hash: f.hash}).Marshal()
		d, err := zzDigest(&pb.IBTP{From: "1357:chX:s1", To: "1356:chB:s2", Index: f.idx, Type: f.typ, Payload: payload}, f.st)
		zz.Assert("C03.digest.computed", err == nil)
		return d
	}
	da, db := digest(a), digest(b)
	same := a.idx == b.idx && a.typ == b.typ && a.st == b.st && len(a.hash) == len(b.hash) && zz.EqBytes(a.hash, b.hash)
	zz.Cover("C03.digest.equal", zz.EqBytes(da, db))
	zz.Assert("C03.digest.equal-only-for-equal-fields", !zz.EqBytes(da, db) || same)
}
