//go:build verif

package boltvm

import (
	"github.com/iancoleman/orderedmap"
	appchainMgr "github.com/meshplus/bitxhub-core/appchain-mgr"
	"github.com/meshplus/bitxhub-core/governance"
	ruleMgr "github.com/meshplus/bitxhub-core/rule-mgr"
	service_mgr "github.com/meshplus/bitxhub-core/service-mgr"
	"github.com/meshplus/bitxhub-kit/types"
	"github.com/meshplus/bitxhub-model/constant"
	"github.com/meshplus/bitxhub-model/pb"
	"github.com/meshplus/bitxhub/internal/executor/contracts"
	zz "github.com/meshplus/bitxhub/internal/zzverif"
)

var (
	zzrOwnAdmin  = types.NewAddressByStr("0xB100000000000000000000000000000000000011") // admin of chA
	zzrDappOwner = types.NewAddressByStr("0xDA00000000000000000000000000000000000012")
)

type zzOp struct {
	contract constant.BoltContractAddress
	method   string
	args     []*pb.Arg
	allowed  []*types.Address
}

// ZZH_C17_ops: a table of well-formed governance operations of the service, appchain, rule, role,
// dapp, strategy and governance contracts - arguments an entitled caller gets accepted - each sent
// through the real BoltVM over the real contracts and ledger by six kinds of account: an outsider,
// the admin of another appchain, the admin of the object's own appchain, a consensus node's account,
// a governance admin, and the owner of the dapp. Every operation is accepted exactly from the callers
// the contracts entitle (own-chain admin for the chain's services / rules / logout, governance admins
// for freezes, registrations of roles and strategies, the owner for dapp updates and transfers) and
// the internal entry points from nobody; a refused call leaves no account dirty and posts no event.
func ZZH_C17_ops() {
	lg, cs := zzRealWorld()
	audit := zz.Choice("audit", 2) == 1
	// admin of chA
	ids := orderedmap.New()
	ids.Set(zzrOwnAdmin.String(), struct{}{})
	zzPutJSON(lg, constant.RoleContractAddr, contracts.RoleKey(zzrOwnAdmin.String()), contracts.Role{ID: zzrOwnAdmin.String(), RoleType: contracts.AppchainAdmin, AppchainID: "chA", Status: governance.GovernanceAvailable})
	zzPutJSON(lg, constant.RoleContractAddr, contracts.RoleAppchainAdminKey("chA"), ids)
	zzPutJSON(lg, constant.AppchainMgrContractAddr, appchainMgr.AppAdminsChainKey("chA"), []string{zzrOwnAdmin.String()})
	zzPutJSON(lg, constant.AppchainMgrContractAddr, appchainMgr.AppchainAdminKey(zzrOwnAdmin.String()), "chA")
	// services of chA
	for _, s := range []struct {
		id string
		st governance.GovernanceStatus
	}{{"s5", governance.GovernanceAvailable}, {"s7", governance.GovernanceFrozen}} {
		zzPutJSON(lg, constant.ServiceMgrContractAddr, service_mgr.ServiceKey("chA:"+s.id), service_mgr.Service{ChainID: "chA", ServiceID: s.id, Name: s.id, Type: service_mgr.ServiceCallContract,
			Ordered: true, Permission: map[string]struct{}{}, Status: s.st})
		zzPutJSON(lg, constant.ServiceMgrContractAddr, service_mgr.ServiceOccupyNameKey(s.id), "chA:"+s.id)
	}
	// rules of chA: master M, spare N
	M := "0x00000000000000000000000000000000000000a2"
	N := "0x00000000000000000000000000000000000000b7" // a deployed rule contract
	lg.SetCode(types.NewAddressByStr(N), []byte("rule code"))
	zzPutJSON(lg, constant.RuleManagerContractAddr, ruleMgr.RuleKey("chA"), []*ruleMgr.Rule{
		{Address: M, ChainID: "chA", Master: true, Default: true, Status: governance.GovernanceAvailable},
		{Address: N, ChainID: "chA", Master: false, Status: governance.GovernanceBindable}})
	// a dapp
	dappID := zzrDappOwner.String() + "-0"
	zzPutJSON(lg, constant.DappMgrContractAddr, contracts.DappKey(dappID), contracts.Dapp{DappID: dappID, Name: "dapp", Type: contracts.DappTool, Desc: "d", Url: "u",
		ContractAddr: map[string]struct{}{}, Permission: map[string]struct{}{}, OwnerAddr: zzrDappOwner.String(), Status: governance.GovernanceAvailable})
	acc, root := lg.FlushDirtyData()
	_ = lg.StateLedger.Commit(2, acc, root)

	S, A, R, O, D, G, V := constant.ServiceMgrContractAddr, constant.AppchainMgrContractAddr, constant.RuleManagerContractAddr, constant.RoleContractAddr,
		constant.DappMgrContractAddr, constant.ProposalStrategyMgrContractAddr, constant.GovernanceContractAddr
	own, gov, owner := []*types.Address{zzrOwnAdmin}, []*types.Address{zzrGovAdmin}, []*types.Address{zzrDappOwner}
	ownOrGov := []*types.Address{zzrOwnAdmin, zzrGovAdmin}
	str := pb.String
	ops := []zzOp{
		{S, "RegisterService", []*pb.Arg{str("chA"), str("s6"), str("svc6"), str(string(service_mgr.ServiceCallContract)), str("intro"), pb.Uint64(1), str(""), str("details"), str("r")}, own},
		{S, "UpdateService", []*pb.Arg{str("chA:s5"), str("s5new"), str("intro"), str(""), str("details"), str("r")}, own},
		{S, "FreezeService", []*pb.Arg{str("chA:s5"), str("r")}, gov},
		{S, "ActivateService", []*pb.Arg{str("chA:s7"), str("r")}, ownOrGov},
		{S, "LogoutService", []*pb.Arg{str("chA:s5"), str("r")}, own},
		{S, "PauseChainService", []*pb.Arg{str("chA")}, nil},
		{S, "UnPauseChainService", []*pb.Arg{str("chA")}, nil},
		{S, "RecordInvokeService", []*pb.Arg{str("1356:chA:s5"), str("1356:chB:s2"), pb.Bool(true)}, nil},
		{A, "FreezeAppchain", []*pb.Arg{str("chA"), str("r")}, gov},
		{A, "LogoutAppchain", []*pb.Arg{str("chA"), str("r")}, own},
		{A, "PauseAppchain", []*pb.Arg{str("chA")}, nil},
		{A, "UnPauseAppchain", []*pb.Arg{str("chA"), str(string(governance.GovernanceAvailable))}, nil},
		{R, "UpdateMasterRule", []*pb.Arg{str("chA"), str(N), str("r")}, own},
		{R, "LogoutRule", []*pb.Arg{str("chA"), str(N)}, own},
		{R, "ClearRule", []*pb.Arg{str("chA")}, nil},
		{O, "FreezeRole", []*pb.Arg{str("0xA2"), str("r")}, gov},
		{O, "LogoutRole", []*pb.Arg{str("0xA2"), str("r")}, gov},
		{O, "RegisterRole", []*pb.Arg{str("0xC000000000000000000000000000000000000013"), str(string(contracts.GovernanceAdmin)), str(""), str("r")}, gov},
		{O, "UpdateAppchainAdmin", []*pb.Arg{str("chA"), str(zzrOutsider.String())}, nil},
		{O, "OccupyAccount", []*pb.Arg{str(zzrOutsider.String()), str(string(contracts.AppchainAdmin))}, nil},
		{O, "FreeAccount", []*pb.Arg{str(zzrOwnAdmin.String())}, nil},
		{D, "FreezeDapp", []*pb.Arg{str(dappID), str("r")}, gov},
		{D, "UpdateDapp", []*pb.Arg{str(dappID), str("dapp2"), str("d2"), str("u2"), str(""), str(""), str("r")}, owner},
		{D, "TransferDapp", []*pb.Arg{str(dappID), str(zzrOutsider.String()), str("r")}, owner},
		{G, "UpdateProposalStrategy", []*pb.Arg{str(string(contracts.AppchainMgr)), str(string(contracts.SimpleMajority)), str("a > 0.6 * t"), str("r")}, gov},
		{V, "Vote", []*pb.Arg{str("0xSponsor-1"), str(contracts.BallotApprove), str("r")}, gov},
		{V, "WithdrawProposal", []*pb.Arg{str("0xSponsor-1"), str("r")}, nil},
	}
	op := ops[zz.Choice("operation", len(ops))]
	callers := []*types.Address{zzrOutsider, zzrChainAdmin, zzrOwnAdmin, zzrNode, zzrGovAdmin, zzrDappOwner}
	caller := callers[zz.Choice("caller", len(callers))]
	allowed := false
	for _, a := range op.allowed {
		if a == caller {
			allowed = true
		}
	}
	_, err := zzRealTx(lg, cs, caller, op.contract, audit, op.method, op.args...)
	zz.Cover("C17.ops.accepted", err == nil)
	zz.Cover("C17.ops.refused", err != nil)
	zz.Assert("C17.ops.accepted-exactly-from-the-entitled:"+op.method, (err == nil) == allowed)
	if err != nil {
		dirty, _ := lg.FlushDirtyData()
		zz.Assert("C17.ops.refused-call-has-no-effect:"+op.method, len(dirty) == 0 && len(lg.Events("0x1111111111111111111111111111111111111111111111111111111111111111")) == 0)
	}
}
