//go:build verif

package boltvm

import (
	"github.com/meshplus/bitxhub-core/agency"
	"github.com/meshplus/bitxhub-core/boltvm"
	"github.com/meshplus/bitxhub-kit/types"
	"github.com/meshplus/bitxhub-model/pb"
	"github.com/meshplus/bitxhub/internal/ledger"
	"github.com/meshplus/bitxhub/pkg/vm"
	zz "github.com/meshplus/bitxhub/internal/zzverif"
)

// zzDummy is a two-method contract with typed parameters.
type zzDummy struct {
	boltvm.Stub
	calls int
}

func (d *zzDummy) Two(a string, n uint64) *boltvm.Response {
	d.calls++
	if n == 3 {
		panic("dummy panics on 3")
	}
	d.Set("k", []byte(a))
	return boltvm.Success([]byte(a))
}

func (d *zzDummy) Flag(b bool, i int32, x []byte) *boltvm.Response {
	d.calls++
	if b {
		return boltvm.Error(boltvm.OtherInternalErrCode, "flag set")
	}
	return boltvm.Success(x)
}

func (d *zzDummy) unexported() *boltvm.Response { return nil }

const zzDummyAddr = "0x00000000000000000000000000000000000000Dd"

// ZZH_C08_dispatch: the real BoltVM.Run / InvokeBVM / parseArgs with a symbolic choice of
// callee (registered or not), method name (existing, unknown, unexported, empty), 0..3 arguments
// with symbolic declared type (including out-of-range) and values from a small universe: Run never
// lets a panic escape; arity or type mismatches and contract panics become errors; the contract
// body runs only for a well-formed call.
func ZZH_C08_dispatch() {
	lg, err := ledger.New(nil, zz.NewStore(), zz.NewStore(), zz.NewBlockFile(), nil, zz.Logger())
	if err != nil {
		panic(err)
	}
	d := &zzDummy{}
	contracts := map[string]agency.Contract{types.NewAddressByStr(zzDummyAddr).String(): d}
	callee := zzDummyAddr
	if zz.Choice("registered", 2) == 0 {
		callee = "0x00000000000000000000000000000000000000Ee"
	}
	methods := []string{"Two", "Flag", "Nope", "", "unexported", "Set", "Logger"}
	nm := 4
	if zz.Thorough() {
		nm = len(methods)
	}
	method := methods[zz.Choice("method", nm)]
	nargs := zz.Choice("nargs", 4)
	vals := []string{"", "x", "-1", "18446744073709551616", "false", "3", "0"}
	var args []*pb.Arg
	for i := 0; i < nargs; i++ {
		if i == 2 {
			// the third argument only varies between a byte string and a number
			if zz.Choice("third", 2) == 0 {
				args = append(args, &pb.Arg{Type: pb.Arg_Bytes, Value: []byte("x")})
			} else {
				args = append(args, &pb.Arg{Type: pb.Arg_U64, Value: []byte("0")})
			}
			continue
		}
		t := pb.Arg_Type(zz.I32("argType"))
		// declared types: I32, U64, String, Bool and one value outside the enum
		zz.Assume(zz.Or(zz.Or(t == pb.Arg_I32, t == pb.Arg_U64), zz.Or(zz.Or(t == pb.Arg_String, t == pb.Arg_Bool), t == 42)))
		args = append(args, &pb.Arg{Type: t, Value: []byte(vals[zz.Choice("argVal", len(vals))])})
	}
	ip := &pb.InvokePayload{Method: method, Args: args}
	input, _ := ip.Marshal()
	tx := &pb.BxhTransaction{From: types.NewAddressByStr("0x1000000000000000000000000000000000000001"), To: types.NewAddressByStr(callee),
		TransactionHash: types.NewHashByStr("0x1111111111111111111111111111111111111111111111111111111111111111")}
	ctx := vm.NewContext(tx, 0, nil, 2, lg, zz.Logger(), false, nil)
	bvm := New(ctx, nil, nil, contracts)
	var ret []byte
	var rerr error
	crashed, _ := zz.Crashed(func() { ret, _, rerr = bvm.Run(input, 0) })
	zz.Assert("C08.dispatch.no-escaping-panic", !crashed)
	zz.Cover("C08.dispatch.success", rerr == nil)
	zz.Cover("C08.dispatch.error", rerr != nil)
	wellFormed := callee == zzDummyAddr && (method == "Two" || method == "Flag")
	zz.Assert("C08.dispatch.body-only-if-well-formed", d.calls == 0 || wellFormed)
	zz.Assert("C08.dispatch.success-only-if-well-formed", rerr != nil || wellFormed)
	_ = ret
}
