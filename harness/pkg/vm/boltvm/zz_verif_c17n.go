//go:build verif

package boltvm

import (
	"github.com/iancoleman/orderedmap"
	"github.com/meshplus/bitxhub-core/governance"
	nodemgr "github.com/meshplus/bitxhub-core/node-mgr"
	"github.com/meshplus/bitxhub-kit/types"
	"github.com/meshplus/bitxhub-model/constant"
	"github.com/meshplus/bitxhub-model/pb"
	"github.com/meshplus/bitxhub/internal/executor/contracts"
	zz "github.com/meshplus/bitxhub/internal/zzverif"
)

// ZZH_C17_node_ops: well-formed node-management operations - arguments an entitled caller would get
// accepted - sent through the real BoltVM over the real contracts and ledger by every kind of
// account: an outsider, the admin of another appchain, a consensus node's account, the audit
// node's own account, the audit admin bound to ANOTHER node, the audit admin bound to this node, and
// a governance admin. The world holds two available audit nodes, one bound to an audit admin and
// one not bound. Registering, updating and logging out a node are accepted exactly from a
// governance admin (updating also from the audit admin bound to that node); the internal entry
// points (Manage, BindNode, ManageBindNode, UnbindNode) are refused to every external account.
// A refused call leaves no account dirty and posts no event.
func ZZH_C17_node_ops() {
	lg, cs := zzRealWorld()
	audit := zz.Choice("audit", 2) == 1
	otherAdmin := types.NewAddressByStr("0xAB0000000000000000000000000000000000000A")
	zzPutJSON(lg, constant.NodeManagerContractAddr, nodemgr.NodeKey(zzrNvp1.String()), nodemgr.Node{Account: zzrNvp1.String(), NodeType: nodemgr.NVPNode, Name: "n1",
		Permissions: map[string]struct{}{"chA": {}}, Status: governance.GovernanceAvailable})
	zzPutJSON(lg, constant.NodeManagerContractAddr, nodemgr.NodeKey(zzrNvp2.String()), nodemgr.Node{Account: zzrNvp2.String(), NodeType: nodemgr.NVPNode, Name: "n2",
		Permissions: map[string]struct{}{"chA": {}}, AuditAdminAddr: zzrAuditAdmin.String(), Status: governance.GovernanceAvailable})
	zzPutJSON(lg, constant.NodeManagerContractAddr, nodemgr.NodeOccupyNameKey("n1"), zzrNvp1.String())
	zzPutJSON(lg, constant.NodeManagerContractAddr, nodemgr.NodeOccupyNameKey("n2"), zzrNvp2.String())
	ids := orderedmap.New()
	for _, a := range []*types.Address{zzrAuditAdmin, otherAdmin} {
		ids.Set(a.String(), struct{}{})
	}
	zzPutJSON(lg, constant.RoleContractAddr, contracts.RoleTypeKey(string(contracts.AuditAdmin)), ids)
	zzPutJSON(lg, constant.RoleContractAddr, contracts.RoleKey(zzrAuditAdmin.String()), contracts.Role{ID: zzrAuditAdmin.String(), RoleType: contracts.AuditAdmin, NodeAccount: zzrNvp2.String(), Status: governance.GovernanceAvailable})
	zzPutJSON(lg, constant.RoleContractAddr, contracts.RoleKey(otherAdmin.String()), contracts.Role{ID: otherAdmin.String(), RoleType: contracts.AuditAdmin, NodeAccount: "0xE300000000000000000000000000000000000003", Status: governance.GovernanceAvailable})
	acc, root := lg.FlushDirtyData()
	_ = lg.StateLedger.Commit(2, acc, root)

	target := []*types.Address{zzrNvp1, zzrNvp2}[zz.Choice("node", 2)]
	callers := []*types.Address{zzrOutsider, zzrChainAdmin, zzrNode, target, otherAdmin, zzrAuditAdmin, zzrGovAdmin}
	ci := zz.Choice("caller", len(callers))
	caller := callers[ci]
	isGov := caller == zzrGovAdmin
	boundAdmin := caller == zzrAuditAdmin && target == zzrNvp2
	var method string
	var args []*pb.Arg
	allowed := false
	switch zz.Choice("operation", 7) {
	case 0:
		method, args, allowed = "UpdateNode", []*pb.Arg{pb.String(target.String()), pb.String("renamed"), pb.String("chA"), pb.String("r")}, isGov || boundAdmin
	case 1:
		method, args, allowed = "LogoutNode", []*pb.Arg{pb.String(target.String()), pb.String("r")}, isGov
	case 2:
		method, args, allowed = "RegisterNode", []*pb.Arg{pb.String("0xE400000000000000000000000000000000000004"), pb.String(string(nodemgr.NVPNode)), pb.String(""), pb.Uint64(0),
			pb.String("n4"), pb.String("chA"), pb.String("r")}, isGov
	case 3:
		method, args = "Manage", []*pb.Arg{pb.String(string(governance.EventLogout)), pb.String(string(contracts.APPROVED)), pb.String(string(governance.GovernanceAvailable)), pb.String(target.String()), pb.Bytes(nil)}
	case 4:
		method, args = "BindNode", []*pb.Arg{pb.String(zzrNvp1.String()), pb.String(caller.String())}
	case 5:
		method, args = "ManageBindNode", []*pb.Arg{pb.String(target.String()), pb.String(caller.String()), pb.String(string(governance.EventApprove))}
	case 6:
		method, args = "UnbindNode", []*pb.Arg{pb.String(zzrNvp2.String())}
	}
	_, err := zzRealTx(lg, cs, caller, constant.NodeManagerContractAddr, audit, method, args...)
	zz.Cover("C17.node.accepted", err == nil)
	zz.Cover("C17.node.refused", err != nil)
	zz.Assert("C17.node.accepted-exactly-from-the-entitled:"+method, (err == nil) == allowed)
	if err != nil {
		dirty, _ := lg.FlushDirtyData()
		zz.Assert("C17.node.refused-call-has-no-effect:"+method, len(dirty) == 0 && len(lg.Events("0x1111111111111111111111111111111111111111111111111111111111111111")) == 0)
	}
}
