//go:build verif

package boltvm

import (
	"math/big"

	"github.com/iancoleman/orderedmap"
	"github.com/meshplus/bitxhub-core/agency"
	"github.com/meshplus/bitxhub-core/governance"
	nodemgr "github.com/meshplus/bitxhub-core/node-mgr"
	"github.com/meshplus/bitxhub-kit/types"
	"github.com/meshplus/bitxhub-model/constant"
	"github.com/meshplus/bitxhub-model/pb"
	"github.com/meshplus/bitxhub/internal/executor/contracts"
	"github.com/meshplus/bitxhub/internal/ledger"
	"github.com/meshplus/bitxhub/pkg/vm"
	zz "github.com/meshplus/bitxhub/internal/zzverif"
)

var (
	zzrAuditAdmin = types.NewAddressByStr("0xAA00000000000000000000000000000000000006")
	zzrCandidate  = types.NewAddressByStr("0xCA00000000000000000000000000000000000007")
	zzrNvp1       = types.NewAddressByStr("0xE100000000000000000000000000000000000008") // audit node, not bound
	zzrNvp2       = types.NewAddressByStr("0xE200000000000000000000000000000000000009") // audit node bound to zzrAuditAdmin
)

// zzRealTx sends one external transaction to a built-in contract through the real BoltVM (reflection
// dispatch, parseArgs, BoltStubImpl) on block 2 of the real ledger; a failed call is reverted as
// applyTransaction does.
func zzRealTx(lg *ledger.Ledger, cs map[string]agency.Contract, from *types.Address, to constant.BoltContractAddress, audit bool, method string, args ...*pb.Arg) ([]byte, error) {
	ip := &pb.InvokePayload{Method: method, Args: args}
	input, _ := ip.Marshal()
	tx := &pb.BxhTransaction{From: from, To: to.Address(), Timestamp: 7,
		TransactionHash: types.NewHashByStr("0x1111111111111111111111111111111111111111111111111111111111111111")}
	lg.PrepareBlock(tx.TransactionHash, 2)
	ctx := vm.NewContext(tx, 0, nil, 2, lg, zz.Logger(), audit, nil)
	snap := lg.Snapshot()
	ret, _, err := New(ctx, nil, nil, cs).Run(input, 0)
	if err != nil {
		lg.RevertToSnapshot(snap)
	}
	return ret, err
}

// ZZH_C14_role_grant: the governance contract concludes a proposal about an administrator through
// the real RoleManager.Manage (real NodeManager, Governance and strategy contracts behind
// CrossInvoke, real ledger accounts). The role is a governance-admin candidate or an audit admin,
// in the status the pending operation leaves it (registering, binding to a new audit node after a
// pause, logging out, freezing, activating), and the proposal is approved or rejected. Balances
// change in exactly one case: an approved registration credits the new administrator with the
// genesis grant, once; every other conclusion - in particular an approved re-binding of an
// administrator approved long ago - moves no balance at all; a conclusion inside a transaction that
// fails afterwards leaves every balance as it was, also for a candidate that already held funds.
func ZZH_C14_role_grant() {
	lg, cs := zzRealWorld()
	audit := zz.Choice("audit", 2) == 1
	grant := big.NewInt(1000000)
	lg.SetState(constant.RoleContractAddr.Address(), []byte(contracts.GenesisBalance), []byte(grant.String()), nil)
	type op struct {
		ev        governance.EventType
		pre, last governance.GovernanceStatus
	}
	ops := []op{
		{governance.EventRegister, governance.GovernanceRegisting, governance.GovernanceUnavailable},
		{governance.EventBind, governance.GovernanceBinding, governance.GovernanceFrozen},
		{governance.EventLogout, governance.GovernanceLogouting, governance.GovernanceAvailable},
		{governance.EventFreeze, governance.GovernanceFreezing, governance.GovernanceAvailable},
		{governance.EventActivate, governance.GovernanceActivating, governance.GovernanceFrozen},
	}
	o := ops[zz.Choice("operation", len(ops))]
	auditAdmin := zz.Choice("roleType", 2) == 1
	who := zzrCandidate
	role := contracts.Role{ID: who.String(), RoleType: contracts.GovernanceAdmin, Weight: 1, Status: o.pre}
	if auditAdmin {
		who = zzrAuditAdmin
		role = contracts.Role{ID: who.String(), RoleType: contracts.AuditAdmin, NodeAccount: zzrNvp1.String(), Status: o.pre}
		nodeStatus := governance.GovernanceAvailable
		if o.ev == governance.EventRegister || o.ev == governance.EventBind {
			nodeStatus = governance.GovernanceBinding
		}
		zzPutJSON(lg, constant.NodeManagerContractAddr, nodemgr.NodeKey(zzrNvp1.String()), nodemgr.Node{Account: zzrNvp1.String(), NodeType: nodemgr.NVPNode, Name: "n1",
			Permissions: map[string]struct{}{"chA": {}}, AuditAdminAddr: who.String(), Status: nodeStatus})
	} else if o.ev == governance.EventBind {
		return // governance admins have no audit node
	}
	if o.ev != governance.EventRegister {
		// an administrator approved earlier: listed by type, the grant was paid then
		ids := orderedmap.New()
		ids.Set(who.String(), struct{}{})
		if auditAdmin {
			zzPutJSON(lg, constant.RoleContractAddr, contracts.RoleTypeKey(string(contracts.AuditAdmin)), ids)
		}
		lg.SetBalance(who, new(big.Int).Set(grant))
	}
	zzPutJSON(lg, constant.RoleContractAddr, contracts.RoleKey(who.String()), role)
	// a candidate may already hold funds from an earlier block (its balance object exists)
	if o.ev == governance.EventRegister && zz.Choice("candidateFunded", 2) == 1 {
		lg.SetBalance(who, big.NewInt(500))
	}
	acc, root := lg.FlushDirtyData()
	_ = lg.StateLedger.Commit(2, acc, root)
	watched := []*types.Address{who, zzrGovAdmin, zzrNvp1, constant.RoleContractAddr.Address(), constant.GovernanceContractAddr.Address()}
	var pre []*big.Int
	for _, a := range watched {
		pre = append(pre, lg.GetBalance(a))
	}
	result := []string{string(contracts.APPROVED), string(contracts.REJECTED)}[zz.Choice("result", 2)]
	// the conclusion may be part of a transaction that fails afterwards (the deciding voter cannot pay
	// the fee): everything it did, the grant included, is then taken back
	revertedLater := zz.Choice("enclosingTransactionFailsLater", 2) == 1
	outer := lg.Snapshot()
	_, err := zzRealTx(lg, cs, constant.GovernanceContractAddr.Address(), constant.RoleContractAddr, audit, "Manage",
		pb.String(string(o.ev)), pb.String(result), pb.String(string(o.last)), pb.String(who.String()), pb.Bytes(nil))
	zz.Cover("C14.role.concluded", err == nil)
	if revertedLater {
		lg.RevertToSnapshot(outer)
	}
	want := new(big.Int)
	if err == nil && !revertedLater && o.ev == governance.EventRegister && result == string(contracts.APPROVED) {
		want = grant
		zz.Cover("C14.role.granted", true)
	}
	for i, a := range watched {
		delta := new(big.Int).Sub(lg.GetBalance(a), pre[i])
		if i == 0 {
			zz.Assert("C14.role.grant-only-on-approved-registration-and-once", delta.Cmp(want) == 0)
		} else {
			zz.Assert("C14.role.no-other-balance-moves", delta.Sign() == 0)
		}
	}
}
