//go:build verif

package boltvm

import (
	"github.com/meshplus/bitxhub-core/agency"
	"github.com/meshplus/bitxhub-core/boltvm"
	"github.com/meshplus/bitxhub-kit/types"
	"github.com/meshplus/bitxhub-model/constant"
	"github.com/meshplus/bitxhub-model/pb"
	"github.com/meshplus/bitxhub/internal/executor/contracts"
	"github.com/meshplus/bitxhub/internal/ledger"
	"github.com/meshplus/bitxhub/pkg/vm"
	zz "github.com/meshplus/bitxhub/internal/zzverif"
)

// ZZH_C17_stub_primitives: every built-in contract embeds boltvm.Stub, so the storage and event
// primitives (Set, Add, Delete, Get, Has, ...) are exported methods of the contract object and the
// real reflection dispatch finds them by name. An external account naming one of them - with
// well-typed arguments, against the real InterchainManager or RoleManager over a real ledger -
// must get an error from the real BoltVM.Run, and after the caller's revert the contract's state
// (another party's interchain record, the role table) is exactly what it was.
func ZZH_C17_stub_primitives() {
	lg, err := ledger.New(nil, zz.NewStore(), zz.NewStore(), zz.NewBlockFile(), nil, zz.Logger())
	if err != nil {
		panic(err)
	}
	targets := []*types.Address{constant.InterchainContractAddr.Address(), constant.RoleContractAddr.Address()}
	cs := map[string]agency.Contract{
		targets[0].String(): &contracts.InterchainManager{},
		targets[1].String(): &contracts.RoleManager{},
	}
	target := targets[zz.Choice("contract", 2)]
	key := "service-1356:chA:s1"
	lg.SetState(target, []byte(key), []byte("record"), nil)
	acc, root := lg.FlushDirtyData()
	_ = lg.StateLedger.Commit(1, acc, root)
	methods := []string{"Set", "Add", "Delete", "Get", "Has", "Query", "Caller", "EnableAudit", "GetTxIndex", "CurrentCaller",
		"AddObject", "SetObject", "PostInterchainEvent", "CrossInvoke", "GetAccount", "Logger"}
	method := methods[zz.Choice("primitive", len(methods))]
	var args []*pb.Arg
	switch method {
	case "Set", "Add":
		k := key
		if zz.Choice("freshKey", 2) == 1 {
			k = "role-0xOutsider"
		}
		args = []*pb.Arg{pb.String(k), pb.Bytes([]byte{zz.U8("v")})}
	case "Delete", "Get", "Has", "Query", "GetAccount", "PostInterchainEvent":
		args = []*pb.Arg{pb.String(key)}
	case "AddObject", "SetObject":
		args = []*pb.Arg{pb.String("role-0xOutsider"), pb.String("object")}
	case "CrossInvoke":
		args = []*pb.Arg{pb.String(targets[1].String()), pb.String("GetAllRoles")}
	}
	ip := &pb.InvokePayload{Method: method, Args: args}
	input, _ := ip.Marshal()
	tx := &pb.BxhTransaction{From: types.NewAddressByStr("0x9999999999999999999999999999999999999999"), To: target,
		TransactionHash: types.NewHashByStr("0x1111111111111111111111111111111111111111111111111111111111111111")}
	lg.PrepareBlock(tx.TransactionHash, 2)
	ctx := vm.NewContext(tx, 0, nil, 2, lg, zz.Logger(), zz.Choice("audit", 2) == 1, nil)
	snap := lg.Snapshot()
	var rerr error
	crashed, _ := zz.Crashed(func() { _, _, rerr = New(ctx, nil, nil, cs).Run(input, 0) })
	zz.Assert("C08.dispatch.no-escaping-panic", !crashed)
	zz.Assert("C17.stub-primitive-is-no-entry-point:"+method, rerr != nil)
	if rerr != nil {
		lg.RevertToSnapshot(snap) // what applyTransaction does with a failed call
	}
	ok, v := lg.GetState(target, []byte(key))
	zz.Assert("C17.stub-primitive-leaves-state", ok && string(v) == "record")
	ok2, _ := lg.GetState(target, []byte("role-0xOutsider"))
	zz.Assert("C17.stub-primitive-leaves-state", !ok2)
}

// zzRelay is a contract that forwards a call to another contract and reports who it is called by.
type zzRelay struct {
	boltvm.Stub
}

func (r *zzRelay) Who() *boltvm.Response {
	return boltvm.Success([]byte(r.Caller() + "|" + r.CurrentCaller() + "|" + r.Callee()))
}

func (r *zzRelay) Relay(target, method string) *boltvm.Response {
	return r.CrossInvoke(target, method)
}

func (r *zzRelay) RelayBegin(target string) *boltvm.Response {
	return r.CrossInvoke(target, "Begin", pb.String("1356:chA:s1-1356:chB:s2-1"), pb.Uint64(0), pb.Bool(false))
}

// ZZH_C17_caller_identity: the identities every permission check relies on, through the real
// BoltVM.Run and the real BoltStubImpl.CrossInvoke: in a direct call the current caller is the
// external account; in a nested call Caller stays the external account, CurrentCaller is the
// address of the invoking contract and Callee the invoked one. Consequence checked on the real
// TransactionManager: Begin is accepted only when the invoking contract is the one registered at
// the interchain contract's address - not directly, and not through any other contract.
func ZZH_C17_caller_identity() {
	lg, err := ledger.New(nil, zz.NewStore(), zz.NewStore(), zz.NewBlockFile(), nil, zz.Logger())
	if err != nil {
		panic(err)
	}
	outsider := types.NewAddressByStr("0x9999999999999999999999999999999999999999")
	other := types.NewAddressByStr("0x00000000000000000000000000000000000000A1")
	inter := constant.InterchainContractAddr.Address()
	tm := constant.TransactionMgrContractAddr.Address()
	cs := map[string]agency.Contract{
		other.String(): &zzRelay{},
		inter.String(): &zzRelay{},
		tm.String():    &contracts.TransactionManager{},
	}
	run := func(to *types.Address, method string, args ...*pb.Arg) ([]byte, error) {
		ip := &pb.InvokePayload{Method: method, Args: args}
		input, _ := ip.Marshal()
		tx := &pb.BxhTransaction{From: outsider, To: to, TransactionHash: types.NewHashByStr("0x1111111111111111111111111111111111111111111111111111111111111111")}
		ctx := vm.NewContext(tx, 0, nil, 2, lg, zz.Logger(), zz.Choice("audit", 2) == 1, nil)
		ret, _, err := New(ctx, nil, nil, cs).Run(input, 0)
		return ret, err
	}
	ret, err := run(other, "Who")
	zz.Assert("C17.identity.direct", err == nil && string(ret) == outsider.String()+"|"+outsider.String()+"|"+other.String())
	ret, err = run(inter, "Relay", pb.String(other.String()), pb.String("Who"))
	zz.Assert("C17.identity.nested", err == nil && string(ret) == outsider.String()+"|"+inter.String()+"|"+other.String())
	// Begin on the real transaction manager
	id := "1356:chA:s1-1356:chB:s2-1"
	via := zz.Choice("via", 3)
	switch via {
	case 0:
		_, err = run(tm, "Begin", pb.String(id), pb.Uint64(0), pb.Bool(false))
	case 1:
		_, err = run(other, "RelayBegin", pb.String(tm.String()))
	default:
		_, err = run(inter, "RelayBegin", pb.String(tm.String()))
	}
	ok, _ := lg.GetState(tm, []byte(contracts.TxInfoKey(id)))
	if via == 2 {
		zz.Assert("C17.identity.designated-contract-accepted", err == nil && ok)
	} else {
		zz.Assert("C17.identity.anybody-else-refused", err != nil && !ok)
	}
}

// ZZH_C17_two_registries: a process holds more than one registry of contract objects (each worker of
// the parallel executor has its own; the executor builds a fresh one per EVM interchain log). An
// earlier, legitimate nested call on one registry - the contract at the interchain address begins a
// transaction - must not change what a later direct call on ANOTHER registry is allowed to do: an
// external account's Begin / Report on the transaction manager is refused and writes nothing.
func ZZH_C17_two_registries() {
	lg, err := ledger.New(nil, zz.NewStore(), zz.NewStore(), zz.NewBlockFile(), nil, zz.Logger())
	if err != nil {
		panic(err)
	}
	outsider := types.NewAddressByStr("0x9999999999999999999999999999999999999999")
	other := types.NewAddressByStr("0x00000000000000000000000000000000000000A1")
	inter := constant.InterchainContractAddr.Address()
	tm := constant.TransactionMgrContractAddr.Address()
	registry := func() map[string]agency.Contract {
		return map[string]agency.Contract{
			other.String(): &zzRelay{},
			inter.String(): &zzRelay{},
			tm.String():    &contracts.TransactionManager{},
		}
	}
	regs := []map[string]agency.Contract{registry(), registry()}
	run := func(cs map[string]agency.Contract, to *types.Address, method string, args ...*pb.Arg) error {
		ip := &pb.InvokePayload{Method: method, Args: args}
		input, _ := ip.Marshal()
		tx := &pb.BxhTransaction{From: outsider, To: to, TransactionHash: types.NewHashByStr("0x1111111111111111111111111111111111111111111111111111111111111111")}
		ctx := vm.NewContext(tx, 0, nil, 2, lg, zz.Logger(), false, nil)
		_, _, err := New(ctx, nil, nil, cs).Run(input, 0)
		return err
	}
	first := zz.Choice("earlierCallOn", 3) // 0: none, 1: the same registry, 2: the other registry
	if first != 0 {
		err := run(regs[first-1], inter, "RelayBegin", pb.String(tm.String()))
		zz.Assert("C17.registries.designated-contract-accepted", err == nil)
	}
	id2 := "1356:chA:s1-1356:chB:s2-2"
	var err2 error
	switch zz.Choice("attempt", 3) {
	case 0:
		err2 = run(regs[0], tm, "Begin", pb.String(id2), pb.Uint64(0), pb.Bool(false))
	case 1:
		err2 = run(regs[0], tm, "Report", pb.String("1356:chA:s1-1356:chB:s2-1"), pb.Int32(int32(pb.IBTP_RECEIPT_SUCCESS)))
	case 2:
		err2 = run(regs[0], tm, "BeginMultiTXs", pb.String("0xGROUP"), pb.String(id2), pb.Uint64(0), pb.Bool(false), pb.Uint64(1))
	}
	zz.Assert("C17.registries.direct-call-refused", err2 != nil)
	ok, _ := lg.GetState(tm, []byte(contracts.TxInfoKey(id2)))
	ok2, _ := lg.GetState(tm, []byte(contracts.GlobalTxInfoKey("0xGROUP")))
	zz.Assert("C17.registries.nothing-written", !ok && !ok2)
	if first != 0 {
		var rec pb.TransactionRecord
		okr, v := lg.GetState(tm, []byte(contracts.TxInfoKey("1356:chA:s1-1356:chB:s2-1")))
		zz.Assert("C17.registries.earlier-record-untouched", okr && rec.Unmarshal(v) == nil && rec.Status == pb.TransactionStatus_BEGIN)
	}
}
