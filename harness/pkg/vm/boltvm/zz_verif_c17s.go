//go:build verif

package boltvm

import (
	"encoding/json"
	"fmt"
	"reflect"

	"github.com/iancoleman/orderedmap"
	"github.com/meshplus/bitxhub-core/agency"
	appchainMgr "github.com/meshplus/bitxhub-core/appchain-mgr"
	"github.com/meshplus/bitxhub-core/governance"
	nodemgr "github.com/meshplus/bitxhub-core/node-mgr"
	service_mgr "github.com/meshplus/bitxhub-core/service-mgr"
	"github.com/meshplus/bitxhub-kit/types"
	"github.com/meshplus/bitxhub-model/constant"
	"github.com/meshplus/bitxhub-model/pb"
	"github.com/meshplus/bitxhub/internal/executor/contracts"
	"github.com/meshplus/bitxhub/internal/ledger"
	"github.com/meshplus/bitxhub/pkg/vm"
	zz "github.com/meshplus/bitxhub/internal/zzverif"
)

var (
	zzrOutsider   = types.NewAddressByStr("0x9999999999999999999999999999999999999999")
	zzrChainAdmin = types.NewAddressByStr("0xB000000000000000000000000000000000000002") // admin of chB
	zzrNode       = types.NewAddressByStr("0xD000000000000000000000000000000000000004")
	zzrGovAdmin   = types.NewAddressByStr("0xA000000000000000000000000000000000000001")
)

func zzPutJSON(lg *ledger.Ledger, addr constant.BoltContractAddress, key string, v interface{}) {
	b, err := json.Marshal(v)
	if err != nil {
		panic(err)
	}
	lg.SetState(addr.Address(), []byte(key), b, nil)
}

// zzRealWorld: the built-in contracts as the executor registers them (without the free-for-all
// Store and the optional eth-header contract) over a real ledger with a populated state.
func zzRealWorld() (*ledger.Ledger, map[string]agency.Contract) {
	lg, err := ledger.New(nil, zz.NewStore(), zz.NewStore(), zz.NewBlockFile(), nil, zz.Logger())
	if err != nil {
		panic(err)
	}
	list := map[constant.BoltContractAddress]agency.Contract{
		constant.InterchainContractAddr:          &contracts.InterchainManager{},
		constant.RuleManagerContractAddr:         &contracts.RuleManager{},
		constant.RoleContractAddr:                &contracts.RoleManager{},
		constant.AppchainMgrContractAddr:         &contracts.AppchainManager{},
		constant.TransactionMgrContractAddr:      &contracts.TransactionManager{},
		constant.GovernanceContractAddr:          &contracts.Governance{},
		constant.NodeManagerContractAddr:         &contracts.NodeManager{},
		constant.InterBrokerContractAddr:         &contracts.InterBroker{},
		constant.ServiceMgrContractAddr:          &contracts.ServiceManager{},
		constant.DappMgrContractAddr:             &contracts.DappManager{},
		constant.ProposalStrategyMgrContractAddr: &contracts.GovStrategy{},
		constant.ServiceRegistryContractAddr:     &contracts.ServiceRegistry{},
		constant.ServiceResolverContractAddr:     &contracts.ServiceResolver{},
	}
	cs := map[string]agency.Contract{}
	for a, c := range list {
		cs[a.Address().String()] = c
	}
	lg.SetState(constant.InterchainContractAddr.Address(), []byte(contracts.BitXHubID), []byte("1356"), nil)
	// governance admins (the caller zzrGovAdmin is the first one)
	ids := orderedmap.New()
	admins := []string{zzrGovAdmin.String(), "0xA1", "0xA2", "0xA3"}
	var electors []*contracts.Role
	for _, id := range admins {
		ids.Set(id, struct{}{})
		r := contracts.Role{ID: id, RoleType: contracts.GovernanceAdmin, Weight: 1, Status: governance.GovernanceAvailable}
		zzPutJSON(lg, constant.RoleContractAddr, contracts.RoleKey(id), r)
		rr := r
		electors = append(electors, &rr)
	}
	zzPutJSON(lg, constant.RoleContractAddr, contracts.RoleTypeKey(string(contracts.GovernanceAdmin)), ids)
	// chain admin of chB
	cid := orderedmap.New()
	cid.Set(zzrChainAdmin.String(), struct{}{})
	zzPutJSON(lg, constant.RoleContractAddr, contracts.RoleKey(zzrChainAdmin.String()), contracts.Role{ID: zzrChainAdmin.String(), RoleType: contracts.AppchainAdmin, AppchainID: "chB", Status: governance.GovernanceAvailable})
	zzPutJSON(lg, constant.RoleContractAddr, contracts.RoleAppchainAdminKey("chB"), cid)
	zzPutJSON(lg, constant.AppchainMgrContractAddr, appchainMgr.AppAdminsChainKey("chB"), []string{zzrChainAdmin.String()})
	zzPutJSON(lg, constant.AppchainMgrContractAddr, appchainMgr.AppchainAdminKey(zzrChainAdmin.String()), "chB")
	// a consensus node account
	zzPutJSON(lg, constant.NodeManagerContractAddr, nodemgr.NodeKey(zzrNode.String()), nodemgr.Node{Account: zzrNode.String(), NodeType: nodemgr.VPNode, Pid: "QmNode", VPNodeId: 1, Primary: true, Status: governance.GovernanceAvailable})
	// objects of chain chA
	zzPutJSON(lg, constant.AppchainMgrContractAddr, appchainMgr.AppchainKey("chA"), appchainMgr.Appchain{ID: "chA", ChainName: "chA", ChainType: "ETH", Status: governance.GovernanceAvailable})
	zzPutJSON(lg, constant.ServiceMgrContractAddr, service_mgr.ServiceKey("chA:s1"), service_mgr.Service{ChainID: "chA", ServiceID: "s1", Name: "s1", Type: service_mgr.ServiceCallContract,
		Ordered: true, Permission: map[string]struct{}{}, Status: governance.GovernanceUpdating})
	done := contracts.Proposal{Id: "0xSponsor-0", Typ: contracts.ServiceMgr, Status: contracts.APPROVED, ObjId: "chA:s1", ObjLastStatus: governance.GovernanceAvailable,
		BallotMap: map[string]pb.Ballot{}, EventType: governance.EventUpdate, StrategyType: contracts.ZeroPermission, EndReason: contracts.NormalReason}
	zzPutJSON(lg, constant.GovernanceContractAddr, contracts.ProposalKey(done.Id), done)
	open := contracts.Proposal{Id: "0xSponsor-1", Typ: contracts.ServiceMgr, Status: contracts.PROPOSED, ObjId: "chA:s1", ObjLastStatus: governance.GovernanceAvailable,
		BallotMap: map[string]pb.Ballot{}, EventType: governance.EventUpdate, StrategyType: contracts.SimpleMajority, StrategyExpression: "a > 0.5 * t",
		InitialElectorateNum: 4, AvailableElectorateNum: 4, ThresholdApproveNum: 3, ElectorateList: electors}
	zzPutJSON(lg, constant.GovernanceContractAddr, contracts.ProposalKey(open.Id), open)
	st := orderedmap.New()
	st.Set(open.Id, struct{}{})
	zzPutJSON(lg, constant.GovernanceContractAddr, contracts.ProposalStatusKey(string(contracts.PROPOSED)), st)
	ic := &pb.Interchain{ID: "1356:chA:s1", InterchainCounter: map[string]uint64{"1356:chB:s2": 3}, ReceiptCounter: map[string]uint64{"1356:chB:s2": 2},
		SourceInterchainCounter: map[string]uint64{}, SourceReceiptCounter: map[string]uint64{}}
	b, _ := ic.Marshal()
	lg.SetState(constant.InterchainContractAddr.Address(), []byte(contracts.INTERCHAINSERVICE_PREFIX+"-"+ic.ID), b, nil)
	rec := pb.TransactionRecord{Status: pb.TransactionStatus_SUCCESS, Height: 9}
	rb, _ := rec.Marshal()
	lg.SetState(constant.TransactionMgrContractAddr.Address(), []byte(contracts.TxInfoKey("1356:chA:s1-1356:chB:s2-1")), rb, nil)
	acc, root := lg.FlushDirtyData()
	_ = lg.StateLedger.Commit(1, acc, root)
	return lg, cs
}

// zzRealArgs builds well-typed invoke arguments from the method's signature: every string is str,
// numbers are 1, the rest zero values; ok=false if a parameter type cannot be expressed as pb.Arg.
func zzRealArgs(m reflect.Value, str string) ([]*pb.Arg, bool) {
	t := m.Type()
	var out []*pb.Arg
	for i := 0; i < t.NumIn(); i++ {
		switch t.In(i).Kind() {
		case reflect.String:
			out = append(out, pb.String(str))
		case reflect.Uint64:
			out = append(out, pb.Uint64(1))
		case reflect.Int64:
			out = append(out, pb.Int64(1))
		case reflect.Int32:
			out = append(out, pb.Int32(1))
		case reflect.Bool:
			out = append(out, pb.Bool(false))
		case reflect.Float64:
			out = append(out, pb.Float64(1))
		case reflect.Slice:
			if t.In(i).Elem().Kind() != reflect.Uint8 {
				return nil, false
			}
			out = append(out, pb.Bytes([]byte(str)))
		default:
			return nil, false
		}
	}
	return out, true
}

// zzGovAdminMay: operations the contracts reserve to governance admins and that take effect with the
// argument shapes used here (reviewed one by one: each checks IsAnyAvailableAdmin / PermissionAdmin).
var zzGovAdminMay = map[string]bool{
	"*contracts.AppchainManager.FreezeAppchain": true, // PermissionAdmin, chain chA is available
	"*contracts.ServiceRegistry.SetPriceLevel":  true, // IsAnyAvailableAdmin
	"*contracts.ServiceRegistry.SetTokenPrice":  true, // IsAnyAvailableAdmin
}

var zzRealStrings = []string{"0xSponsor-0", "0xSponsor-1", "chA", "chA:s1", "1356:chA:s1", "1356:chA:s1-1356:chB:s2-1", "x"}

// zzRealSurface: one exported method of one registered contract - including the methods promoted
// from the embedded Stub and from the embedded bitxhub-core managers - is invoked by an external
// account (no role / admin of another chain / node account / governance admin) through the REAL
// BoltVM.Run, reflection dispatch, parseArgs and BoltStubImpl over a real ledger; a failed call is
// reverted as applyTransaction does. With these arguments none of the callers is entitled to
// anything: afterwards no account is dirty and, for an accepted call, no event was posted.
// (C01: result and error text contain no memory address.)
func zzRealSurface(addr constant.BoltContractAddress) {
	lg, cs := zzRealWorld()
	c := cs[addr.Address().String()]
	names := zz.Methods(c)
	method := names[zz.Choice("method", len(names))]
	str := zzRealStrings[zz.Choice("strings", len(zzRealStrings))]
	caller := []*types.Address{zzrOutsider, zzrChainAdmin, zzrNode, zzrGovAdmin}[zz.Choice("callerRole", 4)]
	args, ok := zzRealArgs(reflect.ValueOf(c).MethodByName(method), str)
	if !ok {
		return // not expressible as an invoke payload: BoltVM cannot call it with well-typed arguments
	}
	ip := &pb.InvokePayload{Method: method, Args: args}
	input, _ := ip.Marshal()
	tx := &pb.BxhTransaction{From: caller, To: addr.Address(), Timestamp: 7,
		TransactionHash: types.NewHashByStr("0x1111111111111111111111111111111111111111111111111111111111111111")}
	lg.PrepareBlock(tx.TransactionHash, 2)
	ctx := vm.NewContext(tx, 0, nil, 2, lg, zz.Logger(), zz.Choice("audit", 2) == 1, nil)
	snap := lg.Snapshot()
	var rerr error
	var ret []byte
	crashed, _ := zz.Crashed(func() { ret, _, rerr = New(ctx, nil, nil, cs).Run(input, 0) })
	key := fmt.Sprintf("%T.%s", c, method)
	// what goes into the receipt (result, or the error text of a failed call) is the same on every node
	zz.NoAddress("C01.no-address-in-receipt:"+key, ret)
	if rerr != nil {
		zz.NoAddress("C01.no-address-in-receipt:"+key, []byte(rerr.Error()))
	}
	zz.Assert("C08.dispatch.no-escaping-panic:"+key, !crashed)
	if rerr != nil {
		lg.RevertToSnapshot(snap)
	}
	dirty, _ := lg.FlushDirtyData()
	zz.Tag("C17.F-broker", addr == constant.InterBrokerContractAddr)
	zz.Tag("C17.D13-register", key == "*contracts.InterchainManager.Register")
	zz.Tag("C07.D6", true)
	if caller == zzrGovAdmin && zzGovAdminMay[key] {
		zz.Cover("C17.real.governance-admin-operation-accepted", rerr == nil)
		return
	}
	zz.Assert("C17.outsider-no-effect:"+key, len(dirty) == 0 && (rerr != nil || len(lg.Events(tx.TransactionHash.String())) == 0))
}

// zz:also C01 C08
func ZZH_C17_real_governance() { zzRealSurface(constant.GovernanceContractAddr) }
// zz:also C01 C08
func ZZH_C17_real_interchain() { zzRealSurface(constant.InterchainContractAddr) }
// zz:also C01 C08
func ZZH_C17_real_txmgr()      { zzRealSurface(constant.TransactionMgrContractAddr) }
// zz:also C01 C08
func ZZH_C17_real_service()    { zzRealSurface(constant.ServiceMgrContractAddr) }
// zz:also C01 C08
func ZZH_C17_real_appchain()   { zzRealSurface(constant.AppchainMgrContractAddr) }
// zz:also C01 C08
func ZZH_C17_real_role()       { zzRealSurface(constant.RoleContractAddr) }
// zz:also C01 C08
func ZZH_C17_real_rule()       { zzRealSurface(constant.RuleManagerContractAddr) }
// zz:also C01 C08
func ZZH_C17_real_node()       { zzRealSurface(constant.NodeManagerContractAddr) }
// zz:also C01 C08
func ZZH_C17_real_dapp()       { zzRealSurface(constant.DappMgrContractAddr) }
// zz:also C01 C08
func ZZH_C17_real_strategy()   { zzRealSurface(constant.ProposalStrategyMgrContractAddr) }
// zz:also C01 C08
func ZZH_C17_real_broker()     { zzRealSurface(constant.InterBrokerContractAddr) }
// zz:also C01 C08
func ZZH_C17_real_registry()   { zzRealSurface(constant.ServiceRegistryContractAddr) }
// zz:also C01 C08
func ZZH_C17_real_resolver()   { zzRealSurface(constant.ServiceResolverContractAddr) }
