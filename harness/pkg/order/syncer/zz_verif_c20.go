//go:build verif

package syncer

import (
	zz "github.com/meshplus/bitxhub/internal/zzverif"
)

// ZZH_C20_range: calcRangeHeight covers [begin,end] exactly once, ascending, contiguous.
// Bounds: blockFetch in 1..64 symbolic, begin<=end<2^62, at most 4 ranges (unwinding 5).
// Integer encoding: mathematical Ints with explicit wrap-around (multiply/divide kernel).
func ZZH_C20_range() {
	bf := zz.U64i("blockFetch")
	begin := zz.U64i("begin")
	end := zz.U64i("end")
	zz.Assume(bf >= 1)
	zz.Assume(bf <= 64)
	zz.Assume(begin <= end)
	zz.Assume(end < 1<<62)
	zz.Assume(end-begin < 3*bf)
	s := &StateSyncer{blockFetch: bf}
	rs, err := s.calcRangeHeight(begin, end)
	zz.Assert("C20.range.noerr", err == nil)
	zz.Assert("C20.range.nonempty", len(rs) >= 1)
	zz.Cover("C20.range.multi", len(rs) >= 3)
	zz.Assert("C20.range.first", rs[0].begin == begin)
	zz.Assert("C20.range.last", rs[len(rs)-1].end == end)
	for i, r := range rs {
		zz.Assert("C20.range.ordered", r.begin <= r.end)
		zz.Assert("C20.range.size", r.end-r.begin <= bf)
		if i > 0 {
			zz.Assert("C20.range.contiguous", r.begin == rs[i-1].end+1)
		}
	}
}

// ZZH_C20_range_refuse: begin > end is refused.
func ZZH_C20_range_refuse() {
	begin := zz.U64("begin")
	end := zz.U64("end")
	zz.Assume(begin > end)
	s := &StateSyncer{blockFetch: 5}
	rs, err := s.calcRangeHeight(begin, end)
	zz.Assert("C20.range.refuse", err != nil && rs == nil)
}
