//go:build verif

package etcdraft

import (
	"fmt"
	"context"
	"github.com/coreos/etcd/raft"
	"os"
	"github.com/coreos/etcd/snap"
	"sync"
	"time"

	"github.com/coreos/etcd/raft/raftpb"
	"github.com/ethereum/go-ethereum/event"
	"github.com/meshplus/bitxhub-kit/types"
	"github.com/meshplus/bitxhub-model/pb"
	raftproto "github.com/meshplus/bitxhub/pkg/order/etcdraft/proto"
	"github.com/meshplus/bitxhub/pkg/order/mempool"
	zz "github.com/meshplus/bitxhub/internal/zzverif"
)

// zzPool is a recording mempool stub.
type zzPool struct {
	seqNo     []uint64
	committed []uint64
}

func (p *zzPool) ProcessTransactions(txs []pb.Transaction, isLeader, isLocal bool) *raftproto.RequestBatch { return nil }
func (p *zzPool) GenerateBlock() *raftproto.RequestBatch                                                 { return nil }
func (p *zzPool) CommitTransactions(state *mempool.ChainState)                                           { p.committed = append(p.committed, state.Height) }
func (p *zzPool) HasPendingRequest() bool                                                                { return false }
func (p *zzPool) SetBatchSeqNo(batchSeq uint64)                                                          { p.seqNo = append(p.seqNo, batchSeq) }
func (p *zzPool) GetTimeoutTransactions(d time.Duration) [][]pb.Transaction                              { return nil }
func (p *zzPool) RemoveAliveTimeoutTxs(d time.Duration) uint64                                           { return 0 }
func (p *zzPool) SubscribeTxEvent(chan<- pb.Transactions) event.Subscription                             { return nil }
func (p *zzPool) GetPendingNonceByAccount(account string) uint64                                         { return 0 }
func (p *zzPool) GetPendingTransactions(max int) []pb.Transaction                                        { return nil }
func (p *zzPool) GetTransaction(hash *types.Hash) pb.Transaction                                         { return nil }
func (p *zzPool) IsPoolFull() bool                                                                       { return false }

func zzNode(lastExec uint64, store *zz.MemStore) (*Node, *zzPool) {
	pool := &zzPool{}
	n := &Node{
		id: 1, leader: 2, logger: zz.Logger(), mempool: pool, storage: store,
		commitC:   make(chan *pb.CommitEvent, 16),
		haltC:     make(chan struct{}),
		lastExec:  lastExec,
		readyPool: &sync.Pool{New: func() interface{} { return new(raftproto.RequestBatch) }},
	}
	return n, pool
}

func zzBatchEntry(index, height uint64) raftpb.Entry {
	rb := &raftproto.RequestBatch{Height: height, Timestamp: int64(height), TxList: &pb.Transactions{}}
	data, _ := rb.Marshal()
	return raftpb.Entry{Type: raftpb.EntryNormal, Index: index, Data: data}
}

func zzDrain(n *Node) []uint64 {
	var hs []uint64
	for len(n.commitC) > 0 {
		ev := <-n.commitC
		if ev != nil {
			hs = append(hs, ev.Block.BlockHeader.Number)
		}
	}
	return hs
}

// ZZH_C20_publish: publishEntries on 1..3 committed entries with consecutive indices whose
// batches carry symbolic heights, from a symbolic (lastExec, persisted applied index): the
// executor receives exactly the heights lastExec+1, lastExec+2, ... in order, once; entries at
// or below the persisted applied index are skipped; entries with the expected height above
// it are not skipped.
func ZZH_C20_publish() {
	lastExec := zz.U64("lastExec")
	zz.Assume(lastExec < 1<<32)
	n, _ := zzNode(lastExec, zz.NewStore())
	applied := zz.U64("blockAppliedIndex")
	zz.Assume(applied < 1<<32)
	n.blockAppliedIndex.Store(lastExec, applied)
	first := zz.U64("firstIndex")
	zz.Assume(first >= 1)
	zz.Assume(first < 1<<32)
	cnt := 1 + zz.Choice("entries", zz.Tier(3, 5))
	var ents []raftpb.Entry
	var heights []uint64
	for i := 0; i < cnt; i++ {
		if zz.Choice("kind", 3) == 0 {
			ents = append(ents, raftpb.Entry{Type: raftpb.EntryNormal, Index: first + uint64(i)}) // empty entry
			heights = append(heights, 0)
			continue
		}
		h := zz.U64("height")
		zz.Assume(h >= 1)
		zz.Assume(h < 1<<33)
		ents = append(ents, zzBatchEntry(first+uint64(i), h))
		heights = append(heights, h)
	}
	ok := n.publishEntries(ents)
	zz.Assert("C20.publish.ok", ok)
	got := zzDrain(n)
	// reference: walk the entries with the statement's rule
	exp := lastExec
	var want []uint64
	skipBelow := applied
	for i := 0; i < cnt; i++ {
		if heights[i] == 0 {
			continue
		}
		if first+uint64(i) <= skipBelow {
			continue // already executed before the restart
		}
		if heights[i] == exp+1 {
			want = append(want, heights[i])
			exp++
			skipBelow = first + uint64(i) // the newest block now maps to this index
		}
	}
	zz.Cover("C20.publish.delivered", len(got) >= 2)
	zz.Assert("C20.publish.count", len(got) == len(want))
	for i := range got {
		zz.Assert("C20.publish.in-order-by-one", got[i] == lastExec+uint64(i)+1)
	}
	zz.Assert("C20.publish.lastExec", n.lastExec == lastExec+uint64(len(got)))
	zz.Assert("C20.publish.applied-index", n.appliedIndex == first+uint64(cnt)-1)
}

// ZZH_C20_restart: three entries (heights h+1..h+3) are published in a first life; the
// executor persisted a prefix c of them and the applied index was reported for a subset in
// any order; after the restart raft replays all three entries: every height is executed
// exactly once over both lives, in order.
func ZZH_C20_restart() {
	h := uint64(10)
	base := zz.U64("indexBase")
	zz.Assume(base >= 1)
	zz.Assume(base < 1<<32)
	store := zz.NewStore()
	n1, _ := zzNode(h, store)
	n1.blockAppliedIndex.Store(h, n1.loadAppliedIndex())
	ents := []raftpb.Entry{zzBatchEntry(base+1, h+1), zzBatchEntry(base+2, h+2), zzBatchEntry(base+3, h+3)}
	p := zz.Choice("publishedInFirstLife", 4)
	n1.publishEntries(ents[:p])
	first := zzDrain(n1)
	zz.Assert("C20.restart.first-life", len(first) == p)
	c := zz.Choice("persistedByExecutor", p+1) // blocks h+1..h+c reached the chain
	// reports for persisted blocks, processed in some order, possibly not at all
	order := zz.Choice("reportOrder", 3) // 0: none, 1: ascending, 2: descending
	for k := 0; k < c; k++ {
		j := k
		if order == 2 {
			j = c - 1 - k
		}
		if order != 0 {
			n1.reportState(&mempool.ChainState{Height: h + 1 + uint64(j)})
		}
	}
	// ---- restart: lastExec = chain height, applied index from the db ----
	n2, _ := zzNode(h+uint64(c), store)
	n2.blockAppliedIndex.Store(n2.lastExec, n2.loadAppliedIndex())
	n2.publishEntries(ents)
	second := zzDrain(n2)
	zz.Tag("C20.F-reorder", order == 2)
	zz.Assert("C20.restart.executes-the-rest", len(second) == 3-c)
	for i := range second {
		zz.Assert("C20.restart.in-order-by-one", second[i] == h+uint64(c)+uint64(i)+1)
	}
}

// ZZH_C20_report: the executed-block reports of two consecutive blocks may be processed in
// either order (they are posted from separate goroutines): the applied index persisted is
// never ahead of what was executed, and the pool is told about every executed block.
func ZZH_C20_report() {
	h := uint64(10)
	base := zz.U64("indexBase")
	zz.Assume(base >= 1)
	zz.Assume(base < 1<<32)
	store := zz.NewStore()
	n, pool := zzNode(h, store)
	n.blockAppliedIndex.Store(h, uint64(0))
	n.publishEntries([]raftpb.Entry{zzBatchEntry(base+1, h+1), zzBatchEntry(base+2, h+2)})
	zzDrain(n)
	if zz.Choice("order", 2) == 0 {
		n.reportState(&mempool.ChainState{Height: h + 1})
		n.reportState(&mempool.ChainState{Height: h + 2})
	} else {
		n.reportState(&mempool.ChainState{Height: h + 2})
		n.reportState(&mempool.ChainState{Height: h + 1})
	}
	zz.Assert("C20.report.pool-told-about-every-block", len(pool.committed) == 2)
	idx := n.loadAppliedIndex()
	zz.Assert("C20.report.applied-index-of-an-executed-block", idx == base+1 || idx == base+2)
}

// ZZH_C20_snapshot: the payload of a raft snapshot taken at the applied index describes the
// block of that index - the height the ordering loop has delivered (lastExec) - and not the
// (possibly lagging, symbolic) height the executor has reached in the ledger: a replica caught
// up by this snapshot synchronises blocks up to the payload height and then resumes at
// index+1, so a lower height would leave the blocks in between undelivered for ever.
func ZZH_C20_snapshot() {
	lastExec := zz.U64("lastExec")
	zz.Assume(lastExec < 1<<32)
	n, _ := zzNode(lastExec, zz.NewStore())
	lag := zz.U64("executorLag")
	zz.Assume(lag <= lastExec)
	ledgerHeight := lastExec - lag
	n.getChainMetaFunc = func() *pb.ChainMeta {
		return &pb.ChainMeta{Height: ledgerHeight, BlockHash: types.NewHashByStr("0x1111111111111111111111111111111111111111111111111111111111111111")}
	}
	// optionally some entries are published first, so that lastExec moved since the node started
	if zz.Choice("publishFirst", 2) == 1 {
		n.blockAppliedIndex.Store(lastExec, uint64(3))
		ok := n.publishEntries([]raftpb.Entry{zzBatchEntry(4, lastExec+1), zzBatchEntry(5, lastExec+2)})
		zz.Assert("C20.snapshot.setup", ok && n.lastExec == lastExec+2 && n.appliedIndex == 5)
		zzDrain(n)
	}
	data, err := n.getSnapshot()
	zz.Assert("C20.snapshot.encodes", err == nil)
	cm := &pb.ChainMeta{}
	zz.Assert("C20.snapshot.decodes", cm.Unmarshal(data) == nil)
	zz.Assert("C20.snapshot.height-of-applied-index", cm.Height == n.lastExec)
	zz.Cover("C20.snapshot.executor-lagging", lag > 0)
}

// zzSyncer answers block-range requests from a harness-chosen script: complete and in order, or
// with one fault in the first reply (a block missing, duplicated, or two neighbours swapped).
type zzSyncer struct {
	fault    int // 0 none, 1 drop, 2 duplicate, 3 swap; applied to the first reply only
	pos      int // position of the fault inside the reply
	calls    int
	requests [][2]uint64
}

func (s *zzSyncer) SyncCFTBlocks(begin, end uint64, ch chan *pb.Block) error {
	s.calls++
	s.requests = append(s.requests, [2]uint64{begin, end})
	if begin > end {
		// what the real syncer answers (calcRangeHeight refuses an empty range; see ZZH_C20_range_refuse)
		return fmt.Errorf("calculate range height failed: the end height:%d is less than the start height:%d", end, begin)
	}
	var hs []uint64
	for h := begin; h <= end; h++ {
		hs = append(hs, h)
	}
	if s.calls == 1 && s.pos < len(hs) {
		switch s.fault {
		case 1:
			hs = append(append([]uint64{}, hs[:s.pos]...), hs[s.pos+1:]...)
		case 2:
			hs = append(append(append([]uint64{}, hs[:s.pos+1]...), hs[s.pos]), hs[s.pos+1:]...)
		case 3:
			if s.pos+1 < len(hs) {
				hs[s.pos], hs[s.pos+1] = hs[s.pos+1], hs[s.pos]
			}
		}
	}
	for _, h := range hs {
		ch <- &pb.Block{BlockHeader: &pb.BlockHeader{Number: h}, Transactions: &pb.Transactions{}}
	}
	ch <- nil
	return nil
}

func (s *zzSyncer) SyncBFTBlocks(begin, end uint64, metaHash *types.Hash, ch chan *pb.Block) error {
	return nil
}

// ZZH_C20_catchup: a lagging replica installs a raft snapshot (target height = lastExec + 1..4,
// snapshot index 20) and fetches the missing blocks from a peer whose first reply may be faulty
// (one block missing, duplicated or swapped with its neighbour - message loss / duplication /
// reordering). The executor receives exactly the heights lastExec+1 .. target, in order, each
// once; afterwards lastExec = target and the applied index is the snapshot's.
func ZZH_C20_catchup() {
	lastExec := uint64(2)
	n, _ := zzNode(lastExec, zz.NewStore())
	// (gap 0: the replica's ledger is already at the snapshot's height - it only missed entries that
	// carry no block, e.g. configuration changes - the catch-up must simply find nothing to fetch)
	gap := uint64(zz.Choice("gap", 5))
	target := lastExec + gap
	sy := &zzSyncer{fault: zz.Choice("fault", 4), pos: zz.Choice("faultPosition", 4)}
	n.syncer = sy
	height := lastExec
	n.getChainMetaFunc = func() *pb.ChainMeta {
		return &pb.ChainMeta{Height: height, BlockHash: types.NewHashByStr("0x1111111111111111111111111111111111111111111111111111111111111111")}
	}
	dir, _ := os.MkdirTemp("", "zzsnap")
	defer os.RemoveAll(dir)
	sn := snap.New(dir)
	cm := pb.ChainMeta{Height: target}
	data, _ := cm.Marshal()
	if err := sn.SaveSnap(raftpb.Snapshot{Data: data, Metadata: raftpb.SnapshotMetadata{Index: 20, Term: 1}}); err != nil {
		panic(err)
	}
	n.raftStorage = &RaftStorage{snap: sn}
	n.commitC = make(chan *pb.CommitEvent, 64)
	n.recoverFromSnapshot()
	got := zzDrain(n)
	zz.Assert("C20.catchup.count", uint64(len(got)) == gap)
	for i := range got {
		zz.Assert("C20.catchup.in-order-by-one", got[i] == lastExec+uint64(i)+1)
	}
	zz.Assert("C20.catchup.reaches-target", n.lastExec == target && n.appliedIndex == 20 && n.snapshotIndex == 20)
	zz.Cover("C20.catchup.retried", sy.calls >= 2)
}

// zzRaftNode is a raft.Node that produces nothing: the step checked is the node's own stop path.
type zzRaftNode struct{ stopped int }

func (r *zzRaftNode) Tick()                                                          {}
func (r *zzRaftNode) Campaign(ctx context.Context) error                             { return nil }
func (r *zzRaftNode) Propose(ctx context.Context, data []byte) error                 { return nil }
func (r *zzRaftNode) ProposeConfChange(ctx context.Context, cc raftpb.ConfChange) error { return nil }
func (r *zzRaftNode) Step(ctx context.Context, msg raftpb.Message) error             { return nil }
func (r *zzRaftNode) Ready() <-chan raft.Ready                                       { return nil }
func (r *zzRaftNode) Advance()                                                       {}
func (r *zzRaftNode) ApplyConfChange(cc raftpb.ConfChange) *raftpb.ConfState         { return nil }
func (r *zzRaftNode) TransferLeadership(ctx context.Context, lead, transferee uint64) {}
func (r *zzRaftNode) ReadIndex(ctx context.Context, rctx []byte) error               { return nil }
func (r *zzRaftNode) Status() raft.Status                                            { return raft.Status{} }
func (r *zzRaftNode) ReportUnreachable(id uint64)                                    {}
func (r *zzRaftNode) ReportSnapshot(id uint64, status raft.SnapshotStatus)           {}
func (r *zzRaftNode) Stop()                                                          { r.stopped++ }

// ZZH_C20_graceful_stop: as ZZH_C20_restart, but the first life ends with a graceful stop: the
// node's context is cancelled and the real listenRaftMsg loop takes its stop branch (tickers never
// fire, the raft node produces nothing). Entries that were delivered to the executor but not yet
// executed when the node stopped are delivered again after the restart: every height is executed
// exactly once over both lives, in order, and none is skipped.
func ZZH_C20_graceful_stop() {
	h := uint64(10)
	base := uint64(100)
	store := zz.NewStore()
	n1, _ := zzNode(h, store)
	n1.blockAppliedIndex.Store(h, n1.loadAppliedIndex())
	ents := []raftpb.Entry{zzBatchEntry(base+1, h+1), zzBatchEntry(base+2, h+2), zzBatchEntry(base+3, h+3)}
	p := zz.Choice("publishedInFirstLife", 4)
	n1.publishEntries(ents[:p])
	first := zzDrain(n1)
	zz.Assert("C20.stop.first-life", len(first) == p)
	c := zz.Choice("persistedByExecutor", p+1)
	if zz.Choice("reported", 2) == 1 {
		for k := 0; k < c; k++ {
			n1.reportState(&mempool.ChainState{Height: h + 1 + uint64(k)})
		}
	}
	rn := &zzRaftNode{}
	n1.node = rn
	n1.txCache = &mempool.TxCache{}
	n1.batchTimerMgr = &BatchTimer{}
	n1.tickTimeout, n1.checkInterval, n1.checkAlive = time.Second, time.Second, time.Second
	n1.ctx, n1.cancel = context.WithCancel(context.Background())
	_ = n1.ctx.Done() // (the done channel exists before the cancellation, as in a node that has been running)
	n1.cancel()
	n1.listenRaftMsg()
	zz.Assert("C20.stop.raft-node-stopped", rn.stopped == 1)
	// ---- restart ----
	n2, _ := zzNode(h+uint64(c), store)
	n2.blockAppliedIndex.Store(n2.lastExec, n2.loadAppliedIndex())
	n2.publishEntries(ents)
	second := zzDrain(n2)
	zz.Assert("C20.stop.executes-the-rest", len(second) == 3-c)
	for i := range second {
		zz.Assert("C20.stop.in-order-by-one", second[i] == h+uint64(c)+uint64(i)+1)
	}
}
