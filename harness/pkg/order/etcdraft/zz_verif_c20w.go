//go:build verif

package etcdraft

import (
	"sync"

	"github.com/coreos/etcd/raft/raftpb"
	"github.com/meshplus/bitxhub-kit/types"
	"github.com/meshplus/bitxhub-model/pb"
	raftproto "github.com/meshplus/bitxhub/pkg/order/etcdraft/proto"
	"github.com/meshplus/bitxhub/pkg/order/mempool"
	zz "github.com/meshplus/bitxhub/internal/zzverif"
)

// ZZH_C20_new_leader_window: a replica with the REAL transaction pool holds a broadcast transaction
// T; the leader's batch with T commits and is delivered to this replica's executor (real
// publishEntries). The executor's report for that block reaches the pool before or after the replica
// is elected leader itself (what run() does on election: the sequence number is set to the last
// delivered height; no entries in flight). Then the block timer fires (timed block generation): the
// batch the new leader proposes carries the next height and does not contain T again - a
// transaction is included in at most one delivered block.
func ZZH_C20_new_leader_window() {
	lastExec := uint64(5)
	acct := types.NewAddressByStr("0x1000000000000000000000000000000000000001")
	other := types.NewAddressByStr("0x2000000000000000000000000000000000000002")
	pool := mempool.NewMemPool(&mempool.Config{ID: 1, BatchSize: 2, PoolSize: 100, TxSliceSize: 10, ChainHeight: lastExec, Logger: zz.Logger(), IsTimed: true,
		GetAccountNonce: func(*types.Address) uint64 { return 0 }})
	n := &Node{
		id: 1, leader: 2, logger: zz.Logger(), mempool: pool, storage: zz.NewStore(), isTimed: true,
		commitC:   make(chan *pb.CommitEvent, 16),
		haltC:     make(chan struct{}),
		proposeC:  make(chan *raftproto.RequestBatch, 4),
		lastExec:  lastExec,
		readyPool: &sync.Pool{New: func() interface{} { return new(raftproto.RequestBatch) }},
	}
	tx := func(nonce uint64, h string) pb.Transaction {
		return &pb.BxhTransaction{From: acct, To: other, Nonce: nonce, Timestamp: 1, TransactionHash: types.NewHashByStr(h)}
	}
	T := tx(0, "0x1111111111111111111111111111111111111111111111111111111111111111")
	n.processTransactions([]pb.Transaction{T}, false)
	rb := &raftproto.RequestBatch{Height: lastExec + 1, Timestamp: 1, TxList: &pb.Transactions{Transactions: []pb.Transaction{T}}}
	data, _ := rb.Marshal()
	ok := n.publishEntries([]raftpb.Entry{{Type: raftpb.EntryNormal, Index: 9, Data: data}})
	zz.Assert("C20.window.published", ok && len(n.commitC) == 1 && n.lastExec == lastExec+1)
	reportedFirst := zz.Choice("executorReportedBeforeTheElection", 2) == 1
	report := func() {
		n.reportState(&mempool.ChainState{Height: lastExec + 1, TxHashList: []*types.Hash{T.GetHash()}})
	}
	if reportedFirst {
		report()
	}
	// a second transaction of the account may have arrived meanwhile
	withNext := zz.Choice("nextNonceArrived", 2) == 1
	if withNext {
		n.processTransactions([]pb.Transaction{tx(1, "0x2222222222222222222222222222222222222222222222222222222222222222")}, false)
	}
	// elected
	n.leader = n.id
	n.mempool.SetBatchSeqNo(n.lastExec)
	n.processGenerateBlockTimeout()
	zz.Assert("C20.window.one-proposal", len(n.proposeC) == 1)
	if len(n.proposeC) != 1 {
		return
	}
	b := <-n.proposeC
	zz.Assert("C20.window.next-height", b != nil && b.Height == lastExec+2)
	if b == nil {
		return
	}
	zz.Tag("C20.F-new-leader-rebatches-unreported", !reportedFirst)
	for _, x := range b.TxList.Transactions {
		zz.Assert("C20.window.delivered-transaction-not-batched-again", x.GetHash().String() != T.GetHash().String())
	}
}
