//go:build verif

package mempool

import (
	"time"

	"github.com/meshplus/bitxhub-kit/types"
	"github.com/meshplus/bitxhub-model/pb"
	zz "github.com/meshplus/bitxhub/internal/zzverif"
)

var zzEvictHashes = []string{
	"0x6111111111111111111111111111111111111111111111111111111111111111",
	"0x6222222222222222222222222222222222222222222222222222222222222222",
	"0x6333333333333333333333333333333333333333333333333333333333333333",
	"0x6444444444444444444444444444444444444444444444444444444444444444",
	"0x6555555555555555555555555555555555555555555555555555555555555555",
	"0x6666666666666666666666666666666666666666666666666666666666666666",
	"0x6777777777777777777777777777777777777777777777777777777777777777",
}

var zzFillerHashes = []string{
	"0x7111111111111111111111111111111111111111111111111111111111111111",
	"0x7222222222222222222222222222222222222222222222222222222222222222",
	"0x7333333333333333333333333333333333333333333333333333333333333333",
	"0x7444444444444444444444444444444444444444444444444444444444444444",
	"0x7555555555555555555555555555555555555555555555555555555555555555",
	"0x7666666666666666666666666666666666666666666666666666666666666666",
	"0x7777777777777777777777777777777777777777777777777777777777777777",
	"0x7888888888888888888888888888888888888888888888888888888888888888",
}

// ZZH_C19_evict: bounded history of submissions (symbolic nonces, so transactions may arrive
// before their lower nonces and be parked first), pauses of the wall clock and runs of the age
// rule RemoveAliveTimeoutTxs(50ms) on a pool that has not batched yet (follower / below batch
// size). The clock is driven by the harness (1 microsecond per reading, pauses of 100 ms): which
// transactions are older than the threshold at each run follows from where the pauses fall. The age rule may only drop transactions that are not ready; a ready
// transaction (every nonce from the committed one up to its own is in the pool) stays
// retrievable, the pending nonce keeps describing the content and everything ready is batched
// when the pool is drained afterwards.
// zz:also C18
func ZZH_C19_evict() {
	zz.PacedClock(1000)
	batchSize := uint64(2)
	// both accounts start at the same committed nonce, so that a parked nonce of one account can
	// coincide with a ready nonce of the other
	m := &zzPoolModel{committed: []uint64{5, 5}, nextBatch: []uint64{5, 5}, lastHeight: 1}
	mp := zzNewPool(batchSize, m)
	present := func(s *zzSubmitted) bool { return mp.GetTransaction(types.NewHashByStr(s.hash)) != nil }
	// number of consecutive nonces from the committed one that are in the pool
	chain := func(ai int) uint64 {
		n := m.committed[ai]
		for {
			found := false
			for _, o := range m.subs {
				if o.acct == ai && zzSameNonce(o.nonce, n) && present(o) {
					found = true
				}
			}
			if !found {
				return n - m.committed[ai]
			}
			n++
		}
	}
	k := 4
	nextHash := 0
	evicted := map[*zzSubmitted]bool{}
	// pre-state outside the step budget: account 0 already has 0..2 ready transactions in the pool
	// (in nonce order, or the higher nonce first: parked, then promoted when the lower one arrives)
	nReady := zz.Choice("readyBefore", 3)
	descending := nReady == 2 && zz.Choice("readyBeforeOrder", 2) == 1
	for r := nReady; r > 0; r-- {
		h := zzEvictHashes[nextHash]
		off := uint64(nextHash)
		if descending {
			off = uint64(nReady - 1 - nextHash)
		}
		tx := &pb.BxhTransaction{From: zzAccts[0], To: zzAccts[1], Nonce: m.committed[0] + off, Timestamp: 1, TransactionHash: types.NewHashByStr(h)}
		nextHash++
		s := &zzSubmitted{acct: 0, nonce: tx.Nonce, hash: h, tx: tx}
		m.subs = append(m.subs, s)
		zzCheckBatch(m, mp.ProcessTransactions([]pb.Transaction{tx}, false, true), batchSize)
		s.admitted = present(s)
		zz.Assert("C19.evict.pre-state-admitted", s.admitted)
	}
	if zz.Thorough() && nReady == 0 {
		k = 5 // (one more step from the empty pool and from the parked pre-state)
	}
	pauses := 0
	arrivedAt := map[*zzSubmitted]int{} // number of pauses that had passed when the transaction arrived
	// second pre-state outside the step budget: each account has an old parked transaction (account 0
	// two nonces ahead, account 1 three nonces ahead), both older than the threshold when the steps begin
	if nReady == 0 && zz.Choice("parkedBefore", 2) == 1 {
		for ai, ahead := range []uint64{2, 3} {
			h := zzEvictHashes[nextHash]
			nextHash++
			tx := &pb.BxhTransaction{From: zzAccts[ai], To: zzAccts[1-ai], Nonce: m.committed[ai] + ahead, Timestamp: 1, TransactionHash: types.NewHashByStr(h)}
			s := &zzSubmitted{acct: ai, nonce: tx.Nonce, hash: h, tx: tx}
			m.subs = append(m.subs, s)
			zzCheckBatch(m, mp.ProcessTransactions([]pb.Transaction{tx}, false, true), batchSize)
			s.admitted = present(s)
			arrivedAt[s] = 0
		}
		zz.Pause(int64(100 * time.Millisecond))
		pauses++
	}
	for step := 0; step < k; step++ {
		switch zz.Choice("op", 3) {
		case 0:
			if nextHash >= len(zzEvictHashes) {
				continue
			}
			ai := zz.Choice("acct", 2)
			// (candidate nonces instead of a symbolic one: time is the subject of this harness)
			nonce := m.committed[ai] + uint64(zz.Choice("nonce", 4))
			h := zzEvictHashes[nextHash]
			nextHash++
			tx := &pb.BxhTransaction{From: zzAccts[ai], To: zzAccts[1-ai], Nonce: nonce, Timestamp: int64(1 + step), TransactionHash: types.NewHashByStr(h)}
			s := &zzSubmitted{acct: ai, nonce: nonce, hash: h, tx: tx}
			m.subs = append(m.subs, s)
			zzCheckBatch(m, mp.ProcessTransactions([]pb.Transaction{tx}, false, true), batchSize)
			s.admitted = present(s)
			arrivedAt[s] = pauses
		case 1:
			zz.Pause(int64(100 * time.Millisecond)) // longer than the threshold of the age rule
			pauses++
		case 2:
			ready, was := map[*zzSubmitted]bool{}, map[*zzSubmitted]bool{}
			for _, s := range m.subs {
				was[s] = present(s)
				ready[s] = was[s] && s.nonce < m.committed[s.acct]+chain(s.acct)
			}
			mp.RemoveAliveTimeoutTxs(50 * time.Millisecond)
			for _, s := range m.subs {
				if ready[s] {
					zz.Assert("C19.evict.ready-tx-survives-age-rule", present(s))
				} else if was[s] && !present(s) {
					evicted[s] = true
					zz.Cover("C19.evict.nonready-evicted", true)
					// only a transaction that has been waiting longer than the threshold may go
					zz.Assert("C19.evict.only-old-transactions-evicted", pauses > arrivedAt[s])
				}
			}
		}
		for ai := range zzAccts {
			pn := mp.GetPendingNonceByAccount(zzAccts[ai].String())
			zz.Assert("C19.evict.pending-nonce-describes-content", pn == m.committed[ai]+chain(ai))
		}
	}
	// drain: everything ready is batched
	want := []uint64{m.committed[0] + chain(0), m.committed[1] + chain(1)}
	for round := 0; round < 6; round++ {
		zzCheckBatch(m, mp.GenerateBlock(), batchSize)
	}
	zz.Assert("C19.evict.ready-txs-batched", m.nextBatch[0] == want[0] && m.nextBatch[1] == want[1])
	// continuation: the missing lower nonces arrive. Every transaction the pool still holds has all
	// its lower nonces present then, so each of them is handed to consensus in the next batches.
	filler := 0
	for ai := range zzAccts {
		top := m.committed[ai]
		for _, s := range m.subs {
			if s.acct == ai && present(s) && s.nonce+1 > top {
				top = s.nonce + 1
			}
		}
		for n := m.committed[ai] + chain(ai); n < top; n++ {
			held := false
			for _, s := range m.subs {
				if s.acct == ai && zzSameNonce(s.nonce, n) && present(s) {
					held = true
				}
			}
			if held || filler >= len(zzFillerHashes) {
				continue
			}
			h := zzFillerHashes[filler]
			filler++
			tx := &pb.BxhTransaction{From: zzAccts[ai], To: zzAccts[1-ai], Nonce: n, Timestamp: 9, TransactionHash: types.NewHashByStr(h)}
			s := &zzSubmitted{acct: ai, nonce: n, hash: h, tx: tx}
			m.subs = append(m.subs, s)
			zzCheckBatch(m, mp.ProcessTransactions([]pb.Transaction{tx}, false, true), batchSize)
			s.admitted = present(s)
			zz.Assert("C19.evict.missing-nonce-admitted", s.admitted)
		}
		zz.Assert("C19.evict.held-txs-ready-once-gaps-are-filled", m.committed[ai]+chain(ai) == top)
	}
	want = []uint64{m.committed[0] + chain(0), m.committed[1] + chain(1)}
	for round := 0; round < 8; round++ {
		zzCheckBatch(m, mp.GenerateBlock(), batchSize)
	}
	zz.Assert("C19.evict.held-txs-batched-once-gaps-are-filled", m.nextBatch[0] == want[0] && m.nextBatch[1] == want[1])
	zz.Assert("C19.evict.nothing-pending-after-drain", !mp.HasPendingRequest())
}
