//go:build verif

package mempool

import (
	"time"

	"github.com/meshplus/bitxhub-kit/types"
	"github.com/meshplus/bitxhub-model/pb"
	zz "github.com/meshplus/bitxhub/internal/zzverif"
)

// ZZH_C19_evict: bounded history of submissions (symbolic nonces, so transactions may arrive
// before their lower nonces and be parked first), pauses of the wall clock and runs of the age
// rule RemoveAliveTimeoutTxs(50ms) on a pool that has not batched yet (follower / below batch
// size). The clock is symbolic and paced: the solver decides which transactions are older than
// the threshold at each run. The age rule may only drop transactions that are not ready; a ready
// transaction (every nonce from the committed one up to its own is in the pool) stays
// retrievable, the pending nonce keeps describing the content and everything ready is batched
// when the pool is drained afterwards.
// zz:also C18
func ZZH_C19_evict() {
	zz.PacedClock(1000000)
	batchSize := uint64(2)
	m := &zzPoolModel{committed: append([]uint64{}, zzBase...), nextBatch: append([]uint64{}, zzBase...), lastHeight: 1}
	mp := zzNewPool(batchSize, m)
	present := func(s *zzSubmitted) bool { return mp.GetTransaction(types.NewHashByStr(s.hash)) != nil }
	// number of consecutive nonces from the committed one that are in the pool
	chain := func(ai int) uint64 {
		n := m.committed[ai]
		for {
			found := false
			for _, o := range m.subs {
				if o.acct == ai && zzSameNonce(o.nonce, n) && present(o) {
					found = true
				}
			}
			if !found {
				return n - m.committed[ai]
			}
			n++
		}
	}
	k := 4
	if zz.Thorough() {
		k = 5
	}
	nextHash := 0
	evicted := map[*zzSubmitted]bool{}
	for step := 0; step < k; step++ {
		switch zz.Choice("op", 3) {
		case 0:
			if nextHash >= len(zzHashes) {
				continue
			}
			ai := 0
			if zz.Thorough() {
				ai = zz.Choice("acct", 2)
			}
			nonce := zz.U64("nonce")
			zz.Assume(nonce >= m.committed[ai])
			zz.Assume(nonce <= m.committed[ai]+2)
			h := zzHashes[nextHash]
			nextHash++
			tx := &pb.BxhTransaction{From: zzAccts[ai], To: zzAccts[1-ai], Nonce: nonce, Timestamp: int64(1 + step), TransactionHash: types.NewHashByStr(h)}
			s := &zzSubmitted{acct: ai, nonce: nonce, hash: h, tx: tx}
			m.subs = append(m.subs, s)
			zzCheckBatch(m, mp.ProcessTransactions([]pb.Transaction{tx}, false, true), batchSize)
			s.admitted = present(s)
		case 1:
			zz.Pause(int64(100 * time.Millisecond))
		case 2:
			ready := map[*zzSubmitted]bool{}
			for _, s := range m.subs {
				ready[s] = present(s) && s.nonce < m.committed[s.acct]+chain(s.acct)
			}
			mp.RemoveAliveTimeoutTxs(50 * time.Millisecond)
			for _, s := range m.subs {
				if ready[s] {
					zz.Assert("C19.evict.ready-tx-survives-age-rule", present(s))
				} else if s.admitted && !present(s) {
					evicted[s] = true
					zz.Cover("C19.evict.nonready-evicted", true)
				}
			}
		}
		for ai := range zzAccts {
			pn := mp.GetPendingNonceByAccount(zzAccts[ai].String())
			zz.Assert("C19.evict.pending-nonce-describes-content", pn == m.committed[ai]+chain(ai))
		}
	}
	// drain: everything ready is batched
	want := []uint64{m.committed[0] + chain(0), m.committed[1] + chain(1)}
	for round := 0; round < 3; round++ {
		zzCheckBatch(m, mp.GenerateBlock(), batchSize)
	}
	zz.Assert("C19.evict.ready-txs-batched", m.nextBatch[0] == want[0] && m.nextBatch[1] == want[1])
}
