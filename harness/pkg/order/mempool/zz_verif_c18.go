//go:build verif

package mempool

import (
	"github.com/meshplus/bitxhub-kit/types"
	"github.com/meshplus/bitxhub-model/pb"
	raftproto "github.com/meshplus/bitxhub/pkg/order/etcdraft/proto"
	zz "github.com/meshplus/bitxhub/internal/zzverif"
)

var (
	zzAccts = []*types.Address{
		types.NewAddressByStr("0x1000000000000000000000000000000000000001"),
		types.NewAddressByStr("0x2000000000000000000000000000000000000002"),
	}
	zzHashes = []string{
		"0x1111111111111111111111111111111111111111111111111111111111111111",
		"0x2222222222222222222222222222222222222222222222222222222222222222",
		"0x3333333333333333333333333333333333333333333333333333333333333333",
		"0x4444444444444444444444444444444444444444444444444444444444444444",
		"0x5555555555555555555555555555555555555555555555555555555555555555",
	}
	zzBase = []uint64{5, 0}
)

type zzSubmitted struct {
	acct  int
	nonce uint64
	hash  string
	tx    pb.Transaction
	admitted bool
}

type zzPoolModel struct {
	committed []uint64          // per account
	nextBatch []uint64          // per account: next nonce that may be batched
	subs      []*zzSubmitted
	batches   []*raftproto.RequestBatch
	lastHeight uint64
	timed      bool
}

func zzNewPool(batchSize uint64, m *zzPoolModel) *mempoolImpl { return zzNewPoolMode(batchSize, m, false) }

// zzNewPoolMode: timed = blocks are cut by a ticker (GenerateBlock on demand), not by the pool's size.
func zzNewPoolMode(batchSize uint64, m *zzPoolModel, timed bool) *mempoolImpl {
	return newMempoolImpl(&Config{
		ID: 1, BatchSize: batchSize, PoolSize: 100, TxSliceSize: 10, ChainHeight: 1, Logger: zz.Logger(), IsTimed: timed,
		GetAccountNonce: func(a *types.Address) uint64 {
			for i, x := range zzAccts {
				if x.String() == a.String() {
					return m.committed[i]
				}
			}
			return 0
		},
	})
}

func zzSameNonce(a, b uint64) bool { return a == b }

func zzAcctIndex(a *types.Address) int {
	if a.String() == zzAccts[0].String() {
		return 0
	}
	return 1
}

// zzCheckBatch applies the C18 monitor to a produced batch.
func zzCheckBatch(m *zzPoolModel, b *raftproto.RequestBatch, batchSize uint64) {
	if b == nil {
		return
	}
	// (a timed pool may cut an empty block; a size-triggered one never does)
	zz.Assert("C18.batch-size", uint64(len(b.TxList.Transactions)) <= batchSize && (len(b.TxList.Transactions) > 0 || m.timed))
	zz.Assert("C18.height+1", b.Height == m.lastHeight+1)
	m.lastHeight = b.Height
	for _, tx := range b.TxList.Transactions {
		zz.Assert("C18.no-nil-tx", tx != nil)
		if tx == nil {
			return
		}
		ai := zzAcctIndex(tx.GetFrom())
		n := tx.GetNonce()
		zz.Assert("C18.consecutive", n == m.nextBatch[ai])
		zz.Assert("C18.not-below-committed", n >= m.committed[ai])
		m.nextBatch[ai] = n + 1
		given := false
		for _, s := range m.subs {
			if s.acct == ai && s.nonce == n && s.hash == tx.GetHash().String() {
				given = true
			}
		}
		zz.Assert("C18.only-given-txs", given)
	}
	m.batches = append(m.batches, b)
}

func zzCommitOldest(mp *mempoolImpl, m *zzPoolModel) { zzCommitAt(mp, m, 0) }

// zzCommitAt reports the outstanding batch at position i as committed (commit reports travel on
// separate goroutines, app/feedhub.go: they may arrive out of order).
func zzCommitAt(mp *mempoolImpl, m *zzPoolModel, i int) {
	if i < 0 || len(m.batches) <= i {
		return
	}
	b := m.batches[i]
	m.batches = append(append([]*raftproto.RequestBatch{}, m.batches[:i]...), m.batches[i+1:]...)
	st := &ChainState{Height: b.Height}
	for _, tx := range b.TxList.Transactions {
		st.TxHashList = append(st.TxHashList, tx.GetHash())
		ai := zzAcctIndex(tx.GetFrom())
		if tx.GetNonce()+1 > m.committed[ai] {
			m.committed[ai] = tx.GetNonce() + 1
		}
	}
	mp.CommitTransactions(st)
}

// ZZH_C18_hist: bounded history of pool operations with symbolic nonces / timestamps
// (2 accounts, nonce within [committed-2, committed+1], k steps) under the C18/C19 monitors.
// zz:also C19
func ZZH_C18_hist() { zzPoolHist() }

func zzPoolHist() {
	batchSize := uint64(1 + zz.Choice("batchSize", 2))
	m := &zzPoolModel{committed: append([]uint64{}, zzBase...), nextBatch: append([]uint64{}, zzBase...), lastHeight: 1}
	mp := zzNewPool(batchSize, m)
	k := 3
	if zz.Thorough() {
		k = 4
	}
	nextHash := 0
	// thorough: the whole history is run once as a follower and once as the leader (a leader cuts a
	// batch inside ProcessTransactions as soon as the batch size is reached)
	asLeader := zz.Thorough() && zz.Choice("leader", 2) == 1
	unknownCommitted := false // a committed block contained transactions this pool never saw
	for step := 0; step < k; step++ {
		switch zz.Choice("op", 4) {
		case 3: // a block produced elsewhere is committed: 1..2 consecutive nonces of one account,
			// using this pool's transaction where it holds one and an unknown hash otherwise
			ai := zz.Choice("facct", 2)
			cnt := 1 + zz.Choice("fcount", 2)
			st := &ChainState{Height: m.lastHeight}
			for j := 0; j < cnt; j++ {
				n := m.committed[ai] + uint64(j)
				var h *types.Hash
				for _, s := range m.subs {
					if s.acct == ai && s.admitted && zzSameNonce(s.nonce, n) {
						h = types.NewHashByStr(s.hash)
					}
				}
				if h == nil {
					unknownCommitted = true
					zz.Tag("C19.F-pending-behind-commit", true)
					h = types.NewHashByStr("0xffffffffffffffffffffffffffffffffffffffffffffffffffffffffffffff0" + string("0123"[j+ai*2]))
				}
				st.TxHashList = append(st.TxHashList, h)
			}
			// if the highest committed nonce was unknown to the pool it cannot learn the new
			// committed nonce: its view of this account is stale from here on (known finding)
			lastKnown := false
			for _, s := range m.subs {
				if s.acct == ai && s.admitted && zzSameNonce(s.nonce, m.committed[ai]+uint64(cnt)-1) {
					lastKnown = true
				}
			}
			if !lastKnown {
				zz.Tag("C18.F-stale-commit", true)
			}
			m.committed[ai] += uint64(cnt)
			if m.nextBatch[ai] < m.committed[ai] {
				m.nextBatch[ai] = m.committed[ai]
			}
			mp.CommitTransactions(st)
		case 0: // submit one transaction
			if nextHash >= len(zzHashes) {
				continue
			}
			ai := zz.Choice("acct", 2)
			nonce := zz.U64("nonce")
			zz.Assume(nonce+2 >= m.committed[ai])
			zz.Assume(nonce <= m.committed[ai]+1)
			ts := zz.I64("ts") // (0: the client left the timestamp unset)
			zz.Assume(ts >= 0)
			zz.Assume(ts <= 2)
			h := zzHashes[nextHash]
			nextHash++
			tx := &pb.BxhTransaction{From: zzAccts[ai], To: zzAccts[1-ai], Nonce: nonce, Timestamp: ts, TransactionHash: types.NewHashByStr(h)}
			s := &zzSubmitted{acct: ai, nonce: nonce, hash: h, tx: tx}
			m.subs = append(m.subs, s)
			leader := asLeader
			b := mp.ProcessTransactions([]pb.Transaction{tx}, leader, true)
			zzCheckBatch(m, b, batchSize)
			got := mp.GetTransaction(tx.GetHash())
			s.admitted = got != nil
			zz.Assert("C19.get-returns-same-tx", got == nil || got.GetHash().String() == h)
		case 1:
			zzCheckBatch(m, mp.GenerateBlock(), batchSize)
		case 2:
			zzCommitOldest(mp, m)
		}
		// C19: content queries
		for ai := range zzAccts {
			pn := mp.GetPendingNonceByAccount(zzAccts[ai].String())
			// (a pool cannot learn the nonce of a committed transaction it never saw)
			zz.Assert("C19.pending-nonce>=committed", unknownCommitted || pn >= m.committed[ai])
		}
		for _, s := range m.subs {
			got := mp.GetTransaction(types.NewHashByStr(s.hash))
			zz.Assert("C19.lookup-by-hash-is-that-tx", got == nil || got.GetHash().String() == s.hash)
		}
	}
	// C19 liveness in bound: drain
	for round := 0; round < 4; round++ {
		zzCheckBatch(m, mp.GenerateBlock(), batchSize)
		zzCommitOldest(mp, m)
		zzCommitOldest(mp, m)
	}
	zz.Assert("C19.drained-no-pending", !mp.HasPendingRequest())
	for _, s := range m.subs {
		// an admitted tx whose lower nonces were all committed must itself be committed or superseded
		if s.admitted && s.nonce == m.committed[s.acct] {
			superseded := false
			for _, o := range m.subs {
				if o != s && o.acct == s.acct && o.nonce == s.nonce && o.admitted {
					superseded = true
				}
			}
			zz.Assert("C19.ready-tx-not-stuck", superseded)
		}
	}
}

// ZZH_C18_pipeline: one account with P consecutive transactions in the pool (P = 2..4), G batches
// already generated and outstanding (a leader ahead of the executor), then three free operations
// among: generate, the oldest / the newest outstanding batch is reported committed (reports may
// arrive out of order), the next nonce is submitted. No (account, nonce) is handed to consensus
// twice, batches stay consecutive, and after draining every transaction was batched exactly once
// and the pool reports no pending work.
// (also C20: the orderer delivers what the pool batches - a transaction batched twice is delivered twice)
// zz:also C19 C20
func ZZH_C18_pipeline() {
	zz.ConcreteClock(1000) // arrival order = submission order; ageing is the subject of ZZH_C19_evict
	batchSize := uint64(1 + zz.Choice("batchSize", 3))
	m := &zzPoolModel{committed: append([]uint64{}, zzBase...), nextBatch: append([]uint64{}, zzBase...), lastHeight: 1}
	m.timed = zz.Choice("timedBlocks", 2) == 1
	mp := zzNewPoolMode(batchSize, m, m.timed)
	nextHash := 0
	tsOrder := zz.Choice("timestampOrder", 4)
	submit := func() {
		if nextHash >= len(zzHashes) {
			return
		}
		n := zzBase[0] + uint64(nextHash)
		h := zzHashes[nextHash]
		nextHash++
		// the transactions' own timestamps (the priority order of the pool) may run with, against or
		// independently of the nonce order: a client may sign nonce 2 before nonce 0
		ts := int64(1)
		switch tsOrder {
		case 1:
			ts = int64(1 + nextHash)
		case 2:
			ts = int64(10 - nextHash)
		case 3:
			ts = 0 // the client left the timestamp unset
		}
		tx := &pb.BxhTransaction{From: zzAccts[0], To: zzAccts[1], Nonce: n, Timestamp: ts, TransactionHash: types.NewHashByStr(h)}
		m.subs = append(m.subs, &zzSubmitted{acct: 0, nonce: n, hash: h, tx: tx, admitted: true})
		zzCheckBatch(m, mp.ProcessTransactions([]pb.Transaction{tx}, false, true), batchSize)
	}
	P := 2 + zz.Choice("inPool", 3)
	for i := 0; i < P; i++ {
		submit()
	}
	G := zz.Choice("outstanding", 4)
	for i := 0; i < G; i++ {
		zzCheckBatch(m, mp.GenerateBlock(), batchSize)
	}
	for step := 0; step < 3; step++ {
		switch zz.Choice("op", 4) {
		case 0:
			zzCheckBatch(m, mp.GenerateBlock(), batchSize)
		case 1:
			zzCommitAt(mp, m, 0)
		case 2:
			zzCommitAt(mp, m, len(m.batches)-1)
		case 3:
			submit()
		}
		pn := mp.GetPendingNonceByAccount(zzAccts[0].String())
		zz.Assert("C19.pipeline.pending-nonce", pn == zzBase[0]+uint64(nextHash))
		// every submitted transaction is ready (consecutive from the committed nonce): the pool reports
		// pending work exactly while one of them has not been handed to consensus yet
		zz.Assert("C19.pipeline.reports-pending-iff-ready-unbatched", mp.HasPendingRequest() == (m.nextBatch[0] < zzBase[0]+uint64(nextHash)))
	}
	for round := 0; round < 5; round++ {
		zzCheckBatch(m, mp.GenerateBlock(), batchSize)
	}
	zz.Assert("C19.pipeline.everything-batched", m.nextBatch[0] == zzBase[0]+uint64(nextHash))
	for len(m.batches) > 0 {
		zzCommitAt(mp, m, len(m.batches)-1)
	}
	zz.Assert("C19.pipeline.no-pending-after-drain", !mp.HasPendingRequest())
	for _, s := range m.subs {
		zz.Assert("C19.pipeline.committed-tx-gone", mp.GetTransaction(types.NewHashByStr(s.hash)) == nil)
	}
}

// ZZH_C18_seqno_reset: batch sequence numbers increase by one between explicit resets, and an
// explicit reset is obeyed whatever its direction. A pool with 2..4 ready transactions has generated
// G batches (heights 2..G+1) of which the first C were reported committed; then the orderer resets the
// sequence number to any height from 1 to G+2 (a re-elected leader resets to its last executed
// block, which is below the pool's own count when batches were lost with the leadership; a follower
// reports every executed height). The next batch generated carries exactly the reset value plus one,
// and the one after it plus two.
// zz:also C20
func ZZH_C18_seqno_reset() {
	zz.ConcreteClock(1000)
	batchSize := uint64(1)
	m := &zzPoolModel{committed: append([]uint64{}, zzBase...), nextBatch: append([]uint64{}, zzBase...), lastHeight: 1}
	mp := zzNewPool(batchSize, m)
	P := 2 + zz.Choice("inPool", 3)
	for i := 0; i < P; i++ {
		tx := &pb.BxhTransaction{From: zzAccts[0], To: zzAccts[1], Nonce: zzBase[0] + uint64(i), Timestamp: 1, TransactionHash: types.NewHashByStr(zzHashes[i])}
		m.subs = append(m.subs, &zzSubmitted{acct: 0, nonce: tx.Nonce, hash: zzHashes[i], tx: tx, admitted: true})
		zzCheckBatch(m, mp.ProcessTransactions([]pb.Transaction{tx}, false, true), batchSize)
	}
	G := zz.Choice("generated", P-1) // at least two transactions stay unbatched
	for i := 0; i < G; i++ {
		zzCheckBatch(m, mp.GenerateBlock(), batchSize)
	}
	for c := zz.Choice("committed", G+1); c > 0; c-- {
		zzCommitAt(mp, m, 0)
	}
	to := uint64(1 + zz.Choice("resetTo", G+2))
	mp.SetBatchSeqNo(to)
	zz.Cover("C18.reset.downwards", to < m.lastHeight)
	zz.Cover("C18.reset.upwards", to > m.lastHeight)
	for j := uint64(1); j <= 2; j++ {
		b := mp.GenerateBlock()
		zz.Assert("C18.reset.batch-generated", b != nil)
		if b == nil {
			return
		}
		zz.Assert("C18.reset.next-batch-follows-the-reset-value", b.Height == to+j)
		// a reset moves the sequence number only: what was handed to consensus before is not handed
		// out again (it may still commit - the proposals of a deposed leader stay in the raft log)
		m.lastHeight = to + j - 1
		zzCheckBatch(m, b, batchSize)
	}
}

// ZZH_C18_seq_after_idle_attempts: batch sequence numbers increase by one between explicit resets also
// when attempts to cut a batch find nothing to batch. Two accounts; account B's first transaction is
// batched and in flight; then four free operations among: account A's next nonce arrives, the
// lowest transaction of A that this pool holds is committed by a block produced elsewhere, the
// batch timer fires (GenerateBlock whether or not the pool reports pending work - the orderer asks
// first, so both are driven), the oldest outstanding batch is reported committed. Finally one
// more ready transaction of A arrives and a batch is cut: every batch carries the previous height
// plus one.
func ZZH_C18_seq_after_idle_attempts() {
	zz.ConcreteClock(1000)
	batchSize := uint64(1 + zz.Choice("batchSize", 2))
	m := &zzPoolModel{committed: append([]uint64{}, zzBase...), nextBatch: append([]uint64{}, zzBase...), lastHeight: 1}
	mp := zzNewPool(batchSize, m)
	nextHash := 0
	submit := func(ai int, nonce uint64) {
		h := zzHashes[nextHash]
		nextHash++
		tx := &pb.BxhTransaction{From: zzAccts[ai], To: zzAccts[1-ai], Nonce: nonce, Timestamp: 1, TransactionHash: types.NewHashByStr(h)}
		m.subs = append(m.subs, &zzSubmitted{acct: ai, nonce: nonce, hash: h, tx: tx, admitted: true})
		zzCheckBatch(m, mp.ProcessTransactions([]pb.Transaction{tx}, false, true), batchSize)
	}
	submit(1, zzBase[1])
	zzCheckBatch(m, mp.GenerateBlock(), batchSize)
	zz.Assert("C18.idle.first-batch", len(m.batches) == 1)
	nextA := zzBase[0] // next nonce of account A to arrive
	for step := 0; step < 4; step++ {
		switch zz.Choice("op", 4) {
		case 0:
			if nextHash < len(zzHashes)-1 {
				submit(0, nextA)
				nextA++
			}
		case 1: // a block produced elsewhere commits A's lowest transaction held here
			if m.committed[0] < nextA {
				for _, s := range m.subs {
					if s.acct == 0 && s.nonce == m.committed[0] {
						mp.CommitTransactions(&ChainState{Height: m.lastHeight, TxHashList: []*types.Hash{types.NewHashByStr(s.hash)}})
						break
					}
				}
				m.committed[0]++
				if m.nextBatch[0] < m.committed[0] {
					m.nextBatch[0] = m.committed[0]
				}
			}
		case 2:
			if zz.Choice("askFirst", 2) == 0 || mp.HasPendingRequest() {
				zzCheckBatch(m, mp.GenerateBlock(), batchSize)
			}
		case 3:
			zzCommitOldest(mp, m)
		}
	}
	submit(0, nextA)
	nextA++
	for round := 0; round < 4; round++ {
		zzCheckBatch(m, mp.GenerateBlock(), batchSize)
	}
	zz.Assert("C18.idle.everything-of-A-batched", m.nextBatch[0] == nextA)
}
