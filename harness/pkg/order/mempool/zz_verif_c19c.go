//go:build verif

package mempool

import (
	"time"

	"github.com/meshplus/bitxhub-kit/types"
	"github.com/meshplus/bitxhub-model/pb"
	zz "github.com/meshplus/bitxhub/internal/zzverif"
)

// ZZH_C19_txcache: the transaction cache in front of the pool (the only way a transaction reaches
// the pool in solo mode, and what a raft node broadcasts). N transactions are appended one by one
// (set size 2 or 3) while a consumer takes the posted sets and holds on to them: every accepted
// transaction is in exactly one posted set, at its place, and a set that was posted does not change
// under the consumer's hands when later transactions arrive.
func ZZH_C19_txcache() {
	size := 2 + zz.Choice("setSize", 2)
	tc := NewTxCache(time.Hour, uint64(size), zz.Logger())
	n := size + zz.Choice("more", 2*size)
	sets := n / size
	var got []*pb.Transactions
	var first [][]string // the content of each set at the moment the consumer received it
	done := make(chan bool, 1)
	go func() {
		for i := 0; i < sets; i++ {
			s := <-tc.TxSetC
			got = append(got, s)
			var hs []string
			for _, tx := range s.Transactions {
				hs = append(hs, tx.GetHash().String())
			}
			first = append(first, hs)
		}
		done <- true
	}()
	var txs []pb.Transaction
	for i := 0; i < n; i++ {
		h := types.NewHashByStr("0x00000000000000000000000000000000000000000000000000000000000000" + string("0123456789"[i/10]) + string("0123456789"[i%10]))
		tx := &pb.BxhTransaction{From: zzAccts[0], To: zzAccts[1], Nonce: uint64(i), Timestamp: 1, TransactionHash: h}
		txs = append(txs, tx)
		tc.appendTx(tx)
	}
	<-done
	zz.Assert("C19.cache.sets-posted", len(got) == sets)
	for k := 0; k < len(got); k++ {
		zz.Assert("C19.cache.set-size", len(got[k].Transactions) == size && len(first[k]) == size)
		for j := 0; j < size && j < len(got[k].Transactions); j++ {
			want := txs[k*size+j].GetHash().String()
			zz.Assert("C19.cache.accepted-tx-reaches-the-consumer-at-its-place", first[k][j] == want)
			zz.Assert("C19.cache.posted-set-does-not-change-afterwards", got[k].Transactions[j].GetHash().String() == want)
		}
	}
}
