//go:build verif

package router

import (
	"github.com/meshplus/bitxhub-kit/types"
	"github.com/meshplus/bitxhub-model/pb"
	zz "github.com/meshplus/bitxhub/internal/zzverif"
)

// ZZH_C05_router_classify: what the executor recorded for a block (delivery sets, timeout
// notifications, multi-transaction notifications; each chain symbolically present or absent in
// each of the three maps, all map orders) is split per destination chain by the real
// InterchainRouter.classify: every chain receives exactly its own entries of all three kinds - a
// chain that has a timeout AND a multi-transaction notification AND deliveries in the same block
// loses none of them - and chains without entries receive nothing.
// zz:also C02 C06
func ZZH_C05_router_classify() {
	r := &InterchainRouter{logger: zz.Logger()}
	chains := []string{"chA", "chB"}
	txs := []pb.Transaction{
		&pb.BxhTransaction{TransactionHash: types.NewHashByStr("0x1111111111111111111111111111111111111111111111111111111111111111"), Nonce: 0},
		&pb.BxhTransaction{TransactionHash: types.NewHashByStr("0x2222222222222222222222222222222222222222222222222222222222222222"), Nonce: 1},
	}
	block := &pb.Block{BlockHeader: &pb.BlockHeader{Number: 9}, Transactions: &pb.Transactions{Transactions: txs}}
	meta := &pb.InterchainMeta{Counter: map[string]*pb.VerifiedIndexSlice{}, TimeoutCounter: map[string]*pb.StringSlice{}, MultiTxCounter: map[string]*pb.StringSlice{}}
	var hasTx, hasTO, hasMT [2]bool
	for i, ch := range chains {
		if zz.Choice("delivery-"+ch, 2) == 1 {
			hasTx[i] = true
			meta.Counter[ch] = &pb.VerifiedIndexSlice{Slice: []*pb.VerifiedIndex{{Index: uint64(i), Valid: true}}}
		}
		if zz.Choice("timeout-"+ch, 2) == 1 {
			hasTO[i] = true
			meta.TimeoutCounter[ch] = &pb.StringSlice{Slice: []string{"to-" + ch}}
		}
		if zz.Choice("multi-"+ch, 2) == 1 {
			hasMT[i] = true
			meta.MultiTxCounter[ch] = &pb.StringSlice{Slice: []string{"mt-" + ch, "mt2-" + ch}}
		}
	}
	zz.PermuteMaps(true)
	out := r.classify(block, meta)
	zz.PermuteMaps(false)
	for i, ch := range chains {
		w, ok := out[ch]
		any := hasTx[i] || hasTO[i] || hasMT[i]
		zz.Assert("C05.router.chain-notified-iff-it-has-entries", ok == any)
		if !ok {
			continue
		}
		zz.Assert("C05.router.height", w.Height == 9)
		zz.Assert("C02.router.deliveries-complete", (len(w.Transactions) == 1) == hasTx[i] && (!hasTx[i] || w.Transactions[0].Tx.GetNonce() == uint64(i)))
		zz.Assert("C06.router.timeouts-complete", (len(w.TimeoutIbtps) == 1) == hasTO[i] && (!hasTO[i] || w.TimeoutIbtps[0] == "to-"+ch))
		zz.Assert("C05.router.multi-tx-complete", (len(w.MultiTxIbtps) == 2) == hasMT[i] && (!hasMT[i] || w.MultiTxIbtps[0] == "mt-"+ch))
	}
	zz.Assert("C05.router.no-other-chain", len(out) <= 2)
}
