//go:build verif

package router

import (
	"github.com/meshplus/bitxhub-kit/types"
	"github.com/meshplus/bitxhub-model/pb"
	"github.com/meshplus/bitxhub/internal/ledger"
	zz "github.com/meshplus/bitxhub/internal/zzverif"
)

var zzRouterTxHashes = []string{
	"0x1111111111111111111111111111111111111111111111111111111111111111",
	"0x2222222222222222222222222222222222222222222222222222222222222222",
	"0x3333333333333333333333333333333333333333333333333333333333333333",
	"0x4444444444444444444444444444444444444444444444444444444444444444",
	"0x5555555555555555555555555555555555555555555555555555555555555555",
	"0x6666666666666666666666666666666666666666666666666666666666666666",
}

// ZZH_C02_router_catchup: the catch-up path a pier uses after a disconnect. Three blocks, each with
// two transactions, are persisted with their interchain meta on the real chain ledger; for the
// watched chain each block symbolically has a delivery, a timeout notification and / or a
// multi-transaction notification (the other chain always has a delivery). The real
// GetInterchainTxWrappers is asked for every range [b,e] within 1..3 into a channel buffered for
// the whole range and the channel is drained afterwards, as api/grpc does. The k-th message
// describes block b+k and nothing else: its height, exactly that block's deliveries for the
// chain (by transaction hash), its timeout list and its multi-transaction list - also when the
// block has notifications but no transaction for the chain - and the messages do not share storage.
// zz:also C05 C06
func ZZH_C02_router_catchup() {
	cl, err := ledger.NewChainLedgerImpl(zz.NewStore(), zz.NewBlockFile(), nil, zz.Logger())
	if err != nil {
		panic(err)
	}
	r := &InterchainRouter{logger: zz.Logger(), ledger: &ledger.Ledger{ChainLedger: cl}}
	const nb = 3
	var hasTx, hasTO, hasMT [nb + 1]bool
	parent := &types.Hash{}
	for h := uint64(1); h <= nb; h++ {
		txs := []pb.Transaction{
			&pb.BxhTransaction{TransactionHash: types.NewHashByStr(zzRouterTxHashes[2*(h-1)]), Nonce: 10 * h},
			&pb.BxhTransaction{TransactionHash: types.NewHashByStr(zzRouterTxHashes[2*(h-1)+1]), Nonce: 10*h + 1},
		}
		var receipts []*pb.Receipt
		for _, tx := range txs {
			receipts = append(receipts, &pb.Receipt{TxHash: tx.GetHash(), Status: pb.Receipt_SUCCESS})
		}
		block := &pb.Block{
			BlockHeader:  &pb.BlockHeader{Number: h, ParentHash: parent, StateRoot: &types.Hash{}, TxRoot: &types.Hash{}, ReceiptRoot: &types.Hash{}, Timestamp: 1},
			Transactions: &pb.Transactions{Transactions: txs},
			BlockHash:    types.NewHashByStr(zzRouterTxHashes[h+2]),
			Signature:    []byte("sig"),
		}
		parent = block.BlockHash
		meta := &pb.InterchainMeta{Counter: map[string]*pb.VerifiedIndexSlice{}, TimeoutCounter: map[string]*pb.StringSlice{}, MultiTxCounter: map[string]*pb.StringSlice{}}
		meta.Counter["chB"] = &pb.VerifiedIndexSlice{Slice: []*pb.VerifiedIndex{{Index: 1, Valid: true}}}
		if zz.Choice("delivery", 2) == 1 {
			hasTx[h] = true
			meta.Counter["chA"] = &pb.VerifiedIndexSlice{Slice: []*pb.VerifiedIndex{{Index: 0, Valid: true}}}
		}
		if zz.Choice("timeout", 2) == 1 {
			hasTO[h] = true
			meta.TimeoutCounter["chA"] = &pb.StringSlice{Slice: []string{"to-" + string(rune('0'+h))}}
		}
		if zz.Choice("multi", 2) == 1 {
			hasMT[h] = true
			meta.MultiTxCounter["chA"] = &pb.StringSlice{Slice: []string{"mt-" + string(rune('0'+h))}}
		}
		if err := cl.PersistExecutionResult(block, receipts, meta); err != nil {
			panic(err)
		}
	}
	begin := uint64(1 + zz.Choice("begin", nb))
	end := begin + uint64(zz.Choice("span", nb))
	if end > nb {
		return
	}
	ch := make(chan *pb.InterchainTxWrappers, end-begin+1)
	zz.Assert("C02.catchup.served", r.GetInterchainTxWrappers("chA", begin, end, ch) == nil)
	var got []*pb.InterchainTxWrappers
	for m := range ch {
		got = append(got, m)
	}
	zz.Assert("C02.catchup.one-message-per-block", uint64(len(got)) == end-begin+1)
	for k, m := range got {
		h := begin + uint64(k)
		zz.Assert("C02.catchup.one-wrapper", len(m.InterchainTxWrappers) == 1)
		if len(m.InterchainTxWrappers) != 1 {
			return
		}
		w := m.InterchainTxWrappers[0]
		zz.Assert("C02.catchup.message-describes-its-own-block", w.Height == h)
		zz.Assert("C02.catchup.deliveries-of-that-block-only", (len(w.Transactions) == 1) == hasTx[h] &&
			(!hasTx[h] || w.Transactions[0].Tx.GetHash().String() == zzRouterTxHashes[2*(h-1)]))
		zz.Assert("C06.catchup.timeouts-of-that-block", (len(w.TimeoutIbtps) == 1) == hasTO[h] && (!hasTO[h] || w.TimeoutIbtps[0] == "to-"+string(rune('0'+h))))
		zz.Assert("C05.catchup.multi-tx-of-that-block", (len(w.MultiTxIbtps) == 1) == hasMT[h] && (!hasMT[h] || w.MultiTxIbtps[0] == "mt-"+string(rune('0'+h))))
	}
}
