//go:build verif

package repo

import (
	zz "github.com/meshplus/bitxhub/internal/zzverif"
)

// ZZH_C15_decision: the real MakeStrategyDecision for the default expression with symbolic
// tallies (a, r <= avail <= t <= 2^20): a proposal is approved iff approvals exceed half of the
// initial electorate; rejected by the tally iff approval has become unreachable
// (avail - r can no longer exceed half); otherwise voting continues.
func ZZH_C15_decision() {
	exprs := []string{"a > 0.5 * t", "a >= 0.66 * t", "a >= t", "a == t"}
	k := zz.Choice("expr", len(exprs))
	a, r, t, avail := zz.U64("a"), zz.U64("r"), zz.U64("t"), zz.U64("avail")
	zz.Assume(t >= 1)
	zz.Assume(t <= 1<<20)
	zz.Assume(avail <= t)
	zz.Assume(a <= avail) // (not a+r <= avail: that holds for huge a, r through wrap-around)
	zz.Assume(r <= avail-a)
	// an earlier evaluation in the same process (another proposal, or the same one before the
	// electorate changed): same expression and tally, any other number of available electors
	if zz.Choice("earlierEvaluation", 2) == 1 {
		avail0 := zz.U64("availEarlier")
		zz.Assume(avail0 <= t)
		zz.Assume(a <= avail0)
		zz.Assume(r <= avail0-a)
		_, _, _ = MakeStrategyDecision(exprs[k], a, r, t, avail0)
	}
	end, pass, err := MakeStrategyDecision(exprs[k], a, r, t, avail)
	zz.Assert("C15.decision.noerr", err == nil)
	holds := func(x uint64) bool {
		switch k {
		case 0:
			return 2*x > t
		case 1:
			return 50*x >= 33*t
		case 2:
			return x >= t
		}
		return x == t
	}
	zz.Cover("C15.decision.pass", pass)
	zz.Cover("C15.decision.reject", end && !pass)
	zz.Cover("C15.decision.wait", !end)
	zz.Assert("C15.decision.pass-iff-expr", pass == holds(a))
	zz.Assert("C15.decision.pass-implies-end", !pass || end)
	if k != 3 {
		// monotone expressions: rejected iff even all remaining electors approving cannot reach it
		zz.Assert("C15.decision.reject-iff-unreachable", (end && !pass) == (!holds(a) && !holds(avail-r)))
	}
}
