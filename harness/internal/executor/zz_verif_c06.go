//go:build verif

package executor

import (
	"math/big"
	"strings"

	"github.com/meshplus/bitxhub-model/constant"
	"github.com/meshplus/bitxhub-model/pb"
	"github.com/meshplus/bitxhub/pkg/vm"
	"github.com/meshplus/bitxhub/pkg/vm/boltvm"
	zz "github.com/meshplus/bitxhub/internal/zzverif"
)

const (
	zzFrom = "1356:chA:s1"
	zzTo   = "1356:chB:s2"
)

func zzIBTPTx(index uint64, typ pb.IBTP_Type, timeout int64, hashN int) *pb.BxhTransaction {
	return &pb.BxhTransaction{From: zzAddr(zzUsers[0]), To: constant.InterchainContractAddr.Address(), TransactionHash: zzHash(hashN),
		IBTP: &pb.IBTP{From: zzFrom, To: zzTo, Index: index, Type: typ, TimeoutHeight: timeout}}
}

// zzTMInvoke calls the real TransactionManager through the real BoltVM as the interchain contract would.
func zzTMInvoke(exec *BlockExecutor, height uint64, method string, args ...*pb.Arg) ([]byte, error) {
	tx := zzIBTPTx(1, pb.IBTP_INTERCHAIN, 0, 0)
	ctx := &vm.Context{
		Caller:        tx.From,
		Callee:        constant.TransactionMgrContractAddr.Address(),
		CurrentCaller: constant.InterchainContractAddr.Address(),
		Ledger:        exec.ledger,
		Tx:            tx,
		CurrentHeight: height,
		Logger:        exec.logger,
	}
	ip := &pb.InvokePayload{Method: method, Args: args}
	data, _ := ip.Marshal()
	ret, _, err := boltvm.New(ctx, nil, nil, exec.txsExecutor.GetBoltContracts()).Run(data, 0)
	return ret, err
}


func zzListHas(exec *BlockExecutor, height uint64, id string) bool {
	for _, x := range exec.getTimeoutList(height) {
		if x == id {
			return true
		}
	}
	return false
}

// ZZH_C06_register: a request executed in block H with timeout T (both symbolic) is
// registered for exactly H+T when T>0, it was valid and not begin-failed; otherwise nowhere
// (checked at H+T, and at the neighbours H+T-1 / H+T+1).
func ZZH_C06_register() {
	exec := zzNewExec(1, big.NewInt(0))
	h := zz.U64i("H")
	zz.Assume(h >= 1)
	zz.Assume(h < 1<<40)
	t := zz.I64("T")
	zz.Assume(t < 1<<40)
	zz.Assume(t > -(1 << 40))
	invalid := zz.Bool("invalid")
	beginFailed := zz.Bool("beginFailed")
	tx := zzIBTPTx(1, pb.IBTP_INTERCHAIN, t, 0)
	inv, fail := map[string]bool{}, map[string]bool{}
	if invalid {
		inv[tx.GetHash().String()] = true
	}
	if beginFailed {
		fail[tx.GetHash().String()] = true
	}
	err := exec.setTimeoutList(h, []pb.Transaction{tx}, inv, fail, "1356")
	zz.Assert("C06.register.noerr", err == nil)
	id := "1356:chA:s1-1356:chB:s2-1"
	expect := t > 0 && !invalid && !beginFailed
	zz.Cover("C06.register.registered", expect)
	if t > 0 {
		l := h + uint64(t)
		zz.Assert("C06.register.at-H+T", zzListHas(exec, l, id) == expect)
		zz.Assert("C06.register.not-before", !zzListHas(exec, l-1, id))
		zz.Assert("C06.register.not-after", !zzListHas(exec, l+1, id))
	} else {
		zz.Assert("C06.register.T<=0-never", !zzListHas(exec, h, id) && !zzListHas(exec, h+1, id))
	}
}

// ZZH_C06_lifecycle: request at H=5 with T in {1,2}; optionally one receipt (symbolic type) in a
// block b in H+1..H+T; then the expiry processing of block H+T (real setTimeoutList,
// getTimeoutIBTPsMap, setTimeoutRollback, real TransactionManager.Begin/Report).
// (also C07: a receipt transaction that FAILED must not touch the timeout bookkeeping)
// zz:also C07
func ZZH_C06_lifecycle() {
	exec := zzNewExec(1, big.NewInt(0))
	H := uint64(5)
	T := int64(1 + zz.Choice("T", 2))
	L := H + uint64(T)
	id := "1356:chA:s1-1356:chB:s2-1"
	// block H: request accepted
	_, err := zzTMInvoke(exec, H, "Begin", pb.String(id), pb.Uint64(uint64(T)), pb.Bool(false))
	zz.Assert("C06.life.begin", err == nil)
	req := zzIBTPTx(1, pb.IBTP_INTERCHAIN, T, 0)
	zz.Assert("C06.life.register", exec.setTimeoutList(H, []pb.Transaction{req}, map[string]bool{}, map[string]bool{}, "1356") == nil)
	zz.Assert("C06.life.listed", zzListHas(exec, L, id))
	if zz.Choice("commit", 2) == 1 {
		acc, root := exec.ledger.FlushDirtyData()
		_ = exec.ledger.StateLedger.Commit(H, acc, root)
	}
	// optional receipt in block b <= L
	accepted := false
	rtype := pb.IBTP_Type(zz.I32("receiptType"))
	zz.Assume(rtype >= 1)
	zz.Assume(rtype <= 3)
	if zz.Choice("withReceipt", 2) == 1 {
		b := H + 1 + uint64(zz.Choice("receiptBlock", int(T)))
		_, rerr := zzTMInvoke(exec, b, "Report", pb.String(id), pb.Int32(int32(rtype)))
		rc := zzIBTPTx(1, rtype, 0, 1)
		inv := map[string]bool{}
		if rerr != nil {
			inv[rc.GetHash().String()] = true
		} else {
			accepted = true
		}
		zz.Assert("C06.life.receipt-list", exec.setTimeoutList(b, []pb.Transaction{rc}, inv, map[string]bool{}, "1356") == nil)
	}
	zz.Cover("C06.life.receipt-accepted", accepted)
	pre, _ := zzRecordOf(exec, id)
	// block L: expiry processing (order as in processExecuteEvent)
	m, err := exec.getTimeoutIBTPsMap(L)
	zz.Assert("C06.life.map", err == nil)
	zz.Assert("C06.life.rollback", exec.setTimeoutRollback(L) == nil)
	post, ok := zzRecordOf(exec, id)
	zz.Observe("pre", int(pre.Status))
	zz.Observe("post", int(post.Status))
	zz.Observe("list", strings.Join(exec.getTimeoutList(L), "|"))
	zz.Assert("C06.life.record", ok)
	n := 0
	for _, x := range m["chA"] {
		if x == id {
			n++
		}
	}
	if accepted {
		zz.Assert("C06.life.receipt-wins.not-notified", n == 0 && len(m) == 0)
		zz.Assert("C06.life.receipt-wins.status-kept", post.Status == pre.Status)
	} else {
		zz.Assert("C06.life.expired.notified-once", n == 1)
		zz.Assert("C06.life.expired.begin-rollback", post.Status == pb.TransactionStatus_BEGIN_ROLLBACK)
		// afterwards only a rollback or failure receipt is accepted
		_, e1 := zzTMInvoke(exec, L+1, "Report", pb.String(id), pb.Int32(int32(pb.IBTP_RECEIPT_SUCCESS)))
		zz.Assert("C06.life.expired.success-refused", e1 != nil)
	}
	_ = strings.Split
}

// ZZH_C06_two_receipts: two requests accepted in block H with the same timeout height; both
// receipts (symbolic types) arrive in ONE later block; at H+T neither an accepted one is
// listed nor its final status altered (C04: final statuses never change again).
// zz:also C04 C07
func ZZH_C06_two_receipts() {
	exec := zzNewExec(1, big.NewInt(0))
	H, T := uint64(5), int64(2)
	L := H + uint64(T)
	ids := []string{"1356:chA:s1-1356:chB:s2-1", "1356:chA:s1-1356:chB:s2-2"}
	var reqs []pb.Transaction
	for i, id := range ids {
		_, err := zzTMInvoke(exec, H, "Begin", pb.String(id), pb.Uint64(uint64(T)), pb.Bool(false))
		zz.Assert("C06.two.begin", err == nil)
		reqs = append(reqs, zzIBTPTx(uint64(i+1), pb.IBTP_INTERCHAIN, T, i))
	}
	zz.Assert("C06.two.register", exec.setTimeoutList(H, reqs, map[string]bool{}, map[string]bool{}, "1356") == nil)
	// one block with both receipts
	b := H + 1
	var rcs []pb.Transaction
	inv := map[string]bool{}
	accepted := []bool{false, false}
	for i, id := range ids {
		rt := pb.IBTP_Type(zz.I32("receiptType"))
		zz.Assume(rt >= 1)
		zz.Assume(rt <= 3)
		_, rerr := zzTMInvoke(exec, b, "Report", pb.String(id), pb.Int32(int32(rt)))
		rc := zzIBTPTx(uint64(i+1), rt, 0, i)
		if rerr != nil {
			inv[rc.GetHash().String()] = true
		} else {
			accepted[i] = true
		}
		rcs = append(rcs, rc)
	}
	zz.Assert("C06.two.receipt-list", exec.setTimeoutList(b, rcs, inv, map[string]bool{}, "1356") == nil)
	pre0, _ := zzRecordOf(exec, ids[0])
	pre1, _ := zzRecordOf(exec, ids[1])
	pres := []pb.TransactionRecord{pre0, pre1}
	m, err := exec.getTimeoutIBTPsMap(L)
	zz.Assert("C06.two.map", err == nil)
	zz.Assert("C06.two.rollback", exec.setTimeoutRollback(L) == nil)
	for i, id := range ids {
		post, _ := zzRecordOf(exec, id)
		n := 0
		for _, x := range m["chA"] {
			if x == id {
				n++
			}
		}
		if accepted[i] {
			zz.Assert("C06.two.accepted-not-notified", n == 0)
			zz.Assert("C04.final-status-kept", post.Status == pres[i].Status)
		} else {
			zz.Assert("C06.two.expired-notified-once", n == 1)
			zz.Assert("C06.two.expired-begin-rollback", post.Status == pb.TransactionStatus_BEGIN_ROLLBACK)
		}
	}
}
