//go:build verif

package executor

import (
	"math/big"

	"github.com/ethereum/go-ethereum/common"
	"github.com/ethereum/go-ethereum/common/hexutil"
	"github.com/meshplus/bitxhub-model/pb"
	zz "github.com/meshplus/bitxhub/internal/zzverif"
	types2 "github.com/meshplus/eth-kit/types"
)

const (
	zzEvmContract = "0x00000000000000000000000000000000000000E1"
	zzEvmOther    = "0x00000000000000000000000000000000000000E2"
)

// zzEthTx builds an eth transaction through eth-kit's own FromCallArgs (the constructor the API
// layer uses for calls): the sender is taken from the arguments, no signature is involved.
func zzEthTx(from string, to *common.Address, gas uint64, gasPrice, value *big.Int, data []byte) *types2.EthTransaction {
	f := common.HexToAddress(from)
	g := hexutil.Uint64(gas)
	d := hexutil.Bytes(data)
	tx := &types2.EthTransaction{}
	tx.FromCallArgs(types2.CallArgs{From: &f, To: to, Gas: &g, GasPrice: (*hexutil.Big)(gasPrice), Value: (*hexutil.Big)(value), Data: &d})
	return tx
}

const zzEvmReverter = "0x00000000000000000000000000000000000000E3" // code: REVERT(0,0)
const zzEvmSecond = "0x00000000000000000000000000000000000000E4"   // code: SSTORE(0,1); LOG0; STOP
const zzEvmSuicider = "0x00000000000000000000000000000000000000E5" // code: SELFDESTRUCT(beneficiary E2); holds 30

// zzEvmProgram assembles the callee: an optional nested call made FIRST (to a contract that always
// reverts, 5 wei sent to a plain account, or a contract that destroys itself), then SSTORE(0,1) and LOG0, then one of four endings.
func zzEvmProgram(prefix, ending int) []byte {
	var code []byte
	call := func(value, to byte) {
		// CALL(gas=GAS, to, value, in 0/0, out 0/0); POP
		code = append(code, 0x60, 0x00, 0x60, 0x00, 0x60, 0x00, 0x60, 0x00, 0x60, value, 0x60, to, 0x5a, 0xf1, 0x50)
	}
	switch prefix {
	case 1:
		call(0, 0xE3)
	case 2:
		call(5, 0xE2)
	case 3:
		call(0, 0xE5) // the callee destroys itself: its balance goes to 0xE2
	}
	code = append(code, 0x60, 0x01, 0x60, 0x00, 0x55) // SSTORE(0, 1)
	code = append(code, 0x60, 0x00, 0x60, 0x00, 0xa0) // LOG0(0, 0)
	switch ending {
	case 0:
		code = append(code, 0x00) // STOP
	case 1:
		code = append(code, 0x60, 0x00, 0x60, 0x00, 0xfd) // REVERT(0,0)
	case 2:
		code = append(code, 0xfe) // INVALID
	case 3:
		pc := byte(len(code))
		code = append(code, 0x5b, 0x60, pc, 0x56) // JUMPDEST; PUSH1 pc; JUMP: runs out of gas
	}
	return code
}

// ZZH_C07_eth: one eth transaction (value transfer, contract call or contract creation) through the
// real applyTransaction, eth-kit's state transition and EVM interpreter and the real ledger. A FAILED
// receipt leaves storage, code and every balance but the sender's untouched; the sender loses at
// most gasUsed*gasPrice and its nonce advances by at most one; a SUCCESS moves exactly the value.
// zz:also C08 C14
func ZZH_C07_eth() {
	exec := zzNewExec(1, big.NewInt(1))
	contract := zzAddr(zzEvmContract)
	other := zzAddr(zzEvmOther)
	sender := zzAddr(zzUsers[0])
	prefix, ending := zz.Choice("prefix", 4), zz.Choice("ending", 4)
	program := zzEvmProgram(prefix, ending)
	exec.ledger.SetCode(contract, program)
	exec.ledger.SetCode(zzAddr(zzEvmReverter), []byte{0x60, 0x00, 0x60, 0x00, 0xfd})
	exec.ledger.SetState(contract, common.Hash{}.Bytes(), common.BytesToHash([]byte{7}).Bytes(), nil)
	exec.ledger.SetBalance(contract, big.NewInt(50))
	exec.ledger.SetBalance(other, big.NewInt(9))
	exec.ledger.SetCode(zzAddr(zzEvmSecond), zzEvmProgram(0, 0))
	exec.ledger.SetCode(zzAddr(zzEvmSuicider), []byte{0x60, 0xE2, 0xff})
	exec.ledger.SetBalance(zzAddr(zzEvmSuicider), big.NewInt(30))
	exec.ledger.SetBalance(zzAddr(zzUsers[1]), big.NewInt(1000000000))
	preSender := zzSetBalance(exec, zzUsers[0], "senderBal")
	accounts, root := exec.ledger.FlushDirtyData()
	_ = exec.ledger.StateLedger.Commit(1, accounts, root)
	exec.ledger.PrepareBlock(zzHash(2), 2)
	exec.evm = newEvm(2, 1, exec.evmChainCfg, exec.ledger.StateLedger, exec.ledger.ChainLedger, exec.admins[0], exec.evmMaxSize)
	exec.gasLimit = 10000000

	gasPrice := big.NewInt(int64(zz.Choice("gasPrice", 3))) // 0, 1, 2
	gas := []uint64{20000, 21000, 30000, 100000}[zz.Choice("gas", 4)]
	value := big.NewInt([]int64{0, 4}[zz.Choice("value", 2)])
	var to *common.Address
	var data []byte
	switch zz.Choice("kind", 3) {
	case 0: // call the contract
		a := common.HexToAddress(zzEvmContract)
		to = &a
	case 1: // plain transfer
		a := common.HexToAddress(zzEvmOther)
		to = &a
	case 2: // creation whose init code is one of the programs
		data = program
	}
	sum := func() *big.Int {
		s := new(big.Int).Add(zzBalance(exec, zzUsers[0]), zzBalance(exec, zzEvmContract))
		s.Add(s, zzBalance(exec, zzEvmOther))
		s.Add(s, zzBalance(exec, zzEvmSuicider))
		s.Add(s, zzBalance(exec, zzAdmins[0]))
		return s
	}
	// an earlier eth transaction of the same block by another account (what it leaves behind - dirty
	// accounts, logs, access list, a finished journal - must not change what the checked one may do):
	// none, a successful call of a second contract (SSTORE, LOG0, STOP), thorough: a failing call
	if earlier := zz.Choice("earlierTx", zz.Tier(2, 3)); earlier != 0 {
		tgt := common.HexToAddress(zzEvmSecond)
		if earlier == 2 {
			tgt = common.HexToAddress(zzEvmReverter)
		}
		r0 := exec.applyTransaction(0, zzEthTx(zzUsers[1], &tgt, 100000, big.NewInt(1), big.NewInt(0), nil), "", nil)
		zz.Assert("C07.eth.earlier-tx-outcome", r0 != nil && (r0.Status == pb.Receipt_SUCCESS) == (earlier == 1))
	}
	preSum := sum()
	tx := zzEthTx(zzUsers[0], to, gas, gasPrice, value, data)
	preNonce := exec.ledger.GetNonce(sender)
	receipt := exec.applyTransaction(1, tx, "", nil)
	zz.Assert("C08.eth.one-receipt-with-a-status", receipt != nil && (receipt.Status == pb.Receipt_SUCCESS || receipt.Status == pb.Receipt_FAILED))
	if receipt == nil {
		return
	}
	failed := receipt.Status == pb.Receipt_FAILED
	zz.Cover("C07.eth.failed", failed)
	zz.Cover("C07.eth.succeeded", !failed)
	postSender := zzBalance(exec, zzUsers[0])
	fee := new(big.Int).Mul(new(big.Int).SetUint64(receipt.GasUsed), gasPrice)
	postNonce := exec.ledger.GetNonce(sender)
	zz.Assert("C07.eth.nonce-advances-by-at-most-one", postNonce == preNonce || postNonce == preNonce+1)
	if failed {
		ok, v := exec.ledger.GetState(contract, common.Hash{}.Bytes())
		zz.Assert("C07.eth.failed.storage-restored", ok && common.BytesToHash(v) == common.BytesToHash([]byte{7}))
		zz.Assert("C07.eth.failed.contract-balance", zzBalance(exec, zzEvmContract).Cmp(big.NewInt(50)) == 0)
		zz.Assert("C07.eth.failed.other-balance", zzBalance(exec, zzEvmOther).Cmp(big.NewInt(9)) == 0)
		zz.Assert("C07.eth.failed.self-destructed-callee-keeps-its-balance", zzBalance(exec, zzEvmSuicider).Cmp(big.NewInt(30)) == 0)
		zz.Assert("C07.eth.failed.sender-pays-exactly-the-fee", zz.BigEq(postSender, new(big.Int).Sub(preSender, fee)))
		zz.Assert("C07.eth.failed.no-logs", len(receipt.EvmLogs) == 0)
		zz.Assert("C07.eth.failed.no-delivery", len(exec.txsExecutor.GetInterchainCounter()) == 0)
	}
	if !failed && to != nil && to.Hex() == common.HexToAddress(zzEvmContract).Hex() {
		ok, v := exec.ledger.GetState(contract, common.Hash{}.Bytes())
		zz.Assert("C07.eth.ok.storage-written", ok && common.BytesToHash(v) == common.BytesToHash([]byte{1}))
		zz.Assert("C07.eth.ok.ended-with-stop", ending == 0)
	}
	// value is conserved over the four accounts involved, whatever the outcome (a created contract
	// receives the value on success: it is the fifth account then)
	if to != nil || failed {
		zz.Assert("C14.eth.value-conserved", zz.BigEq(sum(), new(big.Int).Add(preSum, big.NewInt(0))))
	}
	zz.Assert("C14.eth.sender-never-negative", zz.BigLe(big.NewInt(0), postSender))
}
