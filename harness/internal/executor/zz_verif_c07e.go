//go:build verif

package executor

import (
	"math/big"

	"github.com/ethereum/go-ethereum/common"
	"github.com/ethereum/go-ethereum/common/hexutil"
	"github.com/meshplus/bitxhub-model/pb"
	zz "github.com/meshplus/bitxhub/internal/zzverif"
	types2 "github.com/meshplus/eth-kit/types"
)

const (
	zzEvmContract = "0x00000000000000000000000000000000000000E1"
	zzEvmOther    = "0x00000000000000000000000000000000000000E2"
)

// zzEthTx builds an eth transaction through eth-kit's own FromCallArgs (the constructor the API
// layer uses for calls): the sender is taken from the arguments, no signature is involved.
func zzEthTx(from string, to *common.Address, gas uint64, gasPrice, value *big.Int, data []byte) *types2.EthTransaction {
	f := common.HexToAddress(from)
	g := hexutil.Uint64(gas)
	d := hexutil.Bytes(data)
	tx := &types2.EthTransaction{}
	tx.FromCallArgs(types2.CallArgs{From: &f, To: to, Gas: &g, GasPrice: (*hexutil.Big)(gasPrice), Value: (*hexutil.Big)(value), Data: &d})
	return tx
}

// EVM programs of the callee (all start by writing 1 to storage slot 0).
var zzEvmPrograms = [][]byte{
	{0x60, 0x01, 0x60, 0x00, 0x55, 0x00},                         // SSTORE; STOP
	{0x60, 0x01, 0x60, 0x00, 0x55, 0x60, 0x00, 0x60, 0x00, 0xfd}, // SSTORE; REVERT
	{0x60, 0x01, 0x60, 0x00, 0x55, 0xfe},                         // SSTORE; INVALID
	{0x60, 0x01, 0x60, 0x00, 0x55, 0x5b, 0x60, 0x05, 0x56},       // SSTORE; loop forever (out of gas)
	// SSTORE; send 5 wei to zzEvmOther (CALL gas=0 to=E2 value=5 no data); REVERT
	{0x60, 0x01, 0x60, 0x00, 0x55,
		0x60, 0x00, 0x60, 0x00, 0x60, 0x00, 0x60, 0x00, 0x60, 0x05, 0x60, 0xE2, 0x60, 0x00, 0xf1,
		0x60, 0x00, 0x60, 0x00, 0xfd},
	// SSTORE; LOG0(0,0); send 5 wei to zzEvmOther; STOP
	{0x60, 0x01, 0x60, 0x00, 0x55,
		0x60, 0x00, 0x60, 0x00, 0xa0,
		0x60, 0x00, 0x60, 0x00, 0x60, 0x00, 0x60, 0x00, 0x60, 0x05, 0x60, 0xE2, 0x60, 0x00, 0xf1,
		0x00},
}

// ZZH_C07_eth: one eth transaction (value transfer, contract call or contract creation) through the
// real applyTransaction, eth-kit's state transition and EVM interpreter and the real ledger. A FAILED
// receipt leaves storage, code and every balance but the sender's untouched; the sender loses at
// most gasUsed*gasPrice and its nonce advances by at most one; a SUCCESS moves exactly the value.
// zz:also C08
// zz:also C14
func ZZH_C07_eth() {
	exec := zzNewExec(1, big.NewInt(1))
	contract := zzAddr(zzEvmContract)
	other := zzAddr(zzEvmOther)
	sender := zzAddr(zzUsers[0])
	prog := zz.Choice("program", len(zzEvmPrograms))
	exec.ledger.SetCode(contract, zzEvmPrograms[prog])
	exec.ledger.SetState(contract, common.Hash{}.Bytes(), common.BytesToHash([]byte{7}).Bytes(), nil)
	exec.ledger.SetBalance(contract, big.NewInt(50))
	exec.ledger.SetBalance(other, big.NewInt(9))
	preSender := zzSetBalance(exec, zzUsers[0], "senderBal")
	accounts, root := exec.ledger.FlushDirtyData()
	_ = exec.ledger.StateLedger.Commit(1, accounts, root)
	exec.ledger.PrepareBlock(zzHash(2), 2)
	exec.evm = newEvm(2, 1, exec.evmChainCfg, exec.ledger.StateLedger, exec.ledger.ChainLedger, exec.admins[0], exec.evmMaxSize)
	exec.gasLimit = 10000000

	gasPrice := big.NewInt(int64(zz.Choice("gasPrice", 3))) // 0, 1, 2
	gas := []uint64{20000, 21000, 30000, 100000}[zz.Choice("gas", 4)]
	value := big.NewInt([]int64{0, 4}[zz.Choice("value", 2)])
	var to *common.Address
	var data []byte
	switch zz.Choice("kind", 3) {
	case 0: // call the contract
		a := common.HexToAddress(zzEvmContract)
		to = &a
	case 1: // plain transfer
		a := common.HexToAddress(zzEvmOther)
		to = &a
	case 2: // creation whose init code is one of the programs
		data = zzEvmPrograms[prog]
	}
	tx := zzEthTx(zzUsers[0], to, gas, gasPrice, value, data)
	preNonce := exec.ledger.GetNonce(sender)
	receipt := exec.applyTransaction(0, tx, "", nil)
	zz.Assert("C08.eth.one-receipt-with-a-status", receipt != nil && (receipt.Status == pb.Receipt_SUCCESS || receipt.Status == pb.Receipt_FAILED))
	if receipt == nil {
		return
	}
	failed := receipt.Status == pb.Receipt_FAILED
	zz.Cover("C07.eth.failed", failed)
	zz.Cover("C07.eth.succeeded", !failed)
	postSender := zzBalance(exec, zzUsers[0])
	fee := new(big.Int).Mul(new(big.Int).SetUint64(receipt.GasUsed), gasPrice)
	postNonce := exec.ledger.GetNonce(sender)
	zz.Assert("C07.eth.nonce-advances-by-at-most-one", postNonce == preNonce || postNonce == preNonce+1)
	sum := func() *big.Int {
		s := new(big.Int).Add(zzBalance(exec, zzUsers[0]), zzBalance(exec, zzEvmContract))
		s.Add(s, zzBalance(exec, zzEvmOther))
		s.Add(s, zzBalance(exec, zzAdmins[0]))
		return s
	}
	if failed {
		ok, v := exec.ledger.GetState(contract, common.Hash{}.Bytes())
		zz.Assert("C07.eth.failed.storage-restored", ok && common.BytesToHash(v) == common.BytesToHash([]byte{7}))
		zz.Assert("C07.eth.failed.contract-balance", zzBalance(exec, zzEvmContract).Cmp(big.NewInt(50)) == 0)
		zz.Assert("C07.eth.failed.other-balance", zzBalance(exec, zzEvmOther).Cmp(big.NewInt(9)) == 0)
		zz.Assert("C07.eth.failed.sender-pays-exactly-the-fee", zz.BigEq(postSender, new(big.Int).Sub(preSender, fee)))
		zz.Assert("C07.eth.failed.no-logs", len(receipt.EvmLogs) == 0)
		zz.Assert("C07.eth.failed.no-delivery", len(exec.txsExecutor.GetInterchainCounter()) == 0)
	}
	_ = sum
	zz.Assert("C14.eth.sender-never-negative", zz.BigLe(big.NewInt(0), postSender))
}
