//go:build verif

package executor

import (
	"math/big"

	"github.com/meshplus/bitxhub-core/governance"
	servicemgr "github.com/meshplus/bitxhub-core/service-mgr"
	"github.com/meshplus/bitxhub-model/constant"
	"github.com/meshplus/bitxhub-model/pb"
	"github.com/meshplus/bitxhub/internal/executor/contracts"
	zz "github.com/meshplus/bitxhub/internal/zzverif"
)

// zzSrcSvc is the id of the source service of the pipeline harnesses (a harness may pick an unusual one).
var zzSrcSvc = "sA"

func zzSrcFullID() string { return "1356:chA:" + zzSrcSvc }

// zzInterchainWorld puts two available services (chA:sA -> chB:sB) and the hub id into the ledger.
func zzInterchainWorld(exec *BlockExecutor) {
	svcAddr := constant.ServiceMgrContractAddr.Address()
	exec.ledger.SetState(constant.InterchainContractAddr.Address(), []byte(contracts.BitXHubID), []byte("1356"), nil)
	exec.ledger.SetState(svcAddr, []byte(servicemgr.ServiceKey("chA:"+zzSrcSvc)), zzServiceJSON("chA", zzSrcSvc, "serviceA", governance.GovernanceAvailable, map[string]struct{}{}), nil)
	exec.ledger.SetState(svcAddr, []byte(servicemgr.ServiceKey("chB:sB")), zzServiceJSON("chB", "sB", "serviceB", governance.GovernanceAvailable, map[string]struct{}{}), nil)
	acc, root := exec.ledger.FlushDirtyData()
	_ = exec.ledger.StateLedger.Commit(0, acc, root)
}

func zzRequestTx(index uint64, nonce uint64, hashN int) *pb.BxhTransaction {
	return &pb.BxhTransaction{From: zzAddr(zzUsers[0]), To: constant.InterchainContractAddr.Address(), Nonce: nonce, TransactionHash: zzHash(hashN), Timestamp: 1,
		IBTP: &pb.IBTP{From: zzSrcFullID(), To: "1356:chB:sB", Index: index, Type: pb.IBTP_INTERCHAIN, TimeoutHeight: 10}}
}

func zzDelivered(im *pb.InterchainMeta, chain string) int {
	if im == nil || im.Counter == nil {
		return 0
	}
	if v, ok := im.Counter[chain]; ok && v != nil {
		return len(v.Slice)
	}
	return 0
}

// ZZH_C02_block_delivery: three consecutive blocks through the real processExecuteEvent with the
// real contracts: each block is empty, a transfer, or the next interchain request chA:sA ->
// chB:sB (index: zero, a repeat, the expected one, or a skipped one). An accepted request is listed for its
// destination chain exactly once, in the delivery set of the block that accepted it and of no
// other block (in particular not of a following empty block); a rejected one is listed nowhere;
// the interchain counter equals the number of accepted requests. The proof verdict of each request
// is a free choice too: a request whose proof was rejected changes nothing and is delivered nowhere (C03).
// zz:also C08 C09 C03 C01 C10
func ZZH_C02_block_delivery() {
	exec := zzNewExec(1, big.NewInt(0))
	sv := &zzStubVerify{verdict: make([]uint8, 8), seen: make([]int, 8)}
	exec.ibtpVerify = sv
	exec.config.ProofType = []string{"serial", "parallel"}[zz.Choice("proofType", zz.Tier(1, 2))]
	zzInterchainWorld(exec)
	accepted := uint64(0)
	nonce := uint64(0)
	exec.processExecuteEvent(zzBlockOf(1, nil)) // block 1 is the genesis block on a real chain (its proofs are never checked)
	for h := uint64(2); h <= uint64(zz.Tier(4, 4)); h++ {
		var txs []pb.Transaction
		expect := 0
		switch zz.Choice("block", 4) {
		case 1:
			txs = append(txs, zzTransferTx(zzUsers[0], zzUsers[1], nonce, int(h-2), "0"))
			nonce++
		case 3:
			// a receipt that names a source service nobody registered: the interchain contract
			// trips over the missing record (a panic inside the contract) - that is a failed
			// transaction, not a reason for the block or the node to stop
			ghost := &pb.BxhTransaction{From: zzAddr(zzUsers[1]), To: constant.InterchainContractAddr.Address(), Nonce: nonce, TransactionHash: zzHash(int(h - 2)), Timestamp: 1,
				IBTP: &pb.IBTP{From: "1356:chA:ghost", To: "1356:chB:sB", Index: 1, Type: pb.IBTP_RECEIPT_SUCCESS}}
			txs = append(txs, ghost)
			sv.verdict[nonce] = 0
			nonce++
		case 2:
			// (ids end up in ordered store keys: a concrete candidate set instead of a symbolic index;
			// the symbolic-index step is ZZH_C02_step)
			idx := []uint64{0, accepted, accepted + 1, accepted + 2}[zz.Choice("index", 4)]
			txs = append(txs, zzRequestTx(idx, nonce, int(h-2)))
			// the proof pool's verdict on this transaction: accepted, rejected with an error, rejected by the rule
			sv.verdict[nonce] = uint8(zz.Choice("proofVerdict", zz.Tier(2, 3)))
			proofOK := sv.verdict[nonce] == 0
			nonce++
			if idx == accepted+1 && proofOK {
				expect = 1
				accepted++
			}
		}
		crashed, _ := zz.Crashed(func() { exec.processExecuteEvent(zzBlockOf(h, txs)) })
		zz.Assert("C08.block-executes", !crashed)
		if crashed {
			return
		}
		for _, tx := range txs {
			r, e := exec.ledger.GetReceipt(tx.GetHash())
			zz.Assert("C08.delivery.one-receipt-per-transaction", e == nil && r != nil)
		}
		im, err := exec.ledger.GetInterchainMeta(h)
		zz.Assert("C02.delivery.meta-stored", err == nil)
		zz.Cover("C02.delivery.accepted", expect == 1)
		zz.Assert("C02.delivery.listed-in-its-block-only", zzDelivered(im, "chB") == expect)
		zz.Assert("C02.delivery.nothing-for-other-chains", zzDelivered(im, "chA") == 0)
		if expect == 1 {
			zz.Assert("C02.delivery.position", im.Counter["chB"].Slice[0].Index == 0 && im.Counter["chB"].Slice[0].Valid)
		}
		zz.Assert("C09.meta.interchain-count", exec.ledger.GetChainMeta().InterchainTxCount == accepted)
		zzCheckStoredRoots(exec, h) // (the block may hold a request whose proof was rejected: it is stored and committed to all the same)
		// (C01) the stored meta is what a node started just before this block would have written: it
		// names exactly the chains with deliveries in THIS block - no left-over entry, not even an
		// empty one, for a chain that got a delivery in an earlier block of the same process
		want := 0
		if expect == 1 {
			want = 1
		}
		zz.Assert("C01.delivery.meta-names-only-this-blocks-chains", im != nil && len(im.Counter) == want)
	}
	ic := &pb.Interchain{}
	ok, data := exec.ledger.GetState(constant.InterchainContractAddr.Address(), []byte(contracts.INTERCHAINSERVICE_PREFIX+"-"+zzSrcFullID()))
	if ok {
		_ = ic.Unmarshal(data)
	}
	zz.Assert("C02.delivery.counter-equals-accepted", ic.InterchainCounter["1356:chB:sB"] == accepted)
}

// ZZH_C02_same_tx_twice: a block that carries the very same interchain request transaction twice (the
// pool de-duplicates by hash, a proposer need not): the request is accepted once - the second copy is
// rejected - and listed once in the block's delivery set for its destination; the counter is 1.
// zz:also C08
func ZZH_C02_same_tx_twice() {
	exec := zzNewExec(1, big.NewInt(0))
	sv := &zzStubVerify{verdict: make([]uint8, 8), seen: make([]int, 8)}
	exec.ibtpVerify = sv
	exec.config.ProofType = "serial"
	zzInterchainWorld(exec)
	exec.processExecuteEvent(zzBlockOf(1, nil))
	req := zzRequestTx(1, 0, 0)
	txs := []pb.Transaction{req, req}
	if zz.Choice("otherTxBetween", 2) == 1 {
		txs = []pb.Transaction{req, zzTransferTx(zzUsers[1], zzUsers[0], 0, 1, "0"), req}
	}
	crashed, _ := zz.Crashed(func() { exec.processExecuteEvent(zzBlockOf(2, txs)) })
	zz.Assert("C08.block-executes", !crashed)
	if crashed {
		return
	}
	im, err := exec.ledger.GetInterchainMeta(2)
	zz.Assert("C02.twice.meta-stored", err == nil)
	zz.Assert("C02.twice.listed-once", zzDelivered(im, "chB") == 1)
	ic := &pb.Interchain{}
	ok, data := exec.ledger.GetState(constant.InterchainContractAddr.Address(), []byte(contracts.INTERCHAINSERVICE_PREFIX+"-"+zzSrcFullID()))
	if ok {
		_ = ic.Unmarshal(data)
	}
	zz.Assert("C02.twice.counter-is-one", ic.InterchainCounter["1356:chB:sB"] == 1)
	zz.Assert("C09.meta.interchain-count", exec.ledger.GetChainMeta().InterchainTxCount == 1)
}
