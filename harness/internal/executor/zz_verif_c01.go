//go:build verif

package executor

import (
	"encoding/json"
	"math/big"

	"github.com/iancoleman/orderedmap"
	"github.com/meshplus/bitxhub-core/governance"
	servicemgr "github.com/meshplus/bitxhub-core/service-mgr"
	"github.com/meshplus/bitxhub-model/constant"
	"github.com/meshplus/bitxhub-model/pb"
	"github.com/meshplus/bitxhub/internal/executor/contracts"
	zz "github.com/meshplus/bitxhub/internal/zzverif"
)

const (
	zzChainAdmin = "0xB000000000000000000000000000000000000002"
	zzSvcID      = "chB:sB"
	zzSrcFull    = "1356:chA:sA"
)

// zzUnorderedA / zzUnorderedB: the services of chain chA / chB are registered as NOT ordered - the
// interchain contract calls IBTPs to / receipts for such a service "batch" IBTPs. (Plain scalars: the
// engine restores package variables per path by value, so a mutated map would leak between paths.)
var zzUnorderedA, zzUnorderedB bool

func zzServiceJSON(chain, id, name string, status governance.GovernanceStatus, permits map[string]struct{}) []byte {
	s := &servicemgr.Service{ChainID: chain, ServiceID: id, Name: name, Type: servicemgr.ServiceCallContract, Intro: "intro", Ordered: !((chain == "chA" && zzUnorderedA) || (chain == "chB" && zzUnorderedB)),
		Permission: permits, Details: "details", CreateTime: 1, EvaluationRecords: map[string]*governance.EvaluationRecord{},
		InvokeRecords: map[string]*governance.InvokeRecord{}, Status: status}
	b, err := json.Marshal(s)
	if err != nil {
		panic(err)
	}
	return b
}

func zzBvmTx(from string, nonce uint64, to string, hashN int, method string, args ...*pb.Arg) *pb.BxhTransaction {
	ip := &pb.InvokePayload{Method: method, Args: args}
	ipb, _ := ip.Marshal()
	td := &pb.TransactionData{Type: pb.TransactionData_INVOKE, VmType: pb.TransactionData_BVM, Payload: ipb}
	tdb, _ := td.Marshal()
	return &pb.BxhTransaction{From: zzAddr(from), To: zzAddr(to), Payload: tdb, Nonce: nonce, TransactionHash: zzHash(hashN), Timestamp: 5}
}

func zzLedgerService(exec *BlockExecutor, id string) (*servicemgr.Service, bool) {
	ok, data := exec.ledger.GetState(constant.ServiceMgrContractAddr.Address(), []byte(servicemgr.ServiceKey(id)))
	if !ok {
		return nil, false
	}
	s := &servicemgr.Service{}
	if err := json.Unmarshal(data, s); err != nil {
		return nil, false
	}
	return s, true
}

func zzSamePermits(a, b map[string]struct{}) bool {
	if len(a) != len(b) {
		return false
	}
	for k := range a {
		if _, ok := b[k]; !ok {
			return false
		}
	}
	return true
}

// ZZH_C01_service_cache: the executor's in-memory service cache is only a cache. A node that
// restarts has an empty one and reads services from the ledger, so after every successfully
// executed service-manager transaction (real BoltVM, real contracts, real ledger) a cached
// service must equal the ledger's copy in everything IBTP handling reads (status, ordering,
// black list, identity) - otherwise a running and a restarted replica judge the next IBTP
// differently. Pre-state: service chB:sB with a symbolic black list, optionally already cached.
// (also C16: the destination's black list and status are judged on the cached record)
// zz:also C16
func ZZH_C01_service_cache() {
	exec := zzNewExec(4, big.NewInt(0))
	svcAddr := constant.ServiceMgrContractAddr.Address()
	roleAddr := constant.RoleContractAddr.Address()
	exec.ledger.SetState(constant.InterchainContractAddr.Address(), []byte(contracts.BitXHubID), []byte("1356"), nil)
	prePermits := map[string]struct{}{}
	if zz.Choice("preListed", 2) == 1 {
		prePermits[zzSrcFull] = struct{}{}
	}
	exec.ledger.SetState(svcAddr, []byte(servicemgr.ServiceKey("chA:sA")), zzServiceJSON("chA", "sA", "serviceA", governance.GovernanceAvailable, map[string]struct{}{}), nil)
	exec.ledger.SetState(svcAddr, []byte(servicemgr.ServiceKey(zzSvcID)), zzServiceJSON("chB", "sB", "serviceB", governance.GovernanceAvailable, prePermits), nil)
	adminID := zzAddr(zzChainAdmin).String()
	role := contracts.Role{ID: adminID, RoleType: contracts.AppchainAdmin, AppchainID: "chB", Status: governance.GovernanceAvailable}
	rb, _ := json.Marshal(role)
	exec.ledger.SetState(roleAddr, []byte(contracts.RoleKey(role.ID)), rb, nil)
	ids := orderedmap.New()
	ids.Set(adminID, struct{}{})
	ib, _ := json.Marshal(ids)
	exec.ledger.SetState(roleAddr, []byte(contracts.RoleAppchainAdminKey("chB")), ib, nil)
	accounts, root := exec.ledger.FlushDirtyData()
	_ = exec.ledger.StateLedger.Commit(1, accounts, root)
	if zz.Choice("cachedBefore", 2) == 1 {
		// an earlier service event cached the (then current) ledger copy
		s, _ := zzLedgerService(exec, zzSvcID)
		exec.serviceCache.Store(zzSvcID, s)
	}
	exec.ledger.PrepareBlock(zzHash(2), 2)
	exec.txsExecutor.ApplyTransactions(nil, nil)

	newPermits := ""
	if zz.Choice("newListed", 2) == 1 {
		newPermits = zzSrcFull
	}
	var tx *pb.BxhTransaction
	switch zz.Choice("tx", 3) {
	case 0: // black-list-only update by the chain admin: applied directly, status unchanged
		tx = zzBvmTx(zzChainAdmin, 0, svcAddr.String(), 0, "UpdateService", pb.String(zzSvcID), pb.String("serviceB"), pb.String("intro"),
			pb.String(newPermits), pb.String("details"), pb.String("reason"))
	case 1: // the same by somebody else: refused
		tx = zzBvmTx(zzUsers[0], 0, svcAddr.String(), 0, "UpdateService", pb.String(zzSvcID), pb.String("serviceB"), pb.String("intro"),
			pb.String(newPermits), pb.String("details"), pb.String("reason"))
	default: // intro edit together with the black list
		tx = zzBvmTx(zzChainAdmin, 0, svcAddr.String(), 0, "UpdateService", pb.String(zzSvcID), pb.String("serviceB"), pb.String("intro2"),
			pb.String(newPermits), pb.String("details"), pb.String("reason"))
	}
	receipt := exec.applyTx(0, tx, "", nil)
	ok := receipt.Status == pb.Receipt_SUCCESS
	zz.Cover("C01.cache.tx-succeeded", ok)
	zz.Cover("C01.cache.tx-failed", !ok)
	if !ok {
		return // a failed transaction's announcements are C07's subject
	}
	led, found := zzLedgerService(exec, zzSvcID)
	zz.Assert("C01.cache.ledger-has-service", found)
	_, nowListed := led.Permission[zzSrcFull]
	zz.Assert("C01.cache.update-applied", nowListed == (newPermits != ""))
	c, cached := exec.serviceCache.Load(zzSvcID)
	zz.Cover("C01.cache.cached", cached)
	if cached {
		cs := c.(*servicemgr.Service)
		zz.Assert("C01.cache.coherent-with-ledger", cs.ChainID == led.ChainID && cs.ServiceID == led.ServiceID && cs.Name == led.Name &&
			cs.Status == led.Status && cs.Ordered == led.Ordered && cs.Intro == led.Intro && cs.Details == led.Details &&
			cs.Type == led.Type && zzSamePermits(cs.Permission, led.Permission))
	}
}

// ZZH_C01_verify_sign: the signature pre-check of a block (one goroutine per transaction) marks
// exactly the transactions whose signature is bad and that were not verified locally before,
// under both goroutine schedules the engine explores (children run at once / after the loop).
// zz:also C08
func ZZH_C01_verify_sign() {
	exec := zzNewExec(1, big.NewInt(0))
	n := 2 + zz.Choice("ntx", zz.Tier(2, 3))
	// larger blocks (6, 7 or 11 transactions: the sizes at which work may be split unevenly between
	// a bounded number of workers): only the last three signatures vary, no local list
	many := zz.Choice("manyTxs", 2) == 1
	if many {
		n = []int{6, 7, 11}[zz.Choice("ntxMany", 3)]
	}
	var txs []pb.Transaction
	var local []bool
	bad := make([]bool, n)
	nLocal := 0
	if !many {
		nLocal = zz.Choice("localListLen", n+1) // the local list may be shorter than the block
	}
	for i := 0; i < n; i++ {
		bad[i] = (!many || i >= n-3) && zz.Choice("badSig", 2) == 1
		txs = append(txs, &zzSigTx{BxhTransaction: *zzTransferTx(zzUsers[0], zzUsers[1], uint64(i), i%6, "1"), bad: bad[i]})
		if i < nLocal {
			local = append(local, zz.Choice("local", 2) == 1)
		}
	}
	zz.Schedule(zz.Choice("schedule", 2))
	ev := &pb.CommitEvent{Block: &pb.Block{BlockHeader: &pb.BlockHeader{Number: 2}, Transactions: &pb.Transactions{Transactions: txs}}, LocalList: local}
	bw := exec.verifySign(ev)
	zz.Schedule(0)
	for i := 0; i < n; i++ {
		_, marked := bw.invalidTx[i]
		want := bad[i] && !(i < nLocal && local[i])
		zz.Assert("C01.verify-sign.marks-exactly-the-bad", marked == want)
	}
	zz.Assert("C01.verify-sign.no-extra", len(bw.invalidTx) <= n)
}
