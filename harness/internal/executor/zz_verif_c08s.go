//go:build verif

package executor

import (
	"math/big"

	"github.com/meshplus/bitxhub-model/constant"
	"github.com/meshplus/bitxhub-model/pb"
	zz "github.com/meshplus/bitxhub/internal/zzverif"
)

// ZZH_C08_stub_entry: every built-in contract embeds boltvm.Stub, so the storage, event and
// cross-call primitives are exported methods of the contract object. An external account sends a
// plain BVM transaction that names one of them (well-typed arguments) to a registered contract,
// through the real applyTx / BoltVM / ledger: block execution survives it, the receipt is FAILED,
// nothing is announced as an interchain delivery and the contract's storage is what it was.
// zz:also C17 C07
func ZZH_C08_stub_entry() {
	price := big.NewInt(int64(zz.Choice("gasPrice", 2)))
	exec := zzNewExec(1, price)
	funded := zz.Choice("senderFunded", 2) == 1
	if funded {
		exec.ledger.SetBalance(zzAddr(zzUsers[0]), big.NewInt(1000000000))
	}
	targets := []string{constant.StoreContractAddr.Address().String(), constant.InterchainContractAddr.Address().String(), constant.RoleContractAddr.Address().String()}
	target := targets[zz.Choice("contract", len(targets))]
	exec.ledger.SetState(zzAddr(target), []byte("k"), []byte("record"), nil)
	accounts, root := exec.ledger.FlushDirtyData()
	_ = exec.ledger.StateLedger.Commit(1, accounts, root)
	exec.ledger.PrepareBlock(zzHash(2), 2)
	exec.evm = newEvm(2, 1, exec.evmChainCfg, exec.ledger.StateLedger, exec.ledger.ChainLedger, exec.admins[0], exec.evmMaxSize)
	exec.txsExecutor.ApplyTransactions(nil, nil)
	methods := []string{"PostInterchainEvent", "PostEvent", "CrossInvokeEVM", "CrossInvoke", "Add", "Set", "Delete", "AddObject", "SetObject", "GetAccount", "Logger", "GetObject"}
	method := methods[zz.Choice("primitive", len(methods))]
	var args []*pb.Arg
	switch method {
	case "PostInterchainEvent":
		args = []*pb.Arg{pb.String([]string{"abc", `{"chB":{"index":5}}`}[zz.Choice("event", 2)])}
	case "PostEvent":
		args = []*pb.Arg{pb.Int32(int32(pb.Event_INTERCHAIN)), pb.String("abc")}
	case "CrossInvokeEVM":
		args = []*pb.Arg{pb.String(zzUsers[1]), pb.Bytes([]byte{1, 2, 3, 4})}
	case "CrossInvoke":
		args = []*pb.Arg{pb.String(constant.TransactionMgrContractAddr.Address().String()), pb.String("GetStatus")}
	case "Add", "Set":
		args = []*pb.Arg{pb.String([]string{"k", "fresh"}[zz.Choice("key", 2)]), pb.Bytes([]byte{zz.U8("v")})}
	case "AddObject", "SetObject":
		args = []*pb.Arg{pb.String([]string{"k", "fresh"}[zz.Choice("key", 2)]), pb.String("obj")}
	case "Delete", "GetAccount":
		args = []*pb.Arg{pb.String("k")}
	case "GetObject":
		args = []*pb.Arg{pb.String("k"), pb.String("x")}
	}
	tx := zzBvmTx(zzUsers[0], 0, target, 0, method, args...)
	var receipt *pb.Receipt
	crashed, _ := zz.Crashed(func() { receipt = exec.applyTx(0, tx, "", nil) })
	zz.Assert("C08.stub-entry.block-execution-survives", !crashed)
	if crashed || receipt == nil {
		return
	}
	zz.Assert("C17.stub-entry.refused", receipt.Status == pb.Receipt_FAILED)
	zz.Assert("C07.stub-entry.no-delivery", len(exec.txsExecutor.GetInterchainCounter()) == 0)
	ok, v := exec.ledger.GetState(zzAddr(target), []byte("k"))
	zz.Assert("C17.stub-entry.record-kept", ok && string(v) == "record")
	ok2, _ := exec.ledger.GetState(zzAddr(target), []byte("fresh"))
	zz.Assert("C17.stub-entry.no-key-planted", !ok2)
}

// ZZH_C08_broker_entry: the inter-broker contract runs EVM code on behalf of an interchain request to
// a service on the hub itself (BoltStubImpl.CrossInvokeEVM). An external account calls its
// InvokeInterchain entry point with a request to an EVM contract (one that writes storage and stops,
// or an address without code), from a funded or an unfunded account, with or without a gas price,
// through the real applyTx: block execution survives, and a FAILED receipt leaves the EVM
// contract's storage and every balance but the sender's untouched.
// zz:also C07 C17
func ZZH_C08_broker_entry() {
	price := big.NewInt(int64(zz.Choice("gasPrice", 2)))
	exec := zzNewExec(1, price)
	if zz.Choice("senderFunded", 2) == 1 {
		exec.ledger.SetBalance(zzAddr(zzUsers[0]), big.NewInt(1000000000))
	}
	contract := zzAddr(zzEvmContract)
	withCode := zz.Choice("targetHasCode", 2) == 1
	if withCode {
		exec.ledger.SetCode(contract, zzEvmProgram(0, 0))
	}
	slot := make([]byte, 32)
	seven := make([]byte, 32)
	seven[31] = 7
	exec.ledger.SetState(contract, slot, seven, nil)
	exec.ledger.SetState(constant.InterchainContractAddr.Address(), []byte("bitxhub-id"), []byte("1356"), nil)
	accounts, root := exec.ledger.FlushDirtyData()
	_ = exec.ledger.StateLedger.Commit(1, accounts, root)
	exec.ledger.PrepareBlock(zzHash(2), 2)
	exec.evm = newEvm(2, 1, exec.evmChainCfg, exec.ledger.StateLedger, exec.ledger.ChainLedger, exec.admins[0], exec.evmMaxSize)
	exec.txsExecutor.ApplyTransactions(nil, nil)
	content := &pb.Content{Func: "f", Args: [][]byte{{1, 2, 3, 4}}}
	if zz.Choice("emptyArgs", 2) == 1 {
		content.Args = nil
	}
	cdata, _ := content.Marshal()
	ibtp := &pb.IBTP{From: "1356:chA:sA", To: "1356:1356:" + zzEvmContract, Index: 1, Type: pb.IBTP_INTERCHAIN, Payload: cdata}
	data, _ := ibtp.Marshal()
	method := []string{"InvokeInterchain", "InvokeReceipt"}[zz.Choice("entry", 2)]
	tx := zzBvmTx(zzUsers[0], 0, constant.InterBrokerContractAddr.Address().String(), 0, method, pb.Bytes(data))
	tx.Signature = make([]byte, 66) // a signed transaction: type flag + 65 signature bytes (content irrelevant here)
	var receipt *pb.Receipt
	crashed, _ := zz.Crashed(func() { receipt = exec.applyTx(0, tx, "", nil) })
	zz.Assert("C08.broker.block-execution-survives", !crashed)
	if crashed || receipt == nil {
		return
	}
	zz.Observe("ret", string(receipt.Ret))
	zz.Cover("C08.broker.accepted", receipt.Status == pb.Receipt_SUCCESS)
	if receipt.Status == pb.Receipt_FAILED {
		ok, v := exec.ledger.GetState(contract, slot)
		zz.Assert("C07.broker.failed-transaction-leaves-evm-storage", ok && len(v) == 32 && v[31] == 7)
	}
}

// ZZH_C08_malformed_ibtp_ids: a block with one IBTP transaction whose source or destination id is
// malformed (empty, no colon, too few or too many segments, only separators, a dash inside), as a
// request or as a receipt, goes through the real processExecuteEvent: the block is executed and
// committed with the next height, the transaction has its receipt.
func ZZH_C08_malformed_ibtp_ids() {
	exec := zzNewExec(1, big.NewInt(0))
	exec.ibtpVerify = &zzStubVerify{verdict: make([]uint8, 8), seen: make([]int, 8)}
	exec.config.ProofType = "serial"
	zzInterchainWorld(exec)
	exec.processExecuteEvent(zzBlockOf(1, nil))
	ids := []string{"", "not-a-service-id", "1356", "a:b", "a:b:c:d", ":::", "1356:chB:s-B", "1356:chB:sB"}
	tx := zzRequestTx(1, 0, 0)
	which := zz.Choice("field", 2)
	bad := ids[zz.Choice("id", len(ids))]
	if which == 0 {
		tx.IBTP.To = bad
	} else {
		tx.IBTP.From = bad
	}
	if zz.Choice("receipt", 2) == 1 {
		tx.IBTP.Type = pb.IBTP_RECEIPT_SUCCESS
	}
	crashed, _ := zz.Crashed(func() { exec.processExecuteEvent(zzBlockOf(2, []pb.Transaction{tx})) })
	zz.Assert("C08.ids.block-executes", !crashed)
	if crashed {
		return
	}
	zz.Assert("C08.ids.committed-with-the-next-height", exec.ledger.GetChainMeta().Height == 2)
	r, e := exec.ledger.GetReceipt(tx.GetHash())
	zz.Assert("C08.ids.one-receipt", e == nil && r != nil)
}
