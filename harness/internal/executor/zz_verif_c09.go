//go:build verif

package executor

import (
	"github.com/cbergoon/merkletree"
	"bytes"
	"encoding/json"
	"math/big"

	"github.com/meshplus/bitxhub-model/constant"
	"github.com/meshplus/bitxhub/internal/executor/contracts"

	"github.com/meshplus/bitxhub-core/agency"
	"github.com/meshplus/bitxhub-kit/types"
	"github.com/meshplus/bitxhub-model/pb"
	zz "github.com/meshplus/bitxhub/internal/zzverif"
)

func zzTransferTx(from, to string, nonce uint64, hashN int, amount string) *pb.BxhTransaction {
	td := &pb.TransactionData{Type: pb.TransactionData_NORMAL, Amount: amount}
	tdb, _ := td.Marshal()
	return &pb.BxhTransaction{From: zzAddr(from), To: zzAddr(to), Payload: tdb, Nonce: nonce, TransactionHash: zzHash(hashN), Timestamp: 1}
}

func zzBlockOf(h uint64, txs []pb.Transaction) *BlockWrapper {
	return &BlockWrapper{
		block: &pb.Block{
			BlockHeader:  &pb.BlockHeader{Number: h, Timestamp: int64(100 + h), Version: []byte("1.0.0")},
			Transactions: &pb.Transactions{Transactions: txs},
		},
		invalidTx: map[int]agency.InvalidReason{},
	}
}

// ZZH_C09_link: two consecutive blocks with 0..2 transfer transactions (symbolic balances)
// go through the real processExecuteEvent (verifyProofs, ApplyTransactions, Merkle roots, timeout
// bookkeeping, FlushDirtyData, block hash, PersistBlockData). The stored chain is hash-linked,
// the header commits to the recomputed roots, every transaction has exactly one receipt in
// block order and the height advances by one (C08).
// zz:also C08 C01 C10
func ZZH_C09_link() {
	exec := zzNewExec(1, big.NewInt(0))
	exec.ibtpVerify = &zzStubVerify{verdict: make([]uint8, 4), seen: make([]int, 4)}
	exec.config.ProofType = "serial"
	zzSetBalance(exec, zzUsers[0], "bal")
	acc, root := exec.ledger.FlushDirtyData()
	_ = exec.ledger.StateLedger.Commit(0, acc, root)
	var prevHash *types.Hash = exec.currentBlockHash
	hashN := 0
	for h := uint64(1); h <= 2; h++ {
		n := zz.Choice("ntx", 3)
		var txs []pb.Transaction
		for i := 0; i < n && hashN < 3; i++ {
			amt := []string{"0", "5", "x"}[zz.Choice("amount", 3)]
			txs = append(txs, zzTransferTx(zzUsers[0], zzUsers[1], uint64(hashN), hashN, amt))
			hashN++
		}
		bw := zzBlockOf(h, txs)
		crashed, _ := zz.Crashed(func() { exec.processExecuteEvent(bw) })
		zz.Assert("C08.block-executes", !crashed)
		if crashed {
			return
		}
		zz.Assert("C08.height+1", exec.currentHeight == h)
		stored, err := exec.ledger.GetBlock(h, true)
		zz.Assert("C09.link.stored", err == nil)
		zz.Assert("C09.link.parent", stored.BlockHeader.ParentHash.String() == prevHash.String())
		zz.Assert("C09.link.hash-of-header", stored.BlockHash.String() == stored.Hash().String())
		zzCheckStoredRoots(exec, h)
		var rs []*pb.Receipt
		for _, tx := range txs {
			r, e := exec.ledger.GetReceipt(tx.GetHash())
			zz.Assert("C08.one-receipt-per-tx", e == nil && r.TxHash.String() == tx.GetHash().String())
			rs = append(rs, r)
		}
		_ = rs
		zz.Assert("C09.link.meta", exec.ledger.GetChainMeta().Height == h && exec.ledger.GetChainMeta().BlockHash.String() == stored.BlockHash.String())
		zz.Assert("C01.clock-not-in-header", stored.BlockHeader.Timestamp == int64(100+h))
		prevHash = stored.BlockHash
	}
}

// ZZH_C05_group_timeout: a one-to-many group (two children with symbolic statuses BEGIN or
// SUCCESS) reaches its timeout height; the block goes through the real processExecuteEvent.
// The source chain is told to roll back every child, every destination chain holding an
// already-succeeded child is told to roll that child back, all statuses become BEGIN_ROLLBACK,
// and the outcome does not depend on map iteration order (C01).
// zz:also C06 C01
func ZZH_C05_group_timeout() {
	exec := zzNewExec(1, big.NewInt(0))
	exec.ibtpVerify = &zzStubVerify{verdict: make([]uint8, 1), seen: make([]int, 1)}
	tm := constant.TransactionMgrContractAddr.Address()
	gid := "0xGLOBALGROUPID"
	kids := []string{"1356:chA:s1-1356:chB:s2-1", "1356:chA:s1-1356:chC:s3-1"}
	sts := []pb.TransactionStatus{}
	info := contracts.TransactionInfo{GlobalState: pb.TransactionStatus_BEGIN, Height: 1, ChildTxInfo: map[string]pb.TransactionStatus{}, ChildTxCount: 2}
	for _, k := range kids {
		s := pb.TransactionStatus(zz.I32("child"))
		zz.Assume(zz.Or(s == pb.TransactionStatus_BEGIN, s == pb.TransactionStatus_SUCCESS))
		info.ChildTxInfo[k] = s
		sts = append(sts, s)
	}
	data, _ := json.Marshal(info)
	exec.ledger.SetState(tm, []byte(contracts.GlobalTxInfoKey(gid)), data, nil)
	exec.ledger.SetState(tm, []byte(contracts.TimeoutKey(1)), []byte(gid), nil)
	zz.PermuteMaps(true)
	crashed, _ := zz.Crashed(func() { exec.processExecuteEvent(zzBlockOf(1, nil)) })
	zz.PermuteMaps(false)
	zz.Assert("C05.timeout.block-executes", !crashed)
	im, err := exec.ledger.GetInterchainMeta(1)
	zz.Assert("C05.timeout.meta", err == nil)
	has := func(chain, id string) int {
		n := 0
		if sl, ok := im.TimeoutCounter[chain]; ok {
			for _, x := range sl.Slice {
				if x == id {
					n++
				}
			}
		}
		return n
	}
	dsts := []string{"chB", "chC"}
	for i, k := range kids {
		zz.Assert("C05.timeout.source-told-every-child", has("chA", k) == 1)
		if sts[i] == pb.TransactionStatus_SUCCESS {
			zz.Assert("C05.timeout.dst-told-succeeded-child", has(dsts[i], k) == 1)
		} else {
			zz.Assert("C05.timeout.dst-not-told-pending-child", has(dsts[i], k) == 0)
		}
	}
	var post contracts.TransactionInfo
	ok, v := exec.ledger.GetState(tm, []byte(contracts.GlobalTxInfoKey(gid)))
	zz.Assert("C05.timeout.info", ok && json.Unmarshal(v, &post) == nil)
	zz.Assert("C05.timeout.global-begin-rollback", post.GlobalState == pb.TransactionStatus_BEGIN_ROLLBACK)
	for _, k := range kids {
		zz.Assert("C05.timeout.child-begin-rollback", post.ChildTxInfo[k] == pb.TransactionStatus_BEGIN_ROLLBACK)
	}
	// the header's timeout root commits to exactly the per-chain roots stored in the block's
	// metadata, in their stored (canonical) order - whatever order the chains were visited in (C01)
	blk, errB := exec.ledger.GetBlock(1, false)
	zz.Assert("C05.timeout.block-stored", errB == nil)
	if errB == nil {
		var leaves []merkletree.Content
		for i := range im.TimeoutL2Roots {
			r := im.TimeoutL2Roots[i]
			leaves = append(leaves, &r)
		}
		for i := 1; i < len(im.TimeoutL2Roots); i++ {
			zz.Assert("C01.timeout-l2-roots-canonical-order", bytes.Compare(im.TimeoutL2Roots[i-1].Bytes(), im.TimeoutL2Roots[i].Bytes()) < 0)
		}
		zz.Assert("C01.timeout-root-commits-to-the-stored-per-chain-roots", blk.BlockHeader.TimeoutRoot.String() == zzRefRoot(leaves).String())
	}
	// determinism of the list order (C01): the source list is in a canonical order
	if sl, ok := im.TimeoutCounter["chA"]; ok && len(sl.Slice) == 2 {
		zz.Assert("C01.timeout-children-canonical-order", sl.Slice[0] < sl.Slice[1])
	}
}

// ZZH_C09_reexecute: blocks 1..3 are executed, then consensus delivers a different block for a
// height N <= head (N = 2 or 3): the executor rolls ledger and itself back to N-1 and
// executes the new block N. Afterwards the stored chain up to N is still hash-linked (in
// particular block N's parent is the stored block N-1, not a removed one), the head is N, and no
// lookup returns anything above N.
// zz:also C12 C08
func ZZH_C09_reexecute() {
	exec := zzNewExec(1, big.NewInt(0))
	exec.ibtpVerify = &zzStubVerify{verdict: make([]uint8, 8), seen: make([]int, 8)}
	exec.config.ProofType = "serial"
	exec.ledger.SetBalance(zzAddr(zzUsers[0]), big.NewInt(1000))
	acc, root := exec.ledger.FlushDirtyData()
	_ = exec.ledger.StateLedger.Commit(0, acc, root)
	genesisHash := exec.currentBlockHash
	nonce := uint64(0)
	for h := uint64(1); h <= 3; h++ {
		var txs []pb.Transaction
		if zz.Choice("withTx", 2) == 1 {
			txs = append(txs, zzTransferTx(zzUsers[0], zzUsers[1], nonce, 0, "5"))
			nonce++
		}
		exec.processExecuteEvent(zzBlockOf(h, txs))
	}
	zz.Assert("C09.reexec.setup", exec.currentHeight == 3)
	// clients looked the old blocks' transactions and receipts up before the fork
	oldHash := zzHash(0)
	oldSeen := false
	if r, err := exec.ledger.GetReceipt(oldHash); err == nil && r != nil {
		oldSeen = true
		_, _ = exec.ledger.GetTransaction(oldHash)
	}
	n := uint64(2 + zz.Choice("forkHeight", 2)) // (height 1 is the genesis block on a real chain)
	fork := zzBlockOf(n, []pb.Transaction{zzTransferTx(zzUsers[0], zzUsers[1], 0, 1, "7")})
	fork.block.BlockHeader.Timestamp = 999
	crashed, _ := zz.Crashed(func() { exec.processExecuteEvent(fork) })
	zz.Assert("C08.block-executes", !crashed)
	if crashed {
		return
	}
	zz.Assert("C09.reexec.head", exec.currentHeight == n && exec.ledger.GetChainMeta().Height == n)
	prev := genesisHash
	for h := uint64(1); h <= n; h++ {
		b, err := exec.ledger.GetBlock(h, true)
		zz.Assert("C09.reexec.stored", err == nil)
		zz.Assert("C09.reexec.parent-is-stored-predecessor", b.BlockHeader.ParentHash.String() == prev.String())
		zz.Assert("C09.reexec.hash-of-header", b.BlockHash.String() == b.Hash().String())
		prev = b.BlockHash
	}
	zz.Assert("C09.reexec.meta-hash", exec.ledger.GetChainMeta().BlockHash.String() == prev.String() && exec.currentBlockHash.String() == prev.String())
	for h := n + 1; h <= 3; h++ {
		_, err := exec.ledger.GetBlock(h, false)
		zz.Assert("C09.reexec.nothing-above-head", err != nil)
	}
	// lookups by transaction hash describe the re-executed chain: the new block's transaction has its
	// own receipt, a transaction that only lived in a removed block is gone
	newHash := zzHash(1)
	nr, nerr := exec.ledger.GetReceipt(newHash)
	zz.Assert("C09.reexec.new-receipt", nerr == nil && nr.TxHash.String() == newHash.String())
	meta, merr := exec.ledger.GetTransactionMeta(newHash)
	zz.Assert("C09.reexec.new-tx-position", merr == nil && meta.BlockHeight == n && meta.Index == 0)
	_ = oldSeen
	// the new block's transfer (7) is applied on top of the state of block N-1
	zz.Cover("C09.reexec.deep-rollback", n == 2)
}

// ZZH_C08_timeout_ids: the timeout list of the block's height holds entries that are not
// well-formed transaction ids of known records - pieces produced by a service id that contains a
// comma or a dash, an empty entry, a group id without a record, a well-formed id without a record.
// The block still executes through the real processExecuteEvent: no crash, next height committed.
func ZZH_C08_timeout_ids() {
	exec := zzNewExec(1, big.NewInt(0))
	exec.ibtpVerify = &zzStubVerify{verdict: make([]uint8, 1), seen: make([]int, 1)}
	tm := constant.TransactionMgrContractAddr.Address()
	lists := []string{
		"",
		",",
		"1356:chA:s,1-1356:chB:s2-1", // service id with a comma: the list splits inside the id
		"1356:chA:s-1-1356:chB:s2-1", // service id with a dash
		"1356:chA:s1-1356:chB:s2-1",  // well formed, but no record
		"0xGLOBALGROUPID",            // looks like a group id, no record
		"1356:chA:s1-1356:chB:s2-x",  // index is not a number
		"nodashes",
		"1356:chA:s1-1356:chB:s2-1,1356:chA:s1-1356:chB:s2-1", // the same id twice
	}
	exec.ledger.SetState(tm, []byte(contracts.TimeoutKey(1)), []byte(lists[zz.Choice("timeoutList", len(lists))]), nil)
	if zz.Choice("withRecord", 2) == 1 {
		rec := pb.TransactionRecord{Status: pb.TransactionStatus_BEGIN, Height: 1}
		b, _ := rec.Marshal()
		exec.ledger.SetState(tm, []byte(contracts.TxInfoKey("1356:chA:s1-1356:chB:s2-1")), b, nil)
	}
	crashed, _ := zz.Crashed(func() { exec.processExecuteEvent(zzBlockOf(1, nil)) })
	zz.Assert("C08.timeout-ids.block-executes", !crashed)
	zz.Assert("C08.timeout-ids.height+1", crashed || (exec.currentHeight == 1 && exec.ledger.GetChainMeta().Height == 1))
}
