//go:build verif

package executor

import (
	"github.com/meshplus/bitxhub-kit/types"
	"github.com/meshplus/bitxhub-model/pb"
)

// zzTx is a minimal pb.Transaction for functions that only need the sender.
type zzTx struct {
	pb.BxhTransaction
	from *types.Address
}

func (t *zzTx) GetFrom() *types.Address { return t.from }
