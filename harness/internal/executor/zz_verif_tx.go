//go:build verif

package executor

import (
	"fmt"

	"github.com/meshplus/bitxhub-kit/types"
	"github.com/meshplus/bitxhub-model/pb"
)

// zzTx is a minimal pb.Transaction for functions that only need the sender.
type zzTx struct {
	pb.BxhTransaction
	from *types.Address
}

func (t *zzTx) GetFrom() *types.Address { return t.from }

// zzSigTx is a transfer whose signature check has a harness-chosen outcome.
type zzSigTx struct {
	pb.BxhTransaction
	bad bool
}

func (t *zzSigTx) VerifySignature() error {
	if t.bad {
		return fmt.Errorf("invalid signature")
	}
	return nil
}
