//go:build verif

package contracts

import (
	appchainMgr "github.com/meshplus/bitxhub-core/appchain-mgr"
	"github.com/meshplus/bitxhub-core/governance"
	nodemgr "github.com/meshplus/bitxhub-core/node-mgr"
	service_mgr "github.com/meshplus/bitxhub-core/service-mgr"
	zz "github.com/meshplus/bitxhub/internal/zzverif"
)

var zzAllStatuses = []governance.GovernanceStatus{
	governance.GovernanceRegisting, governance.GovernanceAvailable, governance.GovernanceUnavailable, governance.GovernanceUpdating,
	governance.GovernanceFreezing, governance.GovernanceActivating, governance.GovernanceFrozen, governance.GovernanceLogouting,
	governance.GovernanceBinding, governance.GovernanceUnbinding, governance.GovernanceBindable, governance.GovernanceBinded,
	governance.GovernanceForbidden, governance.GovernanceTransferring, governance.GovernancePause, governance.GovernanceTransferred,
}

var zzAllEvents = []governance.EventType{
	governance.EventRegister, governance.EventUpdate, governance.EventFreeze, governance.EventActivate, governance.EventLogout,
	governance.EventApprove, governance.EventReject, governance.EventBind, governance.EventUnbind, governance.EventTransfer,
	governance.EventPause, governance.EventUnpause, governance.EventCLear,
}

func zzPickStatus(name string) governance.GovernanceStatus {
	i := zz.U8(name)
	zz.Assume(int(i) < len(zzAllStatuses))
	return zzAllStatuses[i]
}

func zzPickEvent(name string) governance.EventType {
	i := zz.U8(name)
	zz.Assume(int(i) < len(zzAllEvents))
	return zzAllEvents[i]
}

// in-progress statuses are the only ones from which approve / reject may act
func zzInProgress(s governance.GovernanceStatus) bool {
	switch s {
	case governance.GovernanceRegisting, governance.GovernanceUpdating, governance.GovernanceFreezing, governance.GovernanceActivating,
		governance.GovernanceLogouting, governance.GovernanceBinding, governance.GovernanceUnbinding, governance.GovernanceTransferring:
		return true
	}
	return false
}

// zzLifecycleStep checks one status change of a governed object against the rules of the
// statement: forbidden (logged out) is absorbing; approve/reject only conclude an operation in
// progress; an approved logout ends in forbidden; a transition never invents a status.
func zzLifecycleStep(kind string, pre, last governance.GovernanceStatus, ev governance.EventType, ok bool, post governance.GovernanceStatus) {
	zz.Cover("C16."+kind+".changed", ok)
	zz.Assert("C16."+kind+".refused-no-change", ok || post == pre)
	zz.Assert("C16."+kind+".forbidden-absorbing", pre != governance.GovernanceForbidden || (!ok && post == pre))
	if ev == governance.EventApprove || ev == governance.EventReject {
		zz.Assert("C16."+kind+".decision-needs-operation-in-progress", !ok || zzInProgress(pre))
	}
	if ok && ev == governance.EventApprove && pre == governance.GovernanceLogouting {
		zz.Assert("C16."+kind+".approved-logout-is-final", post == governance.GovernanceForbidden)
	}
	if ok && ev == governance.EventReject {
		// a rejected operation returns to the state before it (or a declared fallback), never to a new operation
		zz.Assert("C16."+kind+".reject-goes-back", !zzInProgress(post) || post == last)
	}
	known := false
	for _, s := range zzAllStatuses {
		if s == post {
			known = true
		}
	}
	zz.Assert("C16."+kind+".declared-status", known)
}

func ZZH_C16_fsm_service() {
	w := zzNewWorld()
	pre, last, ev := zzPickStatus("status"), zzPickStatus("lastStatus"), zzPickEvent("event")
	id := "chA:s1"
	w.putObj(zzServiceAddr, service_mgr.ServiceKey(id), service_mgr.Service{ChainID: "chA", ServiceID: "s1", Status: pre, Permission: map[string]struct{}{}})
	sm := service_mgr.New(w.stubFor(zzServiceAddr, ""))
	ok, _ := sm.ChangeStatus(id, string(ev), string(last), nil)
	var post service_mgr.Service
	w.getObj(zzServiceAddr, service_mgr.ServiceKey(id), &post)
	zzLifecycleStep("service", pre, last, ev, ok, post.Status)
	// interchange needs an available (or still-freezing) service
	zz.Assert("C16.service.available-means-usable", post.IsAvailable() == (post.Status == governance.GovernanceAvailable || post.Status == governance.GovernanceFreezing))
}

func ZZH_C16_fsm_appchain() {
	w := zzNewWorld()
	pre, last, ev := zzPickStatus("status"), zzPickStatus("lastStatus"), zzPickEvent("event")
	id := "chA"
	w.putObj(zzAppchainAddr, appchainMgr.AppchainKey(id), appchainMgr.Appchain{ID: id, Status: pre})
	am := appchainMgr.New(w.stubFor(zzAppchainAddr, ""))
	ok, _ := am.ChangeStatus(id, string(ev), string(last), nil)
	var post appchainMgr.Appchain
	w.getObj(zzAppchainAddr, appchainMgr.AppchainKey(id), &post)
	zzLifecycleStep("appchain", pre, last, ev, ok, post.Status)
}

func ZZH_C16_fsm_node() {
	w := zzNewWorld()
	pre, last, ev := zzPickStatus("status"), zzPickStatus("lastStatus"), zzPickEvent("event")
	id := "0xNode1"
	w.putObj(zzNodeAddr, nodemgr.NodeKey(id), nodemgr.Node{Account: id, NodeType: nodemgr.VPNode, Status: pre})
	nm := nodemgr.New(w.stubFor(zzNodeAddr, ""))
	ok, _ := nm.ChangeStatus(id, string(ev), string(last), nil)
	var post nodemgr.Node
	w.getObj(zzNodeAddr, nodemgr.NodeKey(id), &post)
	zzLifecycleStep("node", pre, last, ev, ok, post.Status)
}

func ZZH_C16_fsm_role() {
	w := zzNewWorld()
	pre, last, ev := zzPickStatus("status"), zzPickStatus("lastStatus"), zzPickEvent("event")
	id := "0xRole1"
	w.putObj(zzRoleAddr, RoleKey(id), Role{ID: id, RoleType: GovernanceAdmin, Weight: 1, Status: pre})
	rm := &RoleManager{Stub: w.stubFor(zzRoleAddr, "")}
	ok, _ := rm.changeStatus(id, string(ev), string(last))
	var post Role
	w.getObj(zzRoleAddr, RoleKey(id), &post)
	zzLifecycleStep("role", pre, last, ev, ok, post.Status)
}
