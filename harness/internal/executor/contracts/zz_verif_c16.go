//go:build verif

package contracts

import (
	"encoding/json"

	"github.com/iancoleman/orderedmap"

	appchainMgr "github.com/meshplus/bitxhub-core/appchain-mgr"
	"github.com/meshplus/bitxhub-core/governance"
	nodemgr "github.com/meshplus/bitxhub-core/node-mgr"
	ruleMgr "github.com/meshplus/bitxhub-core/rule-mgr"
	service_mgr "github.com/meshplus/bitxhub-core/service-mgr"
	"github.com/meshplus/bitxhub-model/pb"
	zz "github.com/meshplus/bitxhub/internal/zzverif"
)

var zzAllStatuses = []governance.GovernanceStatus{
	governance.GovernanceRegisting, governance.GovernanceAvailable, governance.GovernanceUnavailable, governance.GovernanceUpdating,
	governance.GovernanceFreezing, governance.GovernanceActivating, governance.GovernanceFrozen, governance.GovernanceLogouting,
	governance.GovernanceBinding, governance.GovernanceUnbinding, governance.GovernanceBindable, governance.GovernanceBinded,
	governance.GovernanceForbidden, governance.GovernanceTransferring, governance.GovernancePause, governance.GovernanceTransferred,
}

var zzAllEvents = []governance.EventType{
	governance.EventRegister, governance.EventUpdate, governance.EventFreeze, governance.EventActivate, governance.EventLogout,
	governance.EventApprove, governance.EventReject, governance.EventBind, governance.EventUnbind, governance.EventTransfer,
	governance.EventPause, governance.EventUnpause, governance.EventCLear,
}

func zzPickStatus(name string) governance.GovernanceStatus {
	i := zz.U8(name)
	zz.Assume(int(i) < len(zzAllStatuses))
	return zzAllStatuses[i]
}

func zzPickEvent(name string) governance.EventType {
	i := zz.U8(name)
	zz.Assume(int(i) < len(zzAllEvents))
	return zzAllEvents[i]
}

// in-progress statuses are the only ones from which approve / reject may act
func zzInProgress(s governance.GovernanceStatus) bool {
	switch s {
	case governance.GovernanceRegisting, governance.GovernanceUpdating, governance.GovernanceFreezing, governance.GovernanceActivating,
		governance.GovernanceLogouting, governance.GovernanceBinding, governance.GovernanceUnbinding, governance.GovernanceTransferring:
		return true
	}
	return false
}

// zzLifecycleStep checks one status change of a governed object against the rules of the
// statement: forbidden (logged out) is absorbing; approve/reject only conclude an operation in
// progress; an approved logout ends in forbidden; a transition never invents a status.
func zzLifecycleStep(kind string, pre, last governance.GovernanceStatus, ev governance.EventType, ok bool, post governance.GovernanceStatus) {
	zz.Cover("C16."+kind+".changed", ok)
	zz.Assert("C16."+kind+".refused-no-change", ok || post == pre)
	zz.Assert("C16."+kind+".forbidden-absorbing", pre != governance.GovernanceForbidden || (!ok && post == pre))
	if ev == governance.EventApprove || ev == governance.EventReject {
		zz.Assert("C16."+kind+".decision-needs-operation-in-progress", !ok || zzInProgress(pre))
	}
	if ok && ev == governance.EventApprove && pre == governance.GovernanceLogouting {
		zz.Assert("C16."+kind+".approved-logout-is-final", post == governance.GovernanceForbidden)
	}
	if ok && ev == governance.EventReject {
		// a rejected operation returns to the state before it (or a declared fallback), never to a new operation
		zz.Assert("C16."+kind+".reject-goes-back", !zzInProgress(post) || post == last)
	}
	known := false
	for _, s := range zzAllStatuses {
		if s == post {
			known = true
		}
	}
	zz.Assert("C16."+kind+".declared-status", known)
}

func ZZH_C16_fsm_service() {
	w := zzNewWorld()
	pre, last, ev := zzPickStatus("status"), zzPickStatus("lastStatus"), zzPickEvent("event")
	id := "chA:s1"
	w.putObj(zzServiceAddr, service_mgr.ServiceKey(id), service_mgr.Service{ChainID: "chA", ServiceID: "s1", Status: pre, Permission: map[string]struct{}{}})
	sm := service_mgr.New(w.stubFor(zzServiceAddr, ""))
	ok, _ := sm.ChangeStatus(id, string(ev), string(last), nil)
	var post service_mgr.Service
	w.getObj(zzServiceAddr, service_mgr.ServiceKey(id), &post)
	zzLifecycleStep("service", pre, last, ev, ok, post.Status)
	// interchange needs an available (or still-freezing) service
	zz.Assert("C16.service.available-means-usable", post.IsAvailable() == (post.Status == governance.GovernanceAvailable || post.Status == governance.GovernanceFreezing))
}

func ZZH_C16_fsm_appchain() {
	w := zzNewWorld()
	pre, last, ev := zzPickStatus("status"), zzPickStatus("lastStatus"), zzPickEvent("event")
	id := "chA"
	w.putObj(zzAppchainAddr, appchainMgr.AppchainKey(id), appchainMgr.Appchain{ID: id, Status: pre})
	am := appchainMgr.New(w.stubFor(zzAppchainAddr, ""))
	ok, _ := am.ChangeStatus(id, string(ev), string(last), nil)
	var post appchainMgr.Appchain
	w.getObj(zzAppchainAddr, appchainMgr.AppchainKey(id), &post)
	zzLifecycleStep("appchain", pre, last, ev, ok, post.Status)
}

func ZZH_C16_fsm_node() {
	w := zzNewWorld()
	pre, last, ev := zzPickStatus("status"), zzPickStatus("lastStatus"), zzPickEvent("event")
	id := "0xNode1"
	w.putObj(zzNodeAddr, nodemgr.NodeKey(id), nodemgr.Node{Account: id, NodeType: nodemgr.VPNode, Status: pre})
	nm := nodemgr.New(w.stubFor(zzNodeAddr, ""))
	ok, _ := nm.ChangeStatus(id, string(ev), string(last), nil)
	var post nodemgr.Node
	w.getObj(zzNodeAddr, nodemgr.NodeKey(id), &post)
	zzLifecycleStep("node", pre, last, ev, ok, post.Status)
}

func ZZH_C16_fsm_role() {
	w := zzNewWorld()
	pre, last, ev := zzPickStatus("status"), zzPickStatus("lastStatus"), zzPickEvent("event")
	id := "0xRole1"
	w.putObj(zzRoleAddr, RoleKey(id), Role{ID: id, RoleType: GovernanceAdmin, Weight: 1, Status: pre})
	rm := &RoleManager{Stub: w.stubFor(zzRoleAddr, "")}
	ok, _ := rm.changeStatus(id, string(ev), string(last))
	var post Role
	w.getObj(zzRoleAddr, RoleKey(id), &post)
	zzLifecycleStep("role", pre, last, ev, ok, post.Status)
}

// ZZH_C16_service_manage: the governance contract concludes a service proposal through the
// real ServiceManager.Manage (real AppchainManager, InterchainManager, Governance behind
// CrossInvoke). The owning appchain's status is symbolic: it may have been frozen / logged out
// / put under update while the service proposal was open. Afterwards the stored service - and
// the copy announced to the executor's cache - is usable for interchange only if the appchain is
// available too: an approved registration under an unavailable chain ends paused.
func ZZH_C16_service_manage() {
	w, cs := zzFullWorld()
	w.audit = zz.Choice("audit", 2) == 1
	chainStatus := []governance.GovernanceStatus{governance.GovernanceAvailable, governance.GovernanceFrozen, governance.GovernanceUpdating,
		governance.GovernanceFreezing, governance.GovernanceLogouting, governance.GovernanceForbidden}[zz.Choice("chainStatus", 6)]
	w.putObj(zzAppchainAddr, appchainMgr.AppchainKey("chA"), appchainMgr.Appchain{ID: "chA", ChainName: "chA", ChainType: "fabric", Status: chainStatus})
	chain := appchainMgr.Appchain{Status: chainStatus}
	id := "chA:late"
	var ev governance.EventType
	var pre, last governance.GovernanceStatus
	switch zz.Choice("operation", 2) {
	case 0:
		ev, pre, last = governance.EventRegister, governance.GovernanceRegisting, governance.GovernanceUnavailable
	default:
		ev, pre, last = governance.EventLogout, governance.GovernanceLogouting, governance.GovernanceAvailable
	}
	w.putObj(zzServiceAddr, service_mgr.ServiceKey(id), service_mgr.Service{ChainID: "chA", ServiceID: "late", Name: "late", Type: service_mgr.ServiceCallContract,
		Ordered: true, Permission: map[string]struct{}{}, Status: pre})
	result := []string{string(APPROVED), string(REJECTED)}[zz.Choice("result", 2)]
	_, err := zzInvoke(w, cs[zzServiceAddr], zzServiceAddr, zzGovAddr, "Manage",
		[]*pb.Arg{pb.String(string(ev)), pb.String(result), pb.String(string(last)), pb.String(id), pb.Bytes(nil)})
	zz.Cover("C16.manage.done", err == nil)
	if err != nil {
		return
	}
	var post service_mgr.Service
	found := w.getObj(zzServiceAddr, service_mgr.ServiceKey(id), &post)
	zz.Assert("C16.manage.service-stored", found)
	zz.Cover("C16.manage.ends-available", post.IsAvailable())
	zz.Cover("C16.manage.ends-paused", post.Status == governance.GovernancePause)
	zz.Assert("C16.manage.usable-only-under-available-chain", !post.IsAvailable() || chain.IsAvailable())
	if ev == governance.EventRegister && result == string(APPROVED) {
		want := governance.GovernanceAvailable
		if !chain.IsAvailable() {
			want = governance.GovernancePause
		}
		zz.Assert("C16.manage.approved-registration-status", post.Status == want)
	}
	// the announced copy (what a running node caches) says the same as the stored one
	for _, e := range w.events {
		if e.typ == pb.Event_SERVICE {
			s := &service_mgr.Service{}
			if json.Unmarshal(e.data, s) == nil && s.ChainID == "chA" && s.ServiceID == "late" {
				zz.Assert("C16.manage.announced-equals-stored", s.Status == post.Status)
			}
		}
	}
}

// ZZH_C03_rule_update: the governance contract concludes an "update master rule" proposal through
// the real RuleManager.Manage. Pre-state as the real UpdateMasterRule leaves it: old master M
// unbinding, new rule N binding (either list order; optionally a third, bindable rule). Whatever
// the verdict, afterwards exactly one rule of the chain is available, it carries the master flag,
// it is N after an approval and still M after a rejection, and the other returns to bindable -
// so the proof pool (first available rule of the chain's list) validates with the bound master.
// zz:also C16
func ZZH_C03_rule_update() {
	w, cs := zzFullWorld()
	w.audit = zz.Choice("audit", 2) == 1
	M := &ruleMgr.Rule{Address: "0xM000000000000000000000000000000000000001", ChainID: "chA", Master: true, Status: governance.GovernanceUnbinding}
	N := &ruleMgr.Rule{Address: "0xN000000000000000000000000000000000000002", ChainID: "chA", Master: false, Status: governance.GovernanceBinding, Default: zz.Choice("newIsBuiltin", 2) == 1}
	X := &ruleMgr.Rule{Address: "0xX000000000000000000000000000000000000003", ChainID: "chA", Status: governance.GovernanceBindable}
	var rules []*ruleMgr.Rule
	switch zz.Choice("listOrder", 3) {
	case 0:
		rules = []*ruleMgr.Rule{M, N}
	case 1:
		rules = []*ruleMgr.Rule{N, M}
	default:
		rules = []*ruleMgr.Rule{N, X, M}
	}
	w.putObj(zzRuleAddr, ruleMgr.RuleKey("chA"), rules)
	w.putObj(zzAppchainAddr, appchainMgr.AppchainKey("chA"), appchainMgr.Appchain{ID: "chA", ChainName: "chA", ChainType: "fabric", Status: governance.GovernanceFrozen})
	oldInfo := *M
	oldInfo.Status = governance.GovernanceAvailable // the status recorded when the proposal was submitted
	newInfo := *N
	newInfo.Status = governance.GovernanceBindable
	extra, _ := json.Marshal(&UpdateMasterRuleInfo{OldRule: &oldInfo, NewRule: &newInfo,
		AppchainInfo: &appchainMgr.Appchain{ID: "chA", Status: governance.GovernanceAvailable}})
	result := []string{string(APPROVED), string(REJECTED)}[zz.Choice("result", 2)]
	_, err := zzInvoke(w, cs[zzRuleAddr], zzRuleAddr, zzGovAddr, "Manage",
		[]*pb.Arg{pb.String(string(governance.EventUpdate)), pb.String(result), pb.String(string(governance.GovernanceBindable)), pb.String("chA:" + N.Address), pb.Bytes(extra)})
	zz.Assert("C03.rule-update.concludes", err == nil)
	var post []*ruleMgr.Rule
	zz.Assert("C03.rule-update.rules-kept", w.getObj(zzRuleAddr, ruleMgr.RuleKey("chA"), &post) && len(post) == len(rules))
	usable, master := "", ""
	nUsable := 0
	for _, r := range post {
		if r.Status == governance.GovernanceAvailable {
			nUsable++
			if usable == "" {
				usable = r.Address // what VerifyPool.getValidateAddress picks
			}
		}
		if r.Master {
			master = r.Address
		}
	}
	want := M.Address
	if result == string(APPROVED) {
		want = N.Address
	}
	zz.Assert("C03.rule-update.one-usable-rule", nUsable == 1)
	zz.Assert("C03.rule-update.pool-validates-with-bound-master", usable == want && master == want)
	for _, r := range post {
		if r.Address != want {
			zz.Assert("C03.rule-update.other-rule-bindable", r.Status == governance.GovernanceBindable && !r.Master)
		}
	}
}

// ZZH_C16_chain_cascade: an approved freeze or logout of appchain chA goes through the real
// AppchainManager.Manage (cascade into the real ServiceManager / RuleManager / Governance). The
// chain's service has a symbolic status at that moment. Afterwards the service is unusable, and
// it stays unusable whatever service-level operation the chain admin or a governance admin then
// submits and gets approved (activate / unfreeze attempts) while the chain is not available.
// After an approved logout none of the chain's rules - self-deployed or built-in - is usable any more.
// zz:also C03
func ZZH_C16_chain_cascade() {
	w, cs := zzFullWorld()
	w.audit = zz.Choice("audit", 2) == 1
	zzPutGovAdmins(w, 4)
	zzPutChainAdmin(w, "chA", zzChainAdminA)
	sst := []governance.GovernanceStatus{governance.GovernanceAvailable, governance.GovernanceFrozen, governance.GovernanceUpdating,
		governance.GovernanceFreezing, governance.GovernanceActivating, governance.GovernanceLogouting}[zz.Choice("serviceStatus", 6)]
	id := "chA:s7"
	w.putObj(zzServiceAddr, service_mgr.ServiceKey(id), service_mgr.Service{ChainID: "chA", ServiceID: "s7", Name: "s7", Type: service_mgr.ServiceCallContract,
		Ordered: true, Permission: map[string]struct{}{}, Status: sst})
	list := orderedmap.New()
	list.Set(id, struct{}{})
	w.putObj(zzServiceAddr, service_mgr.AppchainServicesKey("chA"), list)
	w.putObj(zzAppchainAddr, appchainMgr.AppchainKey("chA"), appchainMgr.Appchain{ID: "chA", ChainName: "chA", ChainType: "fabric", Status: governance.GovernanceAvailable})
	// the chain's master rule is a self-deployed or a built-in one; a second, bindable rule may exist
	rules := []*ruleMgr.Rule{{Address: "0xM000000000000000000000000000000000000001", ChainID: "chA", Master: true, Default: zz.Choice("masterIsBuiltin", 2) == 1, Status: governance.GovernanceAvailable}}
	if zz.Choice("spareRule", 2) == 1 {
		rules = append(rules, &ruleMgr.Rule{Address: "0xN000000000000000000000000000000000000002", ChainID: "chA", Default: zz.Choice("spareIsBuiltin", 2) == 1, Status: governance.GovernanceBindable})
	}
	w.putObj(zzRuleAddr, ruleMgr.RuleKey("chA"), rules)
	w.putObj(zzAppchainAddr, appchainMgr.AppAdminsChainKey("chA"), []string{zzChainAdminA})
	w.putObj(zzAppchainAddr, appchainMgr.AppchainAdminKey(zzChainAdminA), "chA")
	// the chain operation is submitted through its real entry point (logout pauses the chain's
	// services already at submission) and then approved
	var ev governance.EventType
	var serr error
	last := governance.GovernanceAvailable // the chain's status when the concluded operation was submitted
	if zz.Choice("chainOperation", 2) == 0 {
		ev = governance.EventFreeze
		w.caller = zzAdminIDs[0]
		_, serr = zzInvoke(w, cs[zzAppchainAddr], zzAppchainAddr, zzAdminIDs[0], "FreezeAppchain", []*pb.Arg{pb.String("chA"), pb.String("reason")})
	} else {
		ev = governance.EventLogout
		// the logout may be requested while a freeze of the chain is still being voted on (status freezing)
		if zz.Choice("freezePendingAtLogout", 2) == 1 {
			w.caller = zzAdminIDs[0]
			_, ferr := zzInvoke(w, cs[zzAppchainAddr], zzAppchainAddr, zzAdminIDs[0], "FreezeAppchain", []*pb.Arg{pb.String("chA"), pb.String("reason")})
			zz.Assert("C16.cascade.freeze-submitted", ferr == nil)
			last = governance.GovernanceFreezing
		}
		w.caller = zzChainAdminA
		_, serr = zzInvoke(w, cs[zzAppchainAddr], zzAppchainAddr, zzChainAdminA, "LogoutAppchain", []*pb.Arg{pb.String("chA"), pb.String("reason")})
	}
	zz.Assert("C16.cascade.chain-operation-submitted", serr == nil)
	_, err := zzInvoke(w, cs[zzAppchainAddr], zzAppchainAddr, zzGovAddr, "Manage",
		[]*pb.Arg{pb.String(string(ev)), pb.String(string(APPROVED)), pb.String(string(last)), pb.String("chA"), pb.Bytes(nil)})
	zz.Assert("C16.cascade.chain-operation-concludes", err == nil)
	var chain appchainMgr.Appchain
	w.getObj(zzAppchainAddr, appchainMgr.AppchainKey("chA"), &chain)
	zz.Assert("C16.cascade.chain-unavailable", !chain.IsAvailable())
	svc := func() *service_mgr.Service {
		s := &service_mgr.Service{}
		w.getObj(zzServiceAddr, service_mgr.ServiceKey(id), s)
		return s
	}
	zz.Assert("C16.cascade.service-unusable", !svc().IsAvailable())
	if ev == governance.EventLogout {
		zz.Assert("C16.cascade.logout-clears-service", svc().Status == governance.GovernanceForbidden)
		// (C03) a logged-out appchain has no bound rule left: nothing the proof pool could validate its proofs with
		var after []*ruleMgr.Rule
		w.getObj(zzRuleAddr, ruleMgr.RuleKey("chA"), &after)
		for _, r := range after {
			zz.Assert("C03.cascade.logged-out-chain-has-no-usable-rule", r.Status != governance.GovernanceAvailable)
		}
	}
	// afterwards: somebody entitled tries to bring the service back while the chain is unavailable
	callers := []string{zzChainAdminA, zzAdminIDs[0]}
	caller := callers[zz.Choice("operator", 2)]
	w.caller = caller
	pre := svc().Status
	ret, oerr := zzInvoke(w, cs[zzServiceAddr], zzServiceAddr, caller, "ActivateService", []*pb.Arg{pb.String(id), pb.String("back")})
	zz.Cover("C16.cascade.activate-refused", oerr != nil) // (on correct code the paused / cleared service cannot even be submitted for activation)
	if oerr == nil {
		var gr governance.GovernanceResult
		_ = json.Unmarshal(ret, &gr)
		_, merr := zzInvoke(w, cs[zzServiceAddr], zzServiceAddr, zzGovAddr, "Manage",
			[]*pb.Arg{pb.String(string(governance.EventActivate)), pb.String(string(APPROVED)), pb.String(string(pre)), pb.String(id), pb.Bytes(nil)})
		_ = merr
	}
	zz.Assert("C16.cascade.stays-unusable-under-unavailable-chain", !svc().IsAvailable())
	if ev == governance.EventLogout {
		zz.Assert("C16.cascade.logged-out-is-final", svc().Status == governance.GovernanceForbidden)
	}
}

// ZZH_C16_unpause_appchain: the rule manager ends a master-rule update and calls the real
// AppchainManager.UnPauseAppchain with the status the chain had before the update: available (the
// chain was paused for the update) or frozen (a frozen chain's rule was updated; the chain stays
// frozen). The chain's service was paused by the earlier cascade. Afterwards the service is usable
// only if the chain is available again.
func ZZH_C16_unpause_appchain() {
	w, cs := zzFullWorld()
	w.audit = zz.Choice("audit", 2) == 1
	zzPutGovAdmins(w, 4)
	var cst, last governance.GovernanceStatus
	if zz.Choice("chainWas", 2) == 0 {
		cst, last = governance.GovernanceFrozen, governance.GovernanceAvailable // (pausing an appchain = freezing it)
	} else {
		cst, last = governance.GovernanceFrozen, governance.GovernanceFrozen
	}
	w.putObj(zzAppchainAddr, appchainMgr.AppchainKey("chA"), appchainMgr.Appchain{ID: "chA", ChainName: "chA", ChainType: "fabric", Status: cst})
	id := "chA:s7"
	w.putObj(zzServiceAddr, service_mgr.ServiceKey(id), service_mgr.Service{ChainID: "chA", ServiceID: "s7", Name: "s7", Type: service_mgr.ServiceCallContract,
		Ordered: true, Permission: map[string]struct{}{}, Status: governance.GovernancePause})
	list := orderedmap.New()
	list.Set(id, struct{}{})
	w.putObj(zzServiceAddr, service_mgr.AppchainServicesKey("chA"), list)
	_, err := zzInvoke(w, cs[zzAppchainAddr], zzAppchainAddr, zzRuleAddr, "UnPauseAppchain", []*pb.Arg{pb.String("chA"), pb.String(string(last))})
	zz.Assert("C16.unpause.concludes", err == nil)
	chain := &appchainMgr.Appchain{}
	w.getObj(zzAppchainAddr, appchainMgr.AppchainKey("chA"), chain)
	svc := &service_mgr.Service{}
	w.getObj(zzServiceAddr, service_mgr.ServiceKey(id), svc)
	zz.Assert("C16.unpause.chain-status", chain.Status == last)
	zz.Assert("C16.unpause.service-usable-only-under-available-chain", !svc.IsAvailable() || chain.IsAvailable())
	zz.Cover("C16.unpause.service-back", svc.IsAvailable())
}

// ZZH_C16_logout_rejected: an appchain that is frozen (its services paused by the freeze) asks to
// log out through the real LogoutAppchain and the proposal is REJECTED: the chain goes back to
// frozen, so its services must stay unusable.
func ZZH_C16_logout_rejected() {
	w, cs := zzFullWorld()
	w.audit = zz.Choice("audit", 2) == 1
	zzPutGovAdmins(w, 4)
	zzPutChainAdmin(w, "chA", zzChainAdminA)
	w.putObj(zzAppchainAddr, appchainMgr.AppAdminsChainKey("chA"), []string{zzChainAdminA})
	w.putObj(zzAppchainAddr, appchainMgr.AppchainAdminKey(zzChainAdminA), "chA")
	pre := []governance.GovernanceStatus{governance.GovernanceAvailable, governance.GovernanceFrozen}[zz.Choice("chainStatus", 2)]
	w.putObj(zzAppchainAddr, appchainMgr.AppchainKey("chA"), appchainMgr.Appchain{ID: "chA", ChainName: "chA", ChainType: "fabric", Status: pre})
	w.putObj(zzRuleAddr, ruleMgr.RuleKey("chA"), []*ruleMgr.Rule{{Address: "0xM000000000000000000000000000000000000001", ChainID: "chA", Master: true, Status: governance.GovernanceAvailable}})
	id := "chA:s7"
	sst := governance.GovernanceAvailable
	if pre == governance.GovernanceFrozen {
		sst = governance.GovernancePause // paused by the freeze cascade
	}
	w.putObj(zzServiceAddr, service_mgr.ServiceKey(id), service_mgr.Service{ChainID: "chA", ServiceID: "s7", Name: "s7", Type: service_mgr.ServiceCallContract,
		Ordered: true, Permission: map[string]struct{}{}, Status: sst})
	list := orderedmap.New()
	list.Set(id, struct{}{})
	w.putObj(zzServiceAddr, service_mgr.AppchainServicesKey("chA"), list)
	w.caller = zzChainAdminA
	_, serr := zzInvoke(w, cs[zzAppchainAddr], zzAppchainAddr, zzChainAdminA, "LogoutAppchain", []*pb.Arg{pb.String("chA"), pb.String("reason")})
	zz.Assert("C16.logout-rejected.submitted", serr == nil)
	_, err := zzInvoke(w, cs[zzAppchainAddr], zzAppchainAddr, zzGovAddr, "Manage",
		[]*pb.Arg{pb.String(string(governance.EventLogout)), pb.String(string(REJECTED)), pb.String(string(pre)), pb.String("chA"), pb.Bytes(nil)})
	zz.Assert("C16.logout-rejected.concludes", err == nil)
	chain := &appchainMgr.Appchain{}
	w.getObj(zzAppchainAddr, appchainMgr.AppchainKey("chA"), chain)
	svc := &service_mgr.Service{}
	w.getObj(zzServiceAddr, service_mgr.ServiceKey(id), svc)
	zz.Assert("C16.logout-rejected.chain-back", chain.Status == pre)
	zz.Assert("C16.logout-rejected.service-usable-only-under-available-chain", !svc.IsAvailable() || chain.IsAvailable())
}
