//go:build verif

package contracts

import (
	"github.com/iancoleman/orderedmap"
	"github.com/meshplus/bitxhub-core/boltvm"
	"github.com/meshplus/bitxhub-core/governance"
	service_mgr "github.com/meshplus/bitxhub-core/service-mgr"
	"github.com/meshplus/bitxhub-model/pb"
	"github.com/meshplus/bitxhub/internal/repo"
	zz "github.com/meshplus/bitxhub/internal/zzverif"
)

var zzAdminIDs = []string{"0xA0", "0xA1", "0xA2", "0xA3"}

type zzGovWorld struct {
	w        *zzWorld
	g        *Governance
	manage   int  // number of Manage calls on governed-object contracts
	adminOK  bool // role contract's answer to IsAnyAvailableAdmin for the caller
}

func zzNewGovWorld() *zzGovWorld {
	gw := &zzGovWorld{w: zzNewWorld()}
	gw.adminOK = zz.Bool("callerIsAvailableAdmin")
	gw.w.foreign = func(addr, method string, args []*pb.Arg) *boltvm.Response {
		switch {
		case addr == zzRoleAddr && method == "IsAnyAvailableAdmin":
			if gw.adminOK {
				return boltvm.Success([]byte(TRUE))
			}
			return boltvm.Success([]byte(FALSE))
		case method == "Manage":
			gw.manage++
			return boltvm.Success(nil)
		}
		return boltvm.Error(boltvm.OtherInternalErrCode, "unexpected cross invoke "+addr+"."+method)
	}
	gw.g = &Governance{Stub: gw.w.stubFor(zzGovAddr, "")}
	return gw
}

// zzSymbolicProposal builds a proposal in an arbitrary state satisfying Inv-P: tallies equal
// the ballots recorded, ballots only from electors, super-admin flag consistent.
func zzSymbolicProposal(n int, special bool) (*Proposal, []int) {
	p := &Proposal{
		Id: "0xSponsor-0", Typ: ServiceMgr, ObjId: "chA:s1", ObjLastStatus: governance.GovernanceAvailable,
		BallotMap: map[string]pb.Ballot{}, EventType: governance.EventUpdate,
		StrategyType: SimpleMajority, StrategyExpression: repo.DefaultSimpleMajorityExpression,
		InitialElectorateNum: uint64(n), IsSpecial: special,
	}
	var votes []int
	for i := 0; i < n; i++ {
		weight := uint64(repo.NormalAdminWeight)
		if i == 0 {
			weight = repo.SuperAdminWeight
		}
		p.ElectorateList = append(p.ElectorateList, &Role{ID: zzAdminIDs[i], RoleType: GovernanceAdmin, Weight: weight, Status: governance.GovernanceAvailable})
		v := zz.Choice("ballot", 3) // 0 none, 1 approve, 2 reject
		votes = append(votes, v)
		switch v {
		case 1:
			p.BallotMap[zzAdminIDs[i]] = pb.Ballot{VoterAddr: zzAdminIDs[i], Approve: BallotApprove, Num: weight}
			p.ApproveNum++
		case 2:
			p.BallotMap[zzAdminIDs[i]] = pb.Ballot{VoterAddr: zzAdminIDs[i], Approve: BallotReject, Num: weight}
			p.AgainstNum++
		}
		if v != 0 && i == 0 {
			p.IsSuperAdminVoted = true
		}
	}
	return p, votes
}

func zzProposalOf(w *zzWorld, id string) (*Proposal, bool) {
	p := &Proposal{}
	ok := w.getObj(zzGovAddr, ProposalKey(id), p)
	return p, ok
}

// ZZH_C15_vote_step: one Vote on a proposal in an arbitrary consistent state (2..3 electors,
// default strategy a > 0.5*t evaluated by the real MakeStrategyDecision).
// zz:also C01
func ZZH_C15_vote_step() {
	gw := zzNewGovWorld()
	w := gw.w
	n := 2 + zz.Choice("electors", 2)
	special := zz.Choice("special", 2) == 1
	p, votes := zzSymbolicProposal(n, special)
	statuses := []ProposalStatus{PROPOSED, APPROVED, REJECTED, PAUSED}
	p.Status = statuses[zz.Choice("status", 4)]
	// an open proposal has not been decided yet by its tally (part of Inv-P)
	avail := zz.U64("availableElectorate")
	zz.Assume(avail <= uint64(n))
	zz.Assume(avail >= p.ApproveNum+p.AgainstNum)
	p.AvailableElectorateNum = avail
	if p.Status == PROPOSED {
		superOK := !special || p.IsSuperAdminVoted
		zz.Assume(!(superOK && 2*p.ApproveNum > uint64(n)))
		zz.Assume(!(superOK && !(2*(avail-p.AgainstNum) > uint64(n))))
	}
	w.putObj(zzGovAddr, ProposalKey(p.Id), *p)
	vi := zz.Choice("voter", n+1) // last = outsider
	voter := "0xOutsider"
	if vi < n {
		voter = zzAdminIDs[vi]
	}
	w.caller = voter
	ballots := []string{BallotApprove, BallotReject, "maybe"}
	bi := zz.Choice("ballotCast", 3)
	snap := w.snapshot()
	res := gw.g.Vote(p.Id, ballots[bi], "because")
	zz.NoAddress("C01.no-address-in-result:vote", res.Result) // the result (also of a refusal) ends up in the receipt
	post, ok := zzProposalOf(w, p.Id)
	zz.Assert("C15.vote.proposal-kept", ok)
	eligible := vi < n && votes[vi%n] == 0 && p.Status == PROPOSED && gw.adminOK && bi < 2
	zz.Cover("C15.vote.accepted", res.Ok)
	zz.Cover("C15.vote.refused", !res.Ok)
	zz.Assert("C15.vote.accepted-iff-eligible", res.Ok == eligible)
	zz.Assert("C15.vote.refused-no-effect", res.Ok || w.unchanged(snap))
	if !res.Ok {
		zz.Assert("C15.vote.refused-no-manage", gw.manage == 0)
		return
	}
	wantA, wantR := p.ApproveNum, p.AgainstNum
	if bi == 0 {
		wantA++
	} else {
		wantR++
	}
	zz.Assert("C15.vote.tally+1", post.ApproveNum == wantA && post.AgainstNum == wantR)
	_, recorded := post.BallotMap[voter]
	zz.Assert("C15.vote.ballot-recorded", recorded && len(post.BallotMap) == len(p.BallotMap)+1)
	superVoted := p.IsSuperAdminVoted || vi == 0
	decided := !special || superVoted
	approved := decided && 2*wantA > uint64(n)
	rejected := decided && !approved && !(2*(avail-wantR) > uint64(n))
	zz.Cover("C15.vote.approved", post.Status == APPROVED)
	zz.Cover("C15.vote.rejected", post.Status == REJECTED)
	zz.Assert("C15.vote.approved-iff-rule", (post.Status == APPROVED) == approved)
	zz.Assert("C15.vote.rejected-iff-unreachable", (post.Status == REJECTED) == rejected)
	zz.Assert("C15.vote.open-otherwise", approved || rejected || post.Status == PROPOSED)
	zz.Assert("C15.vote.special-needs-super", !(special && !superVoted) || post.Status == PROPOSED)
	concluded := post.Status == APPROVED || post.Status == REJECTED
	zz.Assert("C15.vote.manage-exactly-once-on-conclusion", (concluded && gw.manage == 1) || (!concluded && gw.manage == 0))
}

// ZZH_C15_submit: a manager contract opens a proposal through the real SubmitProposal while the
// four governance admins have symbolic statuses (available / frozen / logouting-style unavailable /
// forbidden), read through the real RoleManager. The electorate recorded for the proposal is
// exactly the admins available at creation, and the recorded numbers describe that list; then a
// real Vote by one admin: accepted only from a recorded, still available elector.
func ZZH_C15_submit() {
	w, cs := zzFullWorld()
	w.audit = zz.Choice("audit", 2) == 1
	statuses := []governance.GovernanceStatus{governance.GovernanceAvailable, governance.GovernanceFrozen, governance.GovernanceForbidden}
	ids := orderedmap.New()
	avail := map[string]bool{}
	nAvail := 0
	for i, id := range zzAdminIDs {
		st := governance.GovernanceAvailable
		if i > 0 { // the super admin stays in office
			st = statuses[zz.Choice("adminStatus", 3)]
		}
		weight := uint64(repo.NormalAdminWeight)
		if i == 0 {
			weight = repo.SuperAdminWeight
		}
		ids.Set(id, struct{}{})
		w.putObj(zzRoleAddr, RoleKey(id), Role{ID: id, RoleType: GovernanceAdmin, Weight: weight, Status: st})
		if st == governance.GovernanceAvailable {
			avail[id] = true
			nAvail++
		}
	}
	w.putObj(zzRoleAddr, RoleTypeKey(string(GovernanceAdmin)), ids)
	w.putObj(zzServiceAddr, service_mgr.ServiceKey("chA:s9"), service_mgr.Service{ChainID: "chA", ServiceID: "s9", Name: "s9", Type: service_mgr.ServiceCallContract,
		Ordered: true, Permission: map[string]struct{}{}, Status: governance.GovernanceFreezing})
	ret, err := zzInvoke(w, cs[zzGovAddr], zzGovAddr, zzServiceAddr, "SubmitProposal", []*pb.Arg{
		pb.String("0xSubmitter"), pb.String(string(governance.EventFreeze)), pb.String(string(ServiceMgr)), pb.String("chA:s9"),
		pb.String(string(governance.GovernanceAvailable)), pb.String("reason"), pb.Bytes(nil)})
	zz.Assert("C15.submit.accepted", err == nil)
	p, ok := zzProposalOf(w, string(ret))
	zz.Assert("C15.submit.stored", ok && p.Status == PROPOSED)
	zz.Assert("C15.submit.numbers-describe-electorate", int(p.InitialElectorateNum) == nAvail && int(p.AvailableElectorateNum) == nAvail && len(p.ElectorateList) == nAvail)
	for _, r := range p.ElectorateList {
		zz.Assert("C15.submit.only-admins-available-at-creation", avail[r.ID])
	}
	// one vote
	vi := zz.Choice("voter", 4)
	w.caller = zzAdminIDs[vi]
	_, verr := zzInvoke(w, cs[zzGovAddr], zzGovAddr, zzAdminIDs[vi], "Vote", []*pb.Arg{pb.String(string(ret)), pb.String(BallotApprove), pb.String("r")})
	zz.Cover("C15.submit.vote-accepted", verr == nil)
	zz.Assert("C15.submit.vote-only-from-eligible", (verr == nil) == avail[zzAdminIDs[vi]])
}

// ZZH_C15_electorate_change: while a proposal is open - being voted on (PROPOSED) or paused by a
// higher-priority one (PAUSED) - one of its electors is frozen, activated again, or a logout of
// it is rejected, concluded through the real RoleManager.Manage (real Governance behind
// CrossInvoke). The proposal's number of available electors follows the change in both statuses,
// so that the tally later judges "approval unreachable" against the current electorate.
func ZZH_C15_electorate_change() {
	w, cs := zzFullWorld()
	w.audit = zz.Choice("audit", 2) == 1
	zzPutGovAdmins(w, 4)
	who := zzAdminIDs[2]
	var ev governance.EventType
	var pre governance.GovernanceStatus
	var result string
	delta := int64(0)
	switch zz.Choice("change", 3) {
	case 0:
		ev, pre, result, delta = governance.EventFreeze, governance.GovernanceFreezing, string(APPROVED), -1
	case 1:
		ev, pre, result, delta = governance.EventActivate, governance.GovernanceActivating, string(APPROVED), 1
	default:
		ev, pre, result, delta = governance.EventLogout, governance.GovernanceLogouting, string(REJECTED), 1
	}
	last := governance.GovernanceAvailable
	if ev == governance.EventActivate {
		last = governance.GovernanceFrozen
	}
	w.putObj(zzRoleAddr, RoleKey(who), Role{ID: who, RoleType: GovernanceAdmin, Weight: 1, Status: pre})
	status := []ProposalStatus{PROPOSED, PAUSED}[zz.Choice("proposalStatus", 2)]
	availBefore := uint64(3)
	if delta < 0 {
		availBefore = 4
	}
	p := &Proposal{Id: "0xSponsor-7", Typ: AppchainMgr, Status: status, ObjId: "chQ", ObjLastStatus: governance.GovernanceAvailable,
		BallotMap: map[string]pb.Ballot{}, EventType: governance.EventUpdate, StrategyType: SimpleMajority, StrategyExpression: repo.DefaultSimpleMajorityExpression,
		InitialElectorateNum: 4, AvailableElectorateNum: availBefore, ThresholdApproveNum: 3}
	for _, id := range zzAdminIDs {
		p.ElectorateList = append(p.ElectorateList, &Role{ID: id, RoleType: GovernanceAdmin, Weight: 1, Status: governance.GovernanceAvailable})
	}
	w.putObj(zzGovAddr, ProposalKey(p.Id), *p)
	idx := orderedmap.New()
	idx.Set(p.Id, struct{}{})
	w.putObj(zzGovAddr, ProposalStatusKey(string(status)), *idx) // the by-status index addProposal / changeProposalStatus keep
	_, err := zzInvoke(w, cs[zzRoleAddr], zzRoleAddr, zzGovAddr, "Manage",
		[]*pb.Arg{pb.String(string(ev)), pb.String(result), pb.String(string(last)), pb.String(who), pb.Bytes(nil)})
	zz.Assert("C15.electorate.concludes", err == nil)
	post, ok := zzProposalOf(w, p.Id)
	zz.Assert("C15.electorate.proposal-kept", ok && post.Status == status)
	zz.Assert("C15.electorate.available-number-follows", int64(post.AvailableElectorateNum) == int64(availBefore)+delta)
	zz.Assert("C15.electorate.tallies-untouched", post.ApproveNum == 0 && post.AgainstNum == 0 && post.InitialElectorateNum == 4)
}

// ZZH_C15_logout_submission: an available governance admin submits its own logout (the real
// RoleManager.LogoutRole; the admin is `logouting` from then on and its votes are refused) while
// another proposal is open or paused; then the logout is approved or rejected through the real
// Manage. The open proposal's number of available electors is the number of its electors that are
// available at each point: one less after the submission, back after a rejection, unchanged by
// an approval - never more than its initial electorate.
func ZZH_C15_logout_submission() {
	w, cs := zzFullWorld()
	w.audit = zz.Choice("audit", 2) == 1
	zzPutGovAdmins(w, 4)
	who := zzAdminIDs[2]
	status := []ProposalStatus{PROPOSED, PAUSED}[zz.Choice("proposalStatus", 2)]
	p := &Proposal{Id: "0xSponsor-7", Typ: AppchainMgr, Status: status, ObjId: "chQ", ObjLastStatus: governance.GovernanceAvailable,
		BallotMap: map[string]pb.Ballot{}, EventType: governance.EventUpdate, StrategyType: SimpleMajority, StrategyExpression: repo.DefaultSimpleMajorityExpression,
		InitialElectorateNum: 4, AvailableElectorateNum: 4, ThresholdApproveNum: 3}
	for _, id := range zzAdminIDs {
		p.ElectorateList = append(p.ElectorateList, &Role{ID: id, RoleType: GovernanceAdmin, Weight: 1, Status: governance.GovernanceAvailable})
	}
	w.putObj(zzGovAddr, ProposalKey(p.Id), *p)
	idx := orderedmap.New()
	idx.Set(p.Id, struct{}{})
	w.putObj(zzGovAddr, ProposalStatusKey(string(status)), *idx)
	_, err := zzTx(w, cs[zzRoleAddr], zzRoleAddr, who, "LogoutRole", []*pb.Arg{pb.String(who), pb.String("leaving")})
	zz.Assert("C15.logout.submitted", err == nil)
	if err != nil {
		return
	}
	var r Role
	w.getObj(zzRoleAddr, RoleKey(who), &r)
	zz.Assert("C15.logout.admin-is-logouting", r.Status == governance.GovernanceLogouting)
	// its vote is refused from now on ...
	if status == PROPOSED {
		_, verr := zzTx(w, cs[zzGovAddr], zzGovAddr, who, "Vote", []*pb.Arg{pb.String(p.Id), pb.String(BallotApprove), pb.String("r")})
		zz.Assert("C15.logout.logouting-admin-cannot-vote", verr != nil)
	}
	// ... so it is not among the available electors of the open proposal any more
	post, ok := zzProposalOf(w, p.Id)
	zz.Assert("C15.logout.proposal-kept", ok && post.Status == status)
	zz.Assert("C15.logout.available-electors-after-submission", post.AvailableElectorateNum == 3)
	// the verdict as the governance contract hands it to Manage: approved, rejected, or - when the
	// rejected logout had locked a lower-priority proposal of the admin (a pending freeze) that is now
	// restored - that proposal's event type
	result := []string{string(APPROVED), string(REJECTED), string(governance.EventFreeze)}[zz.Choice("verdict", 3)]
	_, merr := zzTx(w, cs[zzRoleAddr], zzRoleAddr, zzGovAddr, "Manage",
		[]*pb.Arg{pb.String(string(governance.EventLogout)), pb.String(result), pb.String(string(governance.GovernanceAvailable)), pb.String(who), pb.Bytes(nil)})
	zz.Assert("C15.logout.concluded", merr == nil)
	post2, _ := zzProposalOf(w, p.Id)
	var r2 Role
	w.getObj(zzRoleAddr, RoleKey(who), &r2)
	want := uint64(3)
	if result != string(APPROVED) {
		want = 4
		zz.Assert("C15.logout.admin-is-an-elector-again", r2.IsAvailable())
	}
	zz.Assert("C15.logout.available-electors-after-the-verdict", post2.AvailableElectorateNum == want)
	zz.Assert("C15.logout.never-more-than-the-initial-electorate", post2.AvailableElectorateNum <= post2.InitialElectorateNum)
}
