//go:build verif

package contracts

import (
	"github.com/meshplus/bitxhub-core/boltvm"
	"github.com/meshplus/bitxhub-core/governance"
	"github.com/meshplus/bitxhub-model/pb"
	"github.com/meshplus/bitxhub/internal/repo"
	zz "github.com/meshplus/bitxhub/internal/zzverif"
)

var zzAdminIDs = []string{"0xA0", "0xA1", "0xA2", "0xA3"}

type zzGovWorld struct {
	w        *zzWorld
	g        *Governance
	manage   int  // number of Manage calls on governed-object contracts
	adminOK  bool // role contract's answer to IsAnyAvailableAdmin for the caller
}

func zzNewGovWorld() *zzGovWorld {
	gw := &zzGovWorld{w: zzNewWorld()}
	gw.adminOK = zz.Bool("callerIsAvailableAdmin")
	gw.w.foreign = func(addr, method string, args []*pb.Arg) *boltvm.Response {
		switch {
		case addr == zzRoleAddr && method == "IsAnyAvailableAdmin":
			if gw.adminOK {
				return boltvm.Success([]byte(TRUE))
			}
			return boltvm.Success([]byte(FALSE))
		case method == "Manage":
			gw.manage++
			return boltvm.Success(nil)
		}
		return boltvm.Error(boltvm.OtherInternalErrCode, "unexpected cross invoke "+addr+"."+method)
	}
	gw.g = &Governance{Stub: gw.w.stubFor(zzGovAddr, "")}
	return gw
}

// zzSymbolicProposal builds a proposal in an arbitrary state satisfying Inv-P: tallies equal
// the ballots recorded, ballots only from electors, super-admin flag consistent.
func zzSymbolicProposal(n int, special bool) (*Proposal, []int) {
	p := &Proposal{
		Id: "0xSponsor-0", Typ: ServiceMgr, ObjId: "chA:s1", ObjLastStatus: governance.GovernanceAvailable,
		BallotMap: map[string]pb.Ballot{}, EventType: governance.EventUpdate,
		StrategyType: SimpleMajority, StrategyExpression: repo.DefaultSimpleMajorityExpression,
		InitialElectorateNum: uint64(n), IsSpecial: special,
	}
	var votes []int
	for i := 0; i < n; i++ {
		weight := uint64(repo.NormalAdminWeight)
		if i == 0 {
			weight = repo.SuperAdminWeight
		}
		p.ElectorateList = append(p.ElectorateList, &Role{ID: zzAdminIDs[i], RoleType: GovernanceAdmin, Weight: weight, Status: governance.GovernanceAvailable})
		v := zz.Choice("ballot", 3) // 0 none, 1 approve, 2 reject
		votes = append(votes, v)
		switch v {
		case 1:
			p.BallotMap[zzAdminIDs[i]] = pb.Ballot{VoterAddr: zzAdminIDs[i], Approve: BallotApprove, Num: weight}
			p.ApproveNum++
		case 2:
			p.BallotMap[zzAdminIDs[i]] = pb.Ballot{VoterAddr: zzAdminIDs[i], Approve: BallotReject, Num: weight}
			p.AgainstNum++
		}
		if v != 0 && i == 0 {
			p.IsSuperAdminVoted = true
		}
	}
	return p, votes
}

func zzProposalOf(w *zzWorld, id string) (*Proposal, bool) {
	p := &Proposal{}
	ok := w.getObj(zzGovAddr, ProposalKey(id), p)
	return p, ok
}

// ZZH_C15_vote_step: one Vote on a proposal in an arbitrary consistent state (2..3 electors,
// default strategy a > 0.5*t evaluated by the real MakeStrategyDecision).
func ZZH_C15_vote_step() {
	gw := zzNewGovWorld()
	w := gw.w
	n := 2 + zz.Choice("electors", 2)
	special := zz.Choice("special", 2) == 1
	p, votes := zzSymbolicProposal(n, special)
	statuses := []ProposalStatus{PROPOSED, APPROVED, REJECTED, PAUSED}
	p.Status = statuses[zz.Choice("status", 4)]
	// an open proposal has not been decided yet by its tally (part of Inv-P)
	avail := zz.U64("availableElectorate")
	zz.Assume(avail <= uint64(n))
	zz.Assume(avail >= p.ApproveNum+p.AgainstNum)
	p.AvailableElectorateNum = avail
	if p.Status == PROPOSED {
		superOK := !special || p.IsSuperAdminVoted
		zz.Assume(!(superOK && 2*p.ApproveNum > uint64(n)))
		zz.Assume(!(superOK && !(2*(avail-p.AgainstNum) > uint64(n))))
	}
	w.putObj(zzGovAddr, ProposalKey(p.Id), *p)
	vi := zz.Choice("voter", n+1) // last = outsider
	voter := "0xOutsider"
	if vi < n {
		voter = zzAdminIDs[vi]
	}
	w.caller = voter
	ballots := []string{BallotApprove, BallotReject, "maybe"}
	bi := zz.Choice("ballotCast", 3)
	snap := w.snapshot()
	res := gw.g.Vote(p.Id, ballots[bi], "because")
	post, ok := zzProposalOf(w, p.Id)
	zz.Assert("C15.vote.proposal-kept", ok)
	eligible := vi < n && votes[vi%n] == 0 && p.Status == PROPOSED && gw.adminOK && bi < 2
	zz.Cover("C15.vote.accepted", res.Ok)
	zz.Cover("C15.vote.refused", !res.Ok)
	zz.Assert("C15.vote.accepted-iff-eligible", res.Ok == eligible)
	zz.Assert("C15.vote.refused-no-effect", res.Ok || w.unchanged(snap))
	if !res.Ok {
		zz.Assert("C15.vote.refused-no-manage", gw.manage == 0)
		return
	}
	wantA, wantR := p.ApproveNum, p.AgainstNum
	if bi == 0 {
		wantA++
	} else {
		wantR++
	}
	zz.Assert("C15.vote.tally+1", post.ApproveNum == wantA && post.AgainstNum == wantR)
	_, recorded := post.BallotMap[voter]
	zz.Assert("C15.vote.ballot-recorded", recorded && len(post.BallotMap) == len(p.BallotMap)+1)
	superVoted := p.IsSuperAdminVoted || vi == 0
	decided := !special || superVoted
	approved := decided && 2*wantA > uint64(n)
	rejected := decided && !approved && !(2*(avail-wantR) > uint64(n))
	zz.Cover("C15.vote.approved", post.Status == APPROVED)
	zz.Cover("C15.vote.rejected", post.Status == REJECTED)
	zz.Assert("C15.vote.approved-iff-rule", (post.Status == APPROVED) == approved)
	zz.Assert("C15.vote.rejected-iff-unreachable", (post.Status == REJECTED) == rejected)
	zz.Assert("C15.vote.open-otherwise", approved || rejected || post.Status == PROPOSED)
	zz.Assert("C15.vote.special-needs-super", !(special && !superVoted) || post.Status == PROPOSED)
	concluded := post.Status == APPROVED || post.Status == REJECTED
	zz.Assert("C15.vote.manage-exactly-once-on-conclusion", (concluded && gw.manage == 1) || (!concluded && gw.manage == 0))
}
