//go:build verif

package contracts

import (
	"github.com/meshplus/bitxhub-model/pb"
	zz "github.com/meshplus/bitxhub/internal/zzverif"
)

func zzIsFinal(s pb.TransactionStatus) bool {
	return s == pb.TransactionStatus_SUCCESS || s == pb.TransactionStatus_FAILURE || s == pb.TransactionStatus_ROLLBACK
}

// zzAllowedByReceipt is the oracle transcribed from the property text (not from the FSM table):
// BEGIN -success-> SUCCESS, BEGIN -failure-> FAILURE, BEGIN_FAILURE -failure-> FAILURE,
// BEGIN_ROLLBACK -rollback-> ROLLBACK, BEGIN_ROLLBACK -failure-> ROLLBACK.
func zzAllowedByReceipt(pre pb.TransactionStatus, receipt int32, post pb.TransactionStatus) bool {
	switch {
	case pre == pb.TransactionStatus_BEGIN && receipt == int32(pb.IBTP_RECEIPT_SUCCESS):
		return post == pb.TransactionStatus_SUCCESS
	case pre == pb.TransactionStatus_BEGIN && receipt == int32(pb.IBTP_RECEIPT_FAILURE):
		return post == pb.TransactionStatus_FAILURE
	case pre == pb.TransactionStatus_BEGIN_FAILURE && receipt == int32(pb.IBTP_RECEIPT_FAILURE):
		return post == pb.TransactionStatus_FAILURE
	case pre == pb.TransactionStatus_BEGIN_ROLLBACK && receipt == int32(pb.IBTP_RECEIPT_ROLLBACK):
		return post == pb.TransactionStatus_ROLLBACK
	case pre == pb.TransactionStatus_BEGIN_ROLLBACK && receipt == int32(pb.IBTP_RECEIPT_FAILURE):
		return post == pb.TransactionStatus_ROLLBACK
	}
	return false
}

func zzTM(w *zzWorld) *TransactionManager {
	return &TransactionManager{Stub: w.stubFor(zzTMAddr, zzInterchainAddr)}
}

func zzRecord(w *zzWorld, id string) (pb.TransactionRecord, bool) {
	var rec pb.TransactionRecord
	ok, b := w.get(zzTMAddr, TxInfoKey(id))
	if !ok {
		return rec, false
	}
	if err := rec.Unmarshal(b); err != nil {
		return rec, false
	}
	return rec, true
}

// ZZH_C04_report_step: one Report on a one-to-one transaction from an arbitrary stored
// status with an arbitrary receipt value (all int32, including undefined ones).
func ZZH_C04_report_step() {
	st := pb.TransactionStatus(zz.I32("status"))
	zz.Assume(st >= 0 && st <= 5)
	res := zz.I32("receipt")
	h := zz.U64("height")
	w := zzNewWorld()
	id := "chA:s1-chB:s2-1"
	rec := pb.TransactionRecord{Status: st, Height: h}
	b, _ := rec.Marshal()
	w.put(zzTMAddr, TxInfoKey(id), b)
	tm := zzTM(w)
	// the contract object is long-lived (one instance per executor, the stub is swapped per
	// call): optionally it already served a Report for another transaction, accepted or rejected
	if zz.Choice("earlierCallOnSameInstance", 2) == 1 {
		st0 := pb.TransactionStatus(zz.I32("status0"))
		zz.Assume(st0 >= 0 && st0 <= 5)
		rec0 := pb.TransactionRecord{Status: st0, Height: h}
		b0, _ := rec0.Marshal()
		w.put(zzTMAddr, TxInfoKey("chA:s1-chB:s2-7"), b0)
		_ = tm.Report("chA:s1-chB:s2-7", zz.I32("receipt0"))
		tm.Stub = w.stubFor(zzTMAddr, zzInterchainAddr)
	}
	snap := w.snapshot()
	out := tm.Report(id, res)
	post, ok := zzRecord(w, id)
	zz.Assert("C04.report.record-kept", ok)
	zz.Cover("C04.report.accepted", out.Ok)
	zz.Cover("C04.report.rejected", !out.Ok)
	zz.Assert("C04.report.allowed", !out.Ok || zzAllowedByReceipt(st, res, post.Status))
	zz.Assert("C04.report.reject-no-effect", out.Ok || w.unchanged(snap))
	zz.Assert("C04.report.final-absorbing", !zzIsFinal(st) || (!out.Ok && post.Status == st))
	zz.Assert("C04.report.height-kept", post.Height == h)
	// every transition the statement allows is actually taken
	zz.Assert("C04.report.complete", out.Ok || !(st == pb.TransactionStatus_BEGIN && res == int32(pb.IBTP_RECEIPT_SUCCESS)))
	// status query reports the state reached
	q := tm.GetStatus(id)
	zz.Assert("C04.query", q.Ok && zz.EqStr(string(q.Result), zzItoa(int(post.Status))))
}

func zzItoa(i int) string {
	return []string{"0", "1", "2", "3", "4", "5"}[i]
}

// ZZH_C04_begin_step: Begin on a fresh id records BEGIN or BEGIN_FAILURE; only the
// interchain contract may call it.
func ZZH_C04_begin_step() {
	w := zzNewWorld()
	w.height = zz.U64("height")
	t := zz.U64("timeout")
	failed := zz.Bool("isFailed")
	id := "chA:s1-chB:s2-1"
	tm := zzTM(w)
	out := tm.Begin(id, t, failed)
	rec, ok := zzRecord(w, id)
	zz.Assert("C04.begin.ok", out.Ok && ok)
	zz.Assert("C04.begin.status", (failed && rec.Status == pb.TransactionStatus_BEGIN_FAILURE) || (!failed && rec.Status == pb.TransactionStatus_BEGIN))
	q := tm.GetStatus(id)
	zz.Assert("C04.begin.query", q.Ok && zz.EqStr(string(q.Result), zzItoa(int(rec.Status))))
}

// ZZH_C04_interbxh_step: BeginInterBitXHub on an existing record (notice from the
// destination hub): only BEGIN -> FAILURE (begin-failure notice) and BEGIN -> ROLLBACK
// (rollback notice); finals absorbing; anything else rejected without effect.
func ZZH_C04_interbxh_step() {
	st := pb.TransactionStatus(zz.I32("status"))
	zz.Assume(st >= 0)
	zz.Assume(st <= 5)
	notice := pb.TransactionStatus(zz.I32("notice"))
	h := zz.U64("height")
	w := zzNewWorld()
	id := "1356:chA:s1-1357:chB:s2-1"
	rec := pb.TransactionRecord{Status: st, Height: h}
	b, _ := rec.Marshal()
	w.put(zzTMAddr, TxInfoKey(id), b)
	proof := &pb.BxhProof{TxStatus: notice}
	pb2, _ := proof.Marshal()
	tm := zzTM(w)
	snap := w.snapshot()
	out := tm.BeginInterBitXHub(id, zz.U64("timeout"), pb2, zz.Bool("isFailed"))
	post, ok := zzRecord(w, id)
	zz.Assert("C04.interbxh.record-kept", ok)
	zz.Cover("C04.interbxh.accepted", out.Ok)
	allowed := (st == pb.TransactionStatus_BEGIN && notice == pb.TransactionStatus_BEGIN_FAILURE && post.Status == pb.TransactionStatus_FAILURE) ||
		(st == pb.TransactionStatus_BEGIN && notice == pb.TransactionStatus_BEGIN_ROLLBACK && post.Status == pb.TransactionStatus_ROLLBACK)
	zz.Assert("C04.interbxh.allowed", !out.Ok || allowed)
	zz.Assert("C04.interbxh.reject-no-effect", out.Ok || w.unchanged(snap))
	zz.Assert("C04.interbxh.final-absorbing", !zzIsFinal(st) || (!out.Ok && post.Status == st))
	zz.Assert("C04.interbxh.height-kept", post.Height == h)
}
