//go:build verif

package contracts

import (
	"github.com/iancoleman/orderedmap"
	"encoding/json"

	appchainMgr "github.com/meshplus/bitxhub-core/appchain-mgr"
	"github.com/meshplus/bitxhub-core/governance"
	service_mgr "github.com/meshplus/bitxhub-core/service-mgr"
	"github.com/meshplus/bitxhub-model/pb"
	"github.com/meshplus/bitxhub/internal/repo"
	zz "github.com/meshplus/bitxhub/internal/zzverif"
)

// restore puts the world back to a snapshot (what the executor does with a failed transaction).
func (w *zzWorld) restore(s *zzSnap) {
	w.state = map[string]*zzKV{}
	w.addrs = nil
	for _, a := range s.addrs {
		w.addrs = append(w.addrs, a)
		w.state[a] = &zzKV{keys: append([]string{}, s.keys[a]...), vals: append([][]byte{}, s.vals[a]...)}
	}
	w.events = w.events[:s.events]
}

// zzTx runs one top-level contract call as a transaction: a failed call leaves no state behind.
func zzTx(w *zzWorld, c interface{}, address, caller, method string, args []*pb.Arg) ([]byte, error) {
	s := w.snapshot()
	w.caller = caller
	ret, err := zzInvoke(w, c, address, caller, method, args)
	if err != nil {
		w.restore(s)
	}
	return ret, err
}

// ZZH_C15_closed_stays_closed: two concurrent proposals on one service with different priorities,
// opened through the real entry points (a governance admin's FreezeService, then the chain admin's
// LogoutService, which pauses the freeze proposal and records it as locked), all contracts real.
// Then 1..3 steps chosen among: the freeze proposer withdraws, the logout proposer withdraws, one
// of the 2 (thorough: 3) admins votes approve / reject on either proposal. After every step a proposal that was
// already approved or rejected before the step still has the same status, tallies, ballots and end
// reason, and once both proposals are closed the service's status no longer moves. A first vote by
// an admin on the proposal being voted on is always accepted (no proposal gets stuck open), and after
// every step the service's status is the one its two proposals imply.
// The by-status index (what GetNotClosedProposals reads) lists every proposal under its current
// status only. Finally an elector is frozen (an approved freeze concluded through the real
// RoleManager.Manage, which re-counts the electorate of every proposal the index reports as open):
// closed proposals are not touched by it either.
// zz:also C16
func ZZH_C15_closed_stays_closed() {
	w, cs := zzFullWorld()
	w.audit = zz.Choice("audit", 2) == 1
	nAdmins := zz.Tier(2, 3) // 2 admins: two approvals approve, one rejection rejects; 3: two approvals / two rejections
	zzPutGovAdmins(w, nAdmins)
	// freeze and logout proposals are special: the first admin is the super admin whose vote they need
	w.putObj(zzRoleAddr, RoleKey(zzAdminIDs[0]), Role{ID: zzAdminIDs[0], RoleType: GovernanceAdmin, Weight: repo.SuperAdminWeight, Status: governance.GovernanceAvailable})
	chainAdmin := "0xC0"
	zzPutChainAdmin(w, "chA", chainAdmin)
	w.putObj(zzAppchainAddr, appchainMgr.AppchainKey("chA"), appchainMgr.Appchain{ID: "chA", ChainName: "chA", ChainType: "fabric", Status: governance.GovernanceAvailable})
	w.putObj(zzServiceAddr, service_mgr.ServiceKey("chA:s9"), service_mgr.Service{ChainID: "chA", ServiceID: "s9", Name: "s9", Type: service_mgr.ServiceCallContract,
		Ordered: true, Permission: map[string]struct{}{}, Status: governance.GovernanceAvailable})
	freezer := zzAdminIDs[nAdmins-1]
	retA, errA := zzTx(w, cs[zzServiceAddr], zzServiceAddr, freezer, "FreezeService", []*pb.Arg{pb.String("chA:s9"), pb.String("r")})
	retB, errB := zzTx(w, cs[zzServiceAddr], zzServiceAddr, chainAdmin, "LogoutService", []*pb.Arg{pb.String("chA:s9"), pb.String("r")})
	zz.Assert("C15.lock.both-proposals-open", errA == nil && errB == nil)
	if errA != nil || errB != nil {
		return
	}
	idA := zzProposalIDOf(retA)
	idB := zzProposalIDOf(retB)
	pa, okA := zzProposalOf(w, idA)
	pb2, okB := zzProposalOf(w, idB)
	zz.Assert("C15.lock.lower-priority-paused", okA && okB && pa.Status == PAUSED && pb2.Status == PROPOSED && pb2.LockProposalId == idA)
	if !okA || !okB {
		return
	}
	ids := []string{idA, idB}
	owners := []string{freezer, chainAdmin}
	closed := func(p *Proposal) bool { return p.Status == APPROVED || p.Status == REJECTED }
	svcStatus := func() governance.GovernanceStatus {
		var s service_mgr.Service
		w.getObj(zzServiceAddr, service_mgr.ServiceKey("chA:s9"), &s)
		return s.Status
	}
	steps := 1 + zz.Choice("steps", 3)
	electorGone := false
	for k := 0; k < steps; k++ {
		var before [2]*Proposal
		for i, id := range ids {
			before[i], _ = zzProposalOf(w, id)
		}
		svcBefore := svcStatus()
		switch zz.Choice("op", 3) {
		case 2:
			// an elector leaves office while the proposals are open or paused (once): an approved freeze
			// concluded through the real RoleManager.Manage, which re-counts every proposal the index lists
			if electorGone {
				continue
			}
			electorGone = true
			who := zzAdminIDs[nAdmins-1]
			w.putObj(zzRoleAddr, RoleKey(who), Role{ID: who, RoleType: GovernanceAdmin, Weight: 1, Status: governance.GovernanceFreezing})
			_, err := zzTx(w, cs[zzRoleAddr], zzRoleAddr, zzGovAddr, "Manage",
				[]*pb.Arg{pb.String(string(governance.EventFreeze)), pb.String(string(APPROVED)), pb.String(string(governance.GovernanceAvailable)), pb.String(who), pb.Bytes(nil)})
			zz.Assert("C15.lock.electorate-change-concludes", err == nil)
		case 0:
			which := zz.Choice("withdraw", 2)
			_, err := zzTx(w, cs[zzGovAddr], zzGovAddr, owners[which], "WithdrawProposal", []*pb.Arg{pb.String(ids[which]), pb.String("changed my mind")})
			zz.Cover("C15.lock.withdrawn", err == nil)
		default:
			which := zz.Choice("voteOn", 2)
			voter := zzAdminIDs[zz.Choice("voter", nAdmins)]
			ballot := []string{BallotApprove, BallotReject}[zz.Choice("ballot", 2)]
			_, voted := before[which].BallotMap[voter]
			_, err := zzTx(w, cs[zzGovAddr], zzGovAddr, voter, "Vote", []*pb.Arg{pb.String(ids[which]), pb.String(ballot), pb.String("r")})
			zz.Cover("C15.lock.voted", err == nil)
			// every admin is an elector of both proposals: a first vote on a proposal being voted on counts
			// (in particular the vote that concludes it takes effect), any other vote is refused
			voterGone := electorGone && voter == zzAdminIDs[nAdmins-1] // an unavailable admin's vote is refused
			zz.Assert("C15.lock.vote-accepted-iff-open-and-first", (err == nil) == (before[which].Status == PROPOSED && !voted && !voterGone))
		}
		bothClosedBefore := true
		for i, id := range ids {
			after, ok := zzProposalOf(w, id)
			zz.Assert("C15.lock.proposal-kept", ok)
			if !ok {
				return
			}
			if closed(before[i]) {
				zz.Assert("C15.lock.closed-status-never-changes", after.Status == before[i].Status)
				zz.Assert("C15.lock.closed-tallies-never-change", after.ApproveNum == before[i].ApproveNum && after.AgainstNum == before[i].AgainstNum && len(after.BallotMap) == len(before[i].BallotMap))
				zz.Assert("C15.lock.closed-end-reason-never-changes", after.EndReason == before[i].EndReason)
			} else {
				bothClosedBefore = false
			}
			zz.Cover("C15.lock.closed", closed(after))
		}
		if bothClosedBefore {
			zz.Assert("C15.lock.object-settled-once-all-closed", svcStatus() == svcBefore)
		}
		// the service is where its proposals say (C16: status moves only with a submitted operation,
		// its approval or its rejection)
		a, _ := zzProposalOf(w, idA)
		b, _ := zzProposalOf(w, idB)
		want := governance.GovernanceLogouting
		switch {
		case b.Status == PROPOSED:
		case b.Status == APPROVED:
			want = governance.GovernanceForbidden
		case a.Status == PROPOSED:
			want = governance.GovernanceFreezing
		case a.Status == APPROVED:
			want = governance.GovernanceFrozen
		default:
			want = governance.GovernanceAvailable
		}
		zz.Assert("C16.lock.object-status-follows-its-proposals", svcStatus() == want)
		zz.Assert("C15.lock.lower-priority-paused-exactly-while-the-higher-is-open", (a.Status == PAUSED) == (b.Status == PROPOSED) || closed(a))
		zzStatusIndexAgrees(w, ids)
	}
	// an elector leaves office
	if electorGone {
		return
	}
	var before [2]*Proposal
	for i, id := range ids {
		before[i], _ = zzProposalOf(w, id)
	}
	who := zzAdminIDs[nAdmins-1]
	w.putObj(zzRoleAddr, RoleKey(who), Role{ID: who, RoleType: GovernanceAdmin, Weight: 1, Status: governance.GovernanceFreezing})
	_, err := zzTx(w, cs[zzRoleAddr], zzRoleAddr, zzGovAddr, "Manage",
		[]*pb.Arg{pb.String(string(governance.EventFreeze)), pb.String(string(APPROVED)), pb.String(string(governance.GovernanceAvailable)), pb.String(who), pb.Bytes(nil)})
	zz.Assert("C15.lock.electorate-change-concludes", err == nil)
	for i, id := range ids {
		after, _ := zzProposalOf(w, id)
		if closed(before[i]) {
			zz.Assert("C15.lock.closed-proposal-untouched-by-electorate-change", after.Status == before[i].Status && after.EndReason == before[i].EndReason &&
				after.AvailableElectorateNum == before[i].AvailableElectorateNum && after.ApproveNum == before[i].ApproveNum && after.AgainstNum == before[i].AgainstNum)
		} else {
			zz.Assert("C15.lock.open-proposal-recounted", after.AvailableElectorateNum+1 == before[i].AvailableElectorateNum)
		}
	}
}

// zzStatusIndexAgrees: each proposal is listed in the by-status index of its own status and in no other.
func zzStatusIndexAgrees(w *zzWorld, ids []string) {
	for _, id := range ids {
		p, _ := zzProposalOf(w, id)
		for _, st := range []ProposalStatus{PROPOSED, PAUSED, APPROVED, REJECTED} {
			idx := orderedmap.New()
			w.getObj(zzGovAddr, ProposalStatusKey(string(st)), idx)
			_, listed := idx.Get(id)
			zz.Assert("C15.index.listed-under-its-status-only", listed == (p.Status == st))
		}
	}
}

func zzProposalIDOf(ret []byte) string {
	var r governance.GovernanceResult
	if json.Unmarshal(ret, &r) != nil {
		return ""
	}
	return r.ProposalID
}

// ZZH_C16_rejected_logout_under_frozen_chain: a service has a pending freeze (or none); its chain
// admin submits the service's logout (which pauses the freeze proposal); then the chain is frozen
// (the appchain manager's cascade, which leaves a logouting service alone); then the logout is
// rejected by a vote. Whatever the rejected logout restores, the service must not be usable for
// interchain while its chain is frozen.
func ZZH_C16_rejected_logout_under_frozen_chain() {
	w, cs := zzFullWorld()
	w.audit = zz.Choice("audit", 2) == 1
	zzPutGovAdmins(w, 2)
	w.putObj(zzRoleAddr, RoleKey(zzAdminIDs[0]), Role{ID: zzAdminIDs[0], RoleType: GovernanceAdmin, Weight: repo.SuperAdminWeight, Status: governance.GovernanceAvailable})
	chainAdmin := "0xC0"
	zzPutChainAdmin(w, "chA", chainAdmin)
	w.putObj(zzAppchainAddr, appchainMgr.AppchainKey("chA"), appchainMgr.Appchain{ID: "chA", ChainName: "chA", ChainType: "fabric", Status: governance.GovernanceAvailable})
	w.putObj(zzServiceAddr, service_mgr.ServiceKey("chA:s9"), service_mgr.Service{ChainID: "chA", ServiceID: "s9", Name: "s9", Type: service_mgr.ServiceCallContract,
		Ordered: true, Permission: map[string]struct{}{}, Status: governance.GovernanceAvailable})
	if zz.Choice("freezePendingFirst", 2) == 1 {
		_, errA := zzTx(w, cs[zzServiceAddr], zzServiceAddr, zzAdminIDs[1], "FreezeService", []*pb.Arg{pb.String("chA:s9"), pb.String("r")})
		zz.Assert("C16.rejlogout.freeze-submitted", errA == nil)
	}
	retB, errB := zzTx(w, cs[zzServiceAddr], zzServiceAddr, chainAdmin, "LogoutService", []*pb.Arg{pb.String("chA:s9"), pb.String("r")})
	zz.Assert("C16.rejlogout.logout-submitted", errB == nil)
	if errB != nil {
		return
	}
	idB := zzProposalIDOf(retB)
	// the chain is frozen: status and the cascade the appchain manager runs on an approved freeze
	w.putObj(zzAppchainAddr, appchainMgr.AppchainKey("chA"), appchainMgr.Appchain{ID: "chA", ChainName: "chA", ChainType: "fabric", Status: governance.GovernanceFrozen})
	_, errP := zzTx(w, cs[zzServiceAddr], zzServiceAddr, zzAppchainAddr, "PauseChainService", []*pb.Arg{pb.String("chA")})
	zz.Assert("C16.rejlogout.cascade", errP == nil)
	// the logout is voted down (two admins: one rejection concludes it; the super admin votes)
	_, errV := zzTx(w, cs[zzGovAddr], zzGovAddr, zzAdminIDs[0], "Vote", []*pb.Arg{pb.String(idB), pb.String(BallotReject), pb.String("r")})
	zz.Assert("C16.rejlogout.vote", errV == nil)
	pB, okB := zzProposalOf(w, idB)
	zz.Assert("C16.rejlogout.rejected", okB && pB.Status == REJECTED)
	var s service_mgr.Service
	w.getObj(zzServiceAddr, service_mgr.ServiceKey("chA:s9"), &s)
	zz.Assert("C16.rejlogout.service-unusable-under-the-frozen-chain", !s.IsAvailable())
}
