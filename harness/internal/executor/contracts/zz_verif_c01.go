//go:build verif

package contracts

import (
	"github.com/meshplus/bitxhub-model/pb"
	zz "github.com/meshplus/bitxhub/internal/zzverif"
)

// zzSameWorld: every key of a equals the same key of b (values compared as bytes/blobs).
func zzSameWorld(a, b *zzWorld) bool {
	res := len(a.events) == len(b.events)
	for _, addr := range a.addrs {
		ka, kb := a.state[addr], b.kv(addr)
		if len(ka.keys) != len(kb.keys) {
			return false
		}
		for i, k := range ka.keys {
			j := kb.find(k)
			if j < 0 {
				return false
			}
			res = zz.And(res, zz.EqBytes(ka.vals[i], kb.vals[j]))
		}
	}
	for i := range a.events {
		if i < len(b.events) {
			res = zz.And(res, zz.And(a.events[i].typ == b.events[i].typ, zz.EqBytes(a.events[i].data, b.events[i].data)))
		}
	}
	return res
}

func zzMultiWorld(n int, sts []pb.TransactionStatus, g pb.TransactionStatus, cnt uint64) *zzWorld {
	w := zzNewWorld()
	w.height = 10
	ids := zzChildIDs()
	ti := TransactionInfo{GlobalState: g, Height: 20, ChildTxInfo: map[string]pb.TransactionStatus{}, ChildTxCount: cnt}
	for i := 0; i < n; i++ {
		ti.ChildTxInfo[ids[i]] = sts[i]
		w.put(zzTMAddr, ids[i], []byte(zzGlobalID))
	}
	w.putObj(zzTMAddr, GlobalTxInfoKey(zzGlobalID), ti)
	w.put(zzTMAddr, TimeoutKey(20), []byte(zzGlobalID))
	return w
}

// ZZH_C01_tm_multi: two replicas execute the same one-to-many operation with independent
// map iteration orders; returned status change and written state must be identical.
func ZZH_C01_tm_multi() {
	n := 2
	sts := []pb.TransactionStatus{}
	for i := 0; i < n; i++ {
		s := pb.TransactionStatus(zz.I32("child"))
		zz.Assume(zz.Or(s == pb.TransactionStatus_BEGIN, s == pb.TransactionStatus_SUCCESS))
		sts = append(sts, s)
	}
	op := zz.Choice("op", 2)
	res := zz.I32("receipt")
	zz.Assume(res >= 1)
	zz.Assume(res <= 3)
	failed := zz.Bool("isFailed")
	run := func() (*zzWorld, []byte, bool) {
		w := zzMultiWorld(n, sts, pb.TransactionStatus_BEGIN, 3)
		tm := zzTM(w)
		ids := zzChildIDs()
		if op == 0 {
			out := tm.BeginMultiTXs(zzGlobalID, ids[2], 5, failed, 3)
			return w, out.Result, out.Ok
		}
		out := tm.Report(ids[0], res)
		return w, out.Result, out.Ok
	}
	zz.PermuteMaps(true)
	w1, r1, ok1 := run()
	w2, r2, ok2 := run()
	zz.PermuteMaps(false)
	zz.Assert("C01.tm-multi.same-outcome", ok1 == ok2)
	zz.Assert("C01.tm-multi.same-result", zz.EqBytes(r1, r2))
	zz.Assert("C01.tm-multi.same-state", zzSameWorld(w1, w2))
}
