//go:build verif

package contracts

// Tier-2 harness model behind boltvm.Stub: per-contract key/value state, event
// list, call context, and CrossInvoke dispatching (by reflection, as BoltVM does)
// to the real methods of the contracts registered in the world.

import (
	"encoding/json"
	"fmt"
	"reflect"
	"sort"
	"strconv"
	"strings"

	"github.com/meshplus/bitxhub-core/boltvm"
	"github.com/meshplus/bitxhub-core/validator"
	"github.com/meshplus/bitxhub-kit/types"
	"github.com/meshplus/bitxhub-model/constant"
	"github.com/meshplus/bitxhub-model/pb"
	zz "github.com/meshplus/bitxhub/internal/zzverif"
	"github.com/sirupsen/logrus"
)

type zzEvent struct {
	typ  pb.Event_EventType
	data []byte
}

type zzKV struct {
	keys []string
	vals [][]byte
}

func (kv *zzKV) find(k string) int {
	for i, kk := range kv.keys {
		if kk == k {
			return i
		}
	}
	return -1
}

type zzWorld struct {
	state     map[string]*zzKV // contract address -> key/value (insertion ordered)
	addrs     []string
	events    []zzEvent
	effects   int // number of state writes / deletes / events so far
	height    uint64
	txIndex   uint64
	txHash    *types.Hash
	ts        int64
	audit     bool
	caller    string // external account that sent the transaction
	contracts map[string]interface{}
	accounts  map[string]*zzAccount
	// foreign answers for contracts outside the unit: address+"."+method -> response
	foreign func(addr, method string, args []*pb.Arg) *boltvm.Response
	logger  logrus.FieldLogger
	calls   []string // CrossInvoke trace: "addr.method"
}

type zzAccount struct{ balance int64 }

func zzNewWorld() *zzWorld {
	return &zzWorld{
		state:     map[string]*zzKV{},
		contracts: map[string]interface{}{},
		accounts:  map[string]*zzAccount{},
		txHash:    types.NewHashByStr("0x9f41dd84524bf8a42f8ab58ecfca6e1752d6fd93fe8dc00af4c71963c97db59f"),
		logger:    zz.Logger(),
		height:    1,
	}
}

func (w *zzWorld) kv(addr string) *zzKV {
	kv, ok := w.state[addr]
	if !ok {
		kv = &zzKV{}
		w.state[addr] = kv
		w.addrs = append(w.addrs, addr)
	}
	return kv
}

func (w *zzWorld) put(addr, key string, val []byte) {
	kv := w.kv(addr)
	if i := kv.find(key); i >= 0 {
		kv.vals[i] = val
		return
	}
	kv.keys = append(kv.keys, key)
	kv.vals = append(kv.vals, val)
}

func (w *zzWorld) get(addr, key string) (bool, []byte) {
	kv := w.kv(addr)
	if i := kv.find(key); i >= 0 {
		return true, kv.vals[i]
	}
	return false, nil
}

func (w *zzWorld) del(addr, key string) {
	kv := w.kv(addr)
	if i := kv.find(key); i >= 0 {
		kv.keys = append(kv.keys[:i:i], kv.keys[i+1:]...)
		kv.vals = append(kv.vals[:i:i], kv.vals[i+1:]...)
	}
}

func (w *zzWorld) putObj(addr, key string, v interface{}) {
	b, err := json.Marshal(v)
	if err != nil {
		panic(err)
	}
	w.put(addr, key, b)
}

func (w *zzWorld) getObj(addr, key string, ret interface{}) bool {
	ok, b := w.get(addr, key)
	if !ok {
		return false
	}
	return json.Unmarshal(b, ret) == nil
}

// zzSnap is a copy of the observable world state.
type zzSnap struct {
	addrs  []string
	keys   map[string][]string
	vals   map[string][][]byte
	events int
}

func (w *zzWorld) snapshot() *zzSnap {
	s := &zzSnap{keys: map[string][]string{}, vals: map[string][][]byte{}, events: len(w.events)}
	for _, a := range w.addrs {
		kv := w.state[a]
		s.addrs = append(s.addrs, a)
		s.keys[a] = append([]string{}, kv.keys...)
		s.vals[a] = append([][]byte{}, kv.vals...)
	}
	return s
}

// unchanged reports (as a possibly symbolic bool) whether state and events equal the snapshot.
func (w *zzWorld) unchanged(s *zzSnap) bool {
	res := len(w.events) == s.events
	for _, a := range w.addrs {
		kv := w.state[a]
		old := s.keys[a]
		if len(kv.keys) != len(old) {
			return false
		}
		for i, k := range kv.keys {
			// same key at same position (writes never reorder existing keys) and same value
			res = zz.And(res, zz.And(zz.EqStr(k, old[i]), zz.EqBytes(kv.vals[i], s.vals[a][i])))
		}
	}
	return res
}

// ---- the Stub ----

type zzStub struct {
	w             *zzWorld
	callee        string
	currentCaller string
}

var _ boltvm.Stub = (*zzStub)(nil)

func (s *zzStub) Caller() string                      { return s.w.caller }
func (s *zzStub) Callee() string                      { return s.callee }
func (s *zzStub) CurrentCaller() string               { return s.currentCaller }
func (s *zzStub) Logger() logrus.FieldLogger          { return s.w.logger }
func (s *zzStub) GetTxHash() *types.Hash              { return s.w.txHash }
func (s *zzStub) GetTxTimeStamp() int64               { return s.w.ts }
func (s *zzStub) GetTxIndex() uint64                  { return s.w.txIndex }
func (s *zzStub) GetCurrentHeight() uint64            { return s.w.height }
func (s *zzStub) EnableAudit() bool                   { return s.w.audit }
func (s *zzStub) ValidationEngine() validator.Engine  { return nil }
func (s *zzStub) Has(key string) bool                 { ok, _ := s.w.get(s.callee, key); return ok }
func (s *zzStub) Get(key string) (bool, []byte)       { return s.w.get(s.callee, key) }
func (s *zzStub) GetObject(key string, ret interface{}) bool {
	return s.w.getObj(s.callee, key, ret)
}
func (s *zzStub) Set(key string, value []byte) { s.w.effects++; s.w.put(s.callee, key, value) }
func (s *zzStub) Add(key string, value []byte) { s.w.effects++; s.w.put(s.callee, key, value) }
func (s *zzStub) SetObject(key string, value interface{}) {
	s.w.effects++
	s.w.putObj(s.callee, key, value)
}
func (s *zzStub) AddObject(key string, value interface{}) {
	s.w.effects++
	s.w.putObj(s.callee, key, value)
}
func (s *zzStub) Delete(key string) { s.w.effects++; s.w.del(s.callee, key) }
func (s *zzStub) Query(prefix string) (bool, [][]byte) {
	kv := s.w.kv(s.callee)
	var ks []string
	for _, k := range kv.keys {
		if strings.HasPrefix(k, prefix) {
			ks = append(ks, k)
		}
	}
	sort.Strings(ks)
	var out [][]byte
	for _, k := range ks {
		out = append(out, kv.vals[kv.find(k)])
	}
	return len(out) != 0, out
}
func (s *zzStub) PostEvent(t pb.Event_EventType, ev interface{}) {
	b, err := json.Marshal(ev)
	if err != nil {
		panic(err)
	}
	s.w.effects++
	s.w.events = append(s.w.events, zzEvent{typ: t, data: b})
}
func (s *zzStub) PostInterchainEvent(ev interface{}) { s.PostEvent(pb.Event_INTERCHAIN, ev) }
func (s *zzStub) CrossInvokeEVM(address string, input []byte) *boltvm.Response {
	zz.Cut("CrossInvokeEVM (EVM outside the claim)")
	return nil
}
func (s *zzStub) GetAccount(address string) interface{} {
	zz.Cut("GetAccount through the model stub")
	return nil
}

// CrossInvoke mirrors BoltStubImpl.CrossInvoke + BoltVM.Run + InvokeBVM.
func (s *zzStub) CrossInvoke(address, method string, args ...*pb.Arg) *boltvm.Response {
	s.w.calls = append(s.w.calls, address+"."+method)
	c, ok := s.w.contracts[address]
	if !ok {
		if s.w.foreign != nil {
			return s.w.foreign(address, method, args)
		}
		return boltvm.Error(boltvm.OtherInternalErrCode, fmt.Sprintf("get bolt contract: the address %v is not a bolt contract", address))
	}
	ret, err := zzInvoke(s.w, c, address, s.callee, method, args)
	if err != nil {
		return boltvm.Error(boltvm.OtherInternalErrCode, err.Error())
	}
	return boltvm.Success(ret)
}

// zzInvoke = BoltVM.Run/InvokeBVM for a contract instance (panics become errors).
func zzInvoke(w *zzWorld, c interface{}, address, currentCaller, method string, args []*pb.Arg) (ret []byte, err error) {
	defer func() {
		if e := recover(); e != nil {
			if zzIsControl(e) {
				panic(e)
			}
			err = fmt.Errorf("%v", e)
		}
	}()
	rc := reflect.ValueOf(c)
	stubField := rc.Elem().Field(0)
	stub := &zzStub{w: w, callee: address, currentCaller: currentCaller}
	if stubField.CanSet() {
		stubField.Set(reflect.ValueOf(stub))
	} else {
		return nil, fmt.Errorf("stub filed can`t set")
	}
	m := rc.MethodByName(method)
	if !m.IsValid() {
		return nil, fmt.Errorf("not such method `%s`", method)
	}
	fnArgs, err := zzParseArgs(args)
	if err != nil {
		return nil, fmt.Errorf("parse args: %w", err)
	}
	res := m.Call(fnArgs)[0].Interface().(*boltvm.Response)
	if !res.Ok {
		return nil, fmt.Errorf("call error: %s", res.Result)
	}
	return res.Result, nil
}

func zzIsControl(e interface{}) bool {
	s := fmt.Sprintf("%T", e)
	return strings.Contains(s, "zzverif.")
}

// zzParseArgs is a copy of pkg/vm/boltvm.parseArgs (import cycle prevents reuse here).
func zzParseArgs(in []*pb.Arg) ([]reflect.Value, error) {
	args := make([]reflect.Value, len(in))
	for i := 0; i < len(in); i++ {
		switch in[i].Type {
		case pb.Arg_F64:
			ret, err := strconv.ParseFloat(string(in[i].Value), 64)
			if err != nil {
				return nil, err
			}
			args[i] = reflect.ValueOf(ret)
		case pb.Arg_I32:
			ret, err := strconv.Atoi(string(in[i].Value))
			if err != nil {
				return nil, err
			}
			args[i] = reflect.ValueOf(int32(ret))
		case pb.Arg_I64:
			ret, err := strconv.Atoi(string(in[i].Value))
			if err != nil {
				return nil, err
			}
			args[i] = reflect.ValueOf(int64(ret))
		case pb.Arg_U64:
			ret, err := strconv.ParseUint(string(in[i].Value), 10, 64)
			if err != nil {
				return nil, err
			}
			args[i] = reflect.ValueOf(ret)
		case pb.Arg_String:
			args[i] = reflect.ValueOf(string(in[i].Value))
		case pb.Arg_Bytes:
			args[i] = reflect.ValueOf(in[i].Value)
		case pb.Arg_Bool:
			ret, err := strconv.ParseBool(string(in[i].Value))
			if err != nil {
				return nil, err
			}
			args[i] = reflect.ValueOf(ret)
		default:
			args[i] = reflect.ValueOf(string(in[i].Value))
		}
	}
	return args, nil
}

// well-known addresses
var (
	zzInterchainAddr = constant.InterchainContractAddr.Address().String()
	zzTMAddr         = constant.TransactionMgrContractAddr.Address().String()
	zzServiceAddr    = constant.ServiceMgrContractAddr.Address().String()
	zzAppchainAddr   = constant.AppchainMgrContractAddr.Address().String()
	zzGovAddr        = constant.GovernanceContractAddr.Address().String()
	zzRoleAddr       = constant.RoleContractAddr.Address().String()
	zzRuleAddr       = constant.RuleManagerContractAddr.Address().String()
	zzNodeAddr       = constant.NodeManagerContractAddr.Address().String()
	zzDappAddr       = constant.DappMgrContractAddr.Address().String()
	zzBrokerAddr     = constant.InterBrokerContractAddr.Address().String()
	zzStrategyAddr   = constant.ProposalStrategyMgrContractAddr.Address().String()
)

// zzDirect returns a stub for calling contract c at address directly with the given current caller.
func (w *zzWorld) stubFor(address, currentCaller string) *zzStub {
	return &zzStub{w: w, callee: address, currentCaller: currentCaller}
}
