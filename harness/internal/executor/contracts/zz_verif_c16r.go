//go:build verif

package contracts

import (
	"github.com/meshplus/bitxhub-core/governance"
	"github.com/meshplus/bitxhub-model/pb"
	zz "github.com/meshplus/bitxhub/internal/zzverif"
)

// ZZH_C16_relayed_gate: a request relayed from a service on a peer hub to a local destination
// goes through the real HandleIBTP (real TransactionManager behind CrossInvoke). The peer hub's
// availability, the local destination's registration, its status (ten governance statuses) and
// whether it blocks the source are symbolic; the index is the next one or not. A request from an
// unavailable hub or with a wrong index is rejected without effect; an accepted one is recorded
// BEGIN exactly when the destination exists, is usable and does not block the source, and
// otherwise BEGIN_FAILURE with the "begin_failure" answer, so that the source side rolls back.
// zz:also C02
func ZZH_C16_relayed_gate() {
	ic := zzNewICWorld()
	w := ic.w
	w.audit = zz.Choice("audit", 2) == 1
	from := "1357:chX:s7"
	to := "1356:chB:s2"
	c := uint64(zz.Choice("accepted", 3))
	i := uint64(1 + zz.Choice("index", 4))
	if zz.Choice("dstRegistered", 2) == 1 {
		ic.services["chB:s2"] = zzService("chB", "s2", "dstsvc", 10, from)
	}
	if c > 0 || zz.Choice("records", 2) == 1 {
		ic.putInterchain(&pb.Interchain{ID: from, InterchainCounter: map[string]uint64{to: c}, ReceiptCounter: map[string]uint64{to: 0},
			SourceInterchainCounter: map[string]uint64{}, SourceReceiptCounter: map[string]uint64{}})
		ic.putInterchain(&pb.Interchain{ID: to, InterchainCounter: map[string]uint64{}, ReceiptCounter: map[string]uint64{},
			SourceInterchainCounter: map[string]uint64{from: c}, SourceReceiptCounter: map[string]uint64{from: 0}})
		for j := uint64(1); j <= c; j++ {
			rec := pb.TransactionRecord{Status: pb.TransactionStatus_BEGIN, Height: 1}
			b, _ := rec.Marshal()
			w.put(zzTMAddr, TxInfoKey(getIBTPID(from, to, j)), b)
			w.putObj(zzInterchainAddr, IndexMapKey(getIBTPID(from, to, j)), w.txHash)
		}
	}
	id := getIBTPID(from, to, i)
	ibtp := &pb.IBTP{From: from, To: to, Index: i, Type: pb.IBTP_INTERCHAIN, TimeoutHeight: zz.I64("timeout")}
	snap := w.snapshot()
	res := ic.im.HandleIBTP(ibtp)
	zz.Cover("C16.relayed.accepted", res.Ok)
	zz.Cover("C16.relayed.rejected", !res.Ok)
	zz.Assert("C16.relayed.reject-no-effect", res.Ok || w.unchanged(snap))
	zz.Assert("C16.relayed.accepted-iff-hub-available-and-next-index", res.Ok == (ic.bxhAvail && i == c+1))
	if !res.Ok {
		return
	}
	rec, ok := zzRecord(w, id)
	zz.Assert("C16.relayed.record-created", ok)
	s := ic.services["chB:s2"]
	usable := s != nil && (s.Status == governance.GovernanceAvailable || s.Status == governance.GovernanceFreezing) && len(s.Permission) == 0
	zz.Assert("C16.relayed.begin-iff-destination-usable", (rec.Status == pb.TransactionStatus_BEGIN) == usable)
	if !usable {
		zz.Assert("C16.relayed.begin-failure-recorded", rec.Status == pb.TransactionStatus_BEGIN_FAILURE)
		zz.Assert("C16.relayed.begin-failure-reported", string(res.Result) == "begin_failure")
	}
	zz.Cover("C16.relayed.begin", rec.Status == pb.TransactionStatus_BEGIN)
	zz.Cover("C16.relayed.begin-failure", rec.Status == pb.TransactionStatus_BEGIN_FAILURE)
	postF, okF := ic.interchainOf(from)
	zz.Assert("C02.relayed.counter+1", okF && postF.InterchainCounter[to] == c+1)
	postT, okT := ic.interchainOf(to)
	zz.Assert("C02.relayed.dst-mirror", okT && postT.SourceInterchainCounter[from] == c+1)
}
