//go:build verif

package contracts

import (
	"encoding/json"

	"github.com/iancoleman/orderedmap"
	"github.com/meshplus/bitxhub-core/governance"
	nodemgr "github.com/meshplus/bitxhub-core/node-mgr"
	"github.com/meshplus/bitxhub-core/validator"
	"github.com/meshplus/bitxhub-model/pb"
	zz "github.com/meshplus/bitxhub/internal/zzverif"
)

// ZZH_C16_relayed_gate: a request relayed from a service on a peer hub to a local destination
// goes through the real HandleIBTP (real TransactionManager behind CrossInvoke). The peer hub's
// availability, the local destination's registration, its status (ten governance statuses) and
// whether it blocks the source are symbolic; the index is the next one or not. A request from an
// unavailable hub or with a wrong index is rejected without effect; an accepted one is recorded
// BEGIN exactly when the destination exists, is usable and does not block the source, and
// otherwise BEGIN_FAILURE with the "begin_failure" answer, so that the source side rolls back.
// zz:also C02
func ZZH_C16_relayed_gate() {
	ic := zzNewICWorld()
	w := ic.w
	w.audit = zz.Choice("audit", 2) == 1
	from := "1357:chX:s7"
	to := "1356:chB:s2"
	c := uint64(zz.Choice("accepted", 3))
	i := uint64(1 + zz.Choice("index", 4))
	if zz.Choice("dstRegistered", 2) == 1 {
		ic.services["chB:s2"] = zzService("chB", "s2", "dstsvc", 10, from)
	}
	if c > 0 || zz.Choice("records", 2) == 1 {
		ic.putInterchain(&pb.Interchain{ID: from, InterchainCounter: map[string]uint64{to: c}, ReceiptCounter: map[string]uint64{to: 0},
			SourceInterchainCounter: map[string]uint64{}, SourceReceiptCounter: map[string]uint64{}})
		ic.putInterchain(&pb.Interchain{ID: to, InterchainCounter: map[string]uint64{}, ReceiptCounter: map[string]uint64{},
			SourceInterchainCounter: map[string]uint64{from: c}, SourceReceiptCounter: map[string]uint64{from: 0}})
		for j := uint64(1); j <= c; j++ {
			rec := pb.TransactionRecord{Status: pb.TransactionStatus_BEGIN, Height: 1}
			b, _ := rec.Marshal()
			w.put(zzTMAddr, TxInfoKey(getIBTPID(from, to, j)), b)
			w.putObj(zzInterchainAddr, IndexMapKey(getIBTPID(from, to, j)), w.txHash)
		}
	}
	id := getIBTPID(from, to, i)
	ibtp := &pb.IBTP{From: from, To: to, Index: i, Type: pb.IBTP_INTERCHAIN, TimeoutHeight: zz.I64("timeout")}
	snap := w.snapshot()
	res := ic.im.HandleIBTP(ibtp)
	zz.Cover("C16.relayed.accepted", res.Ok)
	zz.Cover("C16.relayed.rejected", !res.Ok)
	zz.Assert("C16.relayed.reject-no-effect", res.Ok || w.unchanged(snap))
	zz.Assert("C16.relayed.accepted-iff-hub-available-and-next-index", res.Ok == (ic.bxhAvail && i == c+1))
	if !res.Ok {
		return
	}
	rec, ok := zzRecord(w, id)
	zz.Assert("C16.relayed.record-created", ok)
	s := ic.services["chB:s2"]
	usable := s != nil && (s.Status == governance.GovernanceAvailable || s.Status == governance.GovernanceFreezing) && len(s.Permission) == 0
	zz.Assert("C16.relayed.begin-iff-destination-usable", (rec.Status == pb.TransactionStatus_BEGIN) == usable)
	if !usable {
		zz.Assert("C16.relayed.begin-failure-recorded", rec.Status == pb.TransactionStatus_BEGIN_FAILURE)
		zz.Assert("C16.relayed.begin-failure-reported", string(res.Result) == "begin_failure")
	}
	zz.Cover("C16.relayed.begin", rec.Status == pb.TransactionStatus_BEGIN)
	zz.Cover("C16.relayed.begin-failure", rec.Status == pb.TransactionStatus_BEGIN_FAILURE)
	postF, okF := ic.interchainOf(from)
	zz.Assert("C02.relayed.counter+1", okF && postF.InterchainCounter[to] == c+1)
	postT, okT := ic.interchainOf(to)
	zz.Assert("C02.relayed.dst-mirror", okT && postT.SourceInterchainCounter[from] == c+1)
}

// ZZH_C16_logged_out_admin: an audit admin bound to an audit node. The node's logout is approved
// (the real NodeManager tells the real RoleManager to pause the admin: frozen) or not; then the
// admin's own logout is approved through the real RoleManager.Manage (forbidden). Afterwards
// somebody applies for a new appchain naming that address as its admin (the real
// AppchainManager.RegisterAppchain, and - if the application is accepted - the approval through the
// real Manage): a role that was logged out never becomes usable again, under no role type.
func ZZH_C16_logged_out_admin() {
	w, cs := zzFullWorld()
	w.audit = zz.Choice("audit", 2) == 1
	zzPutGovAdmins(w, 4)
	admin := "0xAD00000000000000000000000000000000000001"
	node := "0xE200000000000000000000000000000000000002"
	w.putObj(zzNodeAddr, nodemgr.NodeKey(node), nodemgr.Node{Account: node, NodeType: nodemgr.NVPNode, Name: "n2", Permissions: map[string]struct{}{"chA": {}},
		AuditAdminAddr: admin, Status: governance.GovernanceAvailable})
	ids := orderedmap.New()
	ids.Set(admin, struct{}{})
	w.putObj(zzRoleAddr, RoleTypeKey(string(AuditAdmin)), ids)
	w.putObj(zzRoleAddr, RoleKey(admin), Role{ID: admin, RoleType: AuditAdmin, NodeAccount: node, Status: governance.GovernanceAvailable})
	w.putObj(zzRoleAddr, OccupyAccountKey(admin), string(AuditAdmin))
	roleOf := func() Role {
		var r Role
		w.getObj(zzRoleAddr, RoleKey(admin), &r)
		return r
	}
	if zz.Choice("nodeLoggedOutFirst", 2) == 1 {
		// the node manager's cascade on an approved node logout
		_, err := zzTx(w, cs[zzRoleAddr], zzRoleAddr, zzNodeAddr, "PauseAuditAdmin", []*pb.Arg{pb.String(node)})
		zz.Assert("C16.loggedout.pause", err == nil && roleOf().Status == governance.GovernanceFrozen)
	}
	// the admin's logout: submitted (status logouting), then approved
	last := roleOf().Status
	r := roleOf()
	r.Status = governance.GovernanceLogouting
	w.putObj(zzRoleAddr, RoleKey(admin), r)
	_, err := zzTx(w, cs[zzRoleAddr], zzRoleAddr, zzGovAddr, "Manage",
		[]*pb.Arg{pb.String(string(governance.EventLogout)), pb.String(string(APPROVED)), pb.String(string(last)), pb.String(admin), pb.Bytes(nil)})
	zz.Assert("C16.loggedout.logout-approved", err == nil && roleOf().Status == governance.GovernanceForbidden)
	// an application for a new chain names the logged-out address as chain admin
	applicant := []string{zzMallory, admin}[zz.Choice("applicant", 2)]
	ret, aerr := zzTx(w, cs[zzAppchainAddr], zzAppchainAddr, applicant, "RegisterAppchain", []*pb.Arg{
		pb.String("chX"), pb.String("nameX"), pb.Bytes(nil), pb.String("ETH"), pb.Bytes([]byte("root")), pb.String("0xBroker"), pb.String("desc"),
		pb.String(validator.HappyRuleAddr), pb.String("url"), pb.String(admin), pb.String("reason")})
	zz.Cover("C16.loggedout.application-refused", aerr != nil)
	if aerr == nil {
		var gr governance.GovernanceResult
		_ = json.Unmarshal(ret, &gr)
		if p, ok := zzProposalOf(w, gr.ProposalID); ok {
			_, _ = zzTx(w, cs[zzAppchainAddr], zzAppchainAddr, zzGovAddr, "Manage",
				[]*pb.Arg{pb.String(string(governance.EventRegister)), pb.String(string(APPROVED)), pb.String(""), pb.String("chX"), pb.Bytes(p.Extra)})
		}
	}
	post := roleOf()
	zz.Assert("C16.loggedout.role-stays-forbidden", post.Status == governance.GovernanceForbidden)
	for _, rt := range []string{string(AppchainAdmin), string(AuditAdmin), string(GovernanceAdmin)} {
		res, _ := zzInvoke(w, cs[zzRoleAddr], zzRoleAddr, zzMallory, "IsAnyAvailableAdmin", []*pb.Arg{pb.String(admin), pb.String(rt)})
		zz.Assert("C16.loggedout.never-an-available-admin-again", string(res) != "true")
	}
}
