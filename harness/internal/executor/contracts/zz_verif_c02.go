//go:build verif

package contracts

import (
	"encoding/json"

	"github.com/meshplus/bitxhub-core/boltvm"
	"github.com/meshplus/bitxhub-core/governance"
	service_mgr "github.com/meshplus/bitxhub-core/service-mgr"
	"github.com/meshplus/bitxhub-model/pb"
	zz "github.com/meshplus/bitxhub/internal/zzverif"
	"sync"
)

const zzHubID = "1356"

var zzServiceStatuses = []governance.GovernanceStatus{
	governance.GovernanceAvailable, governance.GovernanceFreezing, governance.GovernanceFrozen,
	governance.GovernancePause, governance.GovernanceForbidden, governance.GovernanceUnavailable,
	governance.GovernanceRegisting, governance.GovernanceUpdating, governance.GovernanceActivating,
	governance.GovernanceLogouting,
}

// zzInterchainWorld prepares the interchain contract unit: real InterchainManager state,
// real TransactionManager behind CrossInvoke, foreign (nondeterministic) service manager,
// appchain manager and inter-broker.
type zzICWorld struct {
	w         *zzWorld
	services  map[string]*service_mgr.Service // chainServiceID -> ledger record (nil: not registered)
	bxhAvail  bool
	brokerOk  bool
	recordOk  bool
	im        *InterchainManager
}

func zzNewICWorld() *zzICWorld {
	w := zzNewWorld()
	w.caller = "0xc7F999b83Af6DF9e67d0a37Ee7e900bF38b3D013"
	ic := &zzICWorld{w: w, services: map[string]*service_mgr.Service{}}
	w.put(zzInterchainAddr, BitXHubID, []byte(zzHubID))
	w.contracts[zzTMAddr] = &TransactionManager{}
	ic.bxhAvail = zz.Bool("bxhAvailable")
	ic.brokerOk = zz.Bool("brokerOk")
	w.foreign = func(addr, method string, args []*pb.Arg) *boltvm.Response {
		switch {
		case addr == zzServiceAddr && method == "GetServiceInfo":
			s, ok := ic.services[string(args[0].Value)]
			if !ok || s == nil {
				return boltvm.Error(boltvm.ServiceNonexistentServiceCode, "service not found")
			}
			data, _ := json.Marshal(s)
			return boltvm.Success(data)
		case addr == zzServiceAddr && method == "RecordInvokeService":
			return boltvm.Success(nil)
		case addr == zzAppchainAddr && method == "IsAvailableBitxhub":
			if ic.bxhAvail {
				return boltvm.Success([]byte(TRUE))
			}
			return boltvm.Success([]byte(FALSE))
		case addr == zzBrokerAddr:
			if ic.brokerOk {
				return boltvm.Success(nil)
			}
			return boltvm.Error(boltvm.OtherInternalErrCode, "broker failed")
		}
		return boltvm.Error(boltvm.OtherInternalErrCode, "unexpected cross invoke "+addr+"."+method)
	}
	ic.im = &InterchainManager{Stub: w.stubFor(zzInterchainAddr, w.caller), ServiceCache: &sync.Map{}}
	return ic
}

// zzService builds a service record with a status chosen among the first n statuses.
func zzService(chain, sid string, name string, nStatus int, blockFrom string) *service_mgr.Service {
	st := zzServiceStatuses[zz.Choice(name+".status", nStatus)]
	s := &service_mgr.Service{ChainID: chain, ServiceID: sid, Ordered: true, Status: st, Permission: map[string]struct{}{}}
	if blockFrom != "" && zz.Choice(name+".blocks", 2) == 1 {
		s.Permission[blockFrom] = struct{}{}
	}
	return s
}

func (ic *zzICWorld) interchainOf(id string) (*pb.Interchain, bool) {
	x := &pb.Interchain{}
	ok, b := ic.w.get(zzInterchainAddr, serviceKey(id))
	if !ok {
		return x, false
	}
	if err := x.Unmarshal(b); err != nil {
		return x, false
	}
	return x, true
}

func (ic *zzICWorld) putInterchain(x *pb.Interchain) {
	b, _ := x.Marshal()
	ic.w.put(zzInterchainAddr, serviceKey(x.ID), b)
}

func zzInterchainEvents(w *zzWorld, from int) []map[string]*pb.EventWrapper {
	var out []map[string]*pb.EventWrapper
	for _, e := range w.events[from:] {
		if e.typ == pb.Event_INTERCHAIN {
			m := map[string]*pb.EventWrapper{}
			if json.Unmarshal(e.data, &m) == nil {
				out = append(out, m)
			}
		}
	}
	return out
}

var zzDsts = []string{"1356:chB:s2", "1356:1356:sB", "1357:chB:s2", "1356:chA:s1"} // last: the source itself (self pair)

// ZZH_C02_step: one HandleIBTP from an arbitrary consistent pre-state (Inv-IC):
// for the pair (S,D): InterchainCounter[S][D]=c, ReceiptCounter[S][D]=r (mirrored on D), r<=c<2^62,
// a transaction record exists for S-D-j exactly for j<=c. Destination services are ordered.
func ZZH_C02_step() { zzHandleIBTPStep(6, false) }

// ZZH_C16_gate: the same step restricted to requests, with source and destination service
// status ranging over ten governance statuses: a request is accepted as BEGIN only from an
// available (or freezing) source to an existing, available, non-blocking destination;
// destination problems yield begin_failure, source problems a rejection without effect.
func ZZH_C16_gate() { zzHandleIBTPStep(10, true) }

func zzHandleIBTPStep(nStatus int, onlyRequests bool) {
	ic := zzNewICWorld()
	w := ic.w
	w.audit = zz.Choice("audit", 2) == 1
	from := "1356:chA:s1"
	dk := zz.Choice("dst", len(zzDsts))
	to := zzDsts[dk]
	// a local destination service may be identified by a contract address, spelt as its owner
	// registered it (mixed case): counters and records belong to the exact pair of id strings
	dstSvc := "s2"
	if dk == 0 && !onlyRequests && !w.audit && zz.Choice("dstIdIsAnAddress", 2) == 1 {
		dstSvc = "0xAbCdEF0123456789aBcDeF0123456789ABcdef01"
		to = "1356:chB:" + dstSvc
	}
	c := zz.U64("c")
	r := zz.U64("r")
	zz.Assume(r <= c)
	zz.Assume(c < 1<<62)
	i := zz.U64("index")
	zz.Assume(i < 1<<62)
	t := pb.IBTP_Type(zz.I32("type"))
	zz.Assume(t >= 0)
	zz.Assume(t <= 4)
	if onlyRequests {
		zz.Assume(t == pb.IBTP_INTERCHAIN)
		zz.Assume(c == 0)
		zz.Assume(i == 1)
	}
	// services: source always registered with arbitrary status; local destination registered or not
	ic.services["chA:s1"] = zzService("chA", "s1", "src", nStatus, "")
	if dk == 0 && zz.Choice("dstRegistered", 2) == 1 {
		ic.services["chB:"+dstSvc] = zzService("chB", dstSvc, "dstsvc", nStatus, from)
	}
	// interchain records
	icF := &pb.Interchain{ID: from, InterchainCounter: map[string]uint64{to: c}, ReceiptCounter: map[string]uint64{to: r},
		SourceInterchainCounter: map[string]uint64{}, SourceReceiptCounter: map[string]uint64{}}
	self := dk == 3
	if self {
		icF.SourceInterchainCounter[from] = c
		icF.SourceReceiptCounter[from] = r
	}
	ic.putInterchain(icF)
	toExists := self || zz.Choice("dstRecord", 2) == 1
	if self {
		// one record serves as source and destination
	} else if toExists {
		icT := &pb.Interchain{ID: to, InterchainCounter: map[string]uint64{}, ReceiptCounter: map[string]uint64{},
			SourceInterchainCounter: map[string]uint64{from: c}, SourceReceiptCounter: map[string]uint64{from: r}}
		ic.putInterchain(icT)
	} else {
		zz.Assume(c == 0)
	}
	id := getIBTPID(from, to, i)
	preStatus := pb.TransactionStatus(zz.I32("recStatus"))
	zz.Assume(preStatus >= 0)
	zz.Assume(preStatus <= 5)
	recH := zz.U64("recHeight")
	hasRec := false
	if i >= 1 && i <= c {
		hasRec = true
		rec := pb.TransactionRecord{Status: preStatus, Height: recH}
		b, _ := rec.Marshal()
		w.put(zzTMAddr, TxInfoKey(id), b)
		w.putObj(zzInterchainAddr, IndexMapKey(id), w.txHash)
		// a record whose receipt was already accepted is final (part of Inv-IC)
		zz.Assume(zz.Implies(i <= r, zz.Or(preStatus == pb.TransactionStatus_SUCCESS, zz.Or(preStatus == pb.TransactionStatus_FAILURE, preStatus == pb.TransactionStatus_ROLLBACK))))
		zz.Assume(zz.Implies(i > r, zz.Not(zz.Or(preStatus == pb.TransactionStatus_SUCCESS, zz.Or(preStatus == pb.TransactionStatus_FAILURE, preStatus == pb.TransactionStatus_ROLLBACK)))))
	}
	ibtp := &pb.IBTP{From: from, To: to, Index: i, Type: t, TimeoutHeight: zz.I64("timeout")}
	// the Extra field is the sender's to fill: empty, or something that decodes as another hub's
	// begin-failure / rollback notice (only meaningful for requests that really come from another hub)
	// (for a destination on another hub such an Extra IS that hub's notice - the inter-hub protocol,
	// whose proof the pool checks first: C03/C04 - so the variants are applied to same-hub pairs only)
	extra := 0
	if dk != 2 {
		extra = zz.Choice("extra", 3)
	}
	switch extra {
	case 1:
		ibtp.Extra, _ = (&pb.BxhProof{TxStatus: pb.TransactionStatus_BEGIN_FAILURE}).Marshal()
	case 2:
		ibtp.Extra, _ = (&pb.BxhProof{TxStatus: pb.TransactionStatus_BEGIN_ROLLBACK}).Marshal()
	}
	snap := w.snapshot()
	nEv := len(w.events)
	res := ic.im.HandleIBTP(ibtp)

	isReq := t == pb.IBTP_INTERCHAIN
	isRcpt := t == pb.IBTP_RECEIPT_SUCCESS || t == pb.IBTP_RECEIPT_FAILURE || t == pb.IBTP_RECEIPT_ROLLBACK
	zz.Cover("C02.request-accepted", res.Ok && isReq)
	if !onlyRequests {
		zz.Cover("C02.receipt-accepted", res.Ok && isRcpt)
	}
	zz.Cover("C02.rejected", !res.Ok)
	zz.Tag("C02.D15", w.audit && !toExists && dk == 1)
	zz.Assert("C02.reject-no-effect", res.Ok || w.unchanged(snap))
	if !res.Ok {
		return
	}
	zz.Assert("C02.known-type", isReq || isRcpt)
	postF, okF := ic.interchainOf(from)
	zz.Assert("C02.src-record", okF)
	evs := zzInterchainEvents(w, nEv)
	zz.Assert("C02.one-event", len(evs) == 1)
	if isReq {
		zz.Assert("C02.accept-iff-next", i == c+1)
		zz.Assert("C02.counter+1", postF.InterchainCounter[to] == c+1)
		zz.Assert("C02.receipt-counter-kept", postF.ReceiptCounter[to] == r)
		rec, ok := zzRecord(w, id)
		zz.Assert("C02.record-created", ok && (rec.Status == pb.TransactionStatus_BEGIN || rec.Status == pb.TransactionStatus_BEGIN_FAILURE))
		ok2, _ := w.get(zzInterchainAddr, IndexMapKey(id))
		zz.Assert("C02.index-tx", ok2)
		if dk != 1 {
			postT, okT := ic.interchainOf(to)
			zz.Assert("C02.dst-mirror", okT && postT.SourceInterchainCounter[from] == i)
		}
		if rec.Status == pb.TransactionStatus_BEGIN {
			// delivered exactly to its destination
			want := "chB"
			if self {
				want = "chA"
			}
			if dk == 1 {
				want = zzHubID
			}
			if dk == 2 {
				want = DEFAULT_UNION_PIER_ID
			}
			_, has := evs[0][want]
			zz.Assert("C02.delivered-to-dst", has && len(evs[0]) == 1)
			if dk == 0 {
				s := ic.services["chB:"+dstSvc]
				zz.Assert("C16.dst-gate", s != nil && (s.Status == governance.GovernanceAvailable || s.Status == governance.GovernanceFreezing) && len(s.Permission) == 0)
			}
		} else {
			// accepted as begin-failure: it consumed its index, so its destination still has to learn of
			// it (it is listed in the destination's delivery set) and the source is told to roll back
			want := "chB"
			if self {
				want = "chA"
			}
			if dk == 1 {
				want = zzHubID
			}
			if dk == 2 {
				want = DEFAULT_UNION_PIER_ID
			}
			_, hasDst := evs[0][want]
			_, hasSrc := evs[0]["chA"]
			zz.Assert("C02.begin-failure-listed-for-dst-and-src", hasDst && hasSrc)
		}
		if rec.Status != pb.TransactionStatus_BEGIN && dk == 0 {
			// begin_failure: the local destination really was unusable
			s := ic.services["chB:"+dstSvc]
			zz.Assert("C16.begin-failure-only-if-dst-unusable", s == nil || !(s.Status == governance.GovernanceAvailable || s.Status == governance.GovernanceFreezing) || len(s.Permission) != 0)
			zz.Assert("C16.begin-failure-reported", string(res.Result) == "begin_failure")
		}
		src := ic.services["chA:s1"]
		zz.Assert("C16.src-gate", src.Status == governance.GovernanceAvailable || src.Status == governance.GovernanceFreezing)
	} else {
		zz.Assert("C02.receipt-iff-next", i == r+1 && i <= c)
		zz.Assert("C02.receipt-needs-record", hasRec)
		rec, ok := zzRecord(w, id)
		zz.Assert("C02.record-kept", ok)
		final := rec.Status == pb.TransactionStatus_SUCCESS || rec.Status == pb.TransactionStatus_FAILURE || rec.Status == pb.TransactionStatus_ROLLBACK
		zz.Assert("C02.request-counter-kept", postF.InterchainCounter[to] == c)
		if final {
			zz.Assert("C02.receipt-counter", postF.ReceiptCounter[to] == i)
			postT, okT := ic.interchainOf(to)
			zz.Assert("C02.receipt-mirror", okT && postT.SourceReceiptCounter[from] == i)
		} else {
			zz.Assert("C02.receipt-counter-unchanged", postF.ReceiptCounter[to] == r)
		}
	}
}
