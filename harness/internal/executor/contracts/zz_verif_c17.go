//go:build verif

package contracts

import (
	"encoding/json"
	"fmt"
	"reflect"
	"sync"

	appchainMgr "github.com/meshplus/bitxhub-core/appchain-mgr"
	"github.com/iancoleman/orderedmap"
	"github.com/meshplus/bitxhub-core/boltvm"
	"github.com/meshplus/bitxhub-core/governance"
	ruleMgr "github.com/meshplus/bitxhub-core/rule-mgr"
	"github.com/meshplus/bitxhub-core/validator"
	nodemgr "github.com/meshplus/bitxhub-core/node-mgr"
	service_mgr "github.com/meshplus/bitxhub-core/service-mgr"
	"github.com/meshplus/bitxhub-model/pb"
	zz "github.com/meshplus/bitxhub/internal/zzverif"
)

const zzOutsider = "0x9999999999999999999999999999999999999999"

// zzFullWorld registers the real built-in contracts (as registerBoltContracts does) over a
// populated state: a final zero-permission proposal, an interchain record, a transaction record.
func zzFullWorld() (*zzWorld, map[string]interface{}) {
	w := zzNewWorld()
	cs := map[string]interface{}{
		zzInterchainAddr: &InterchainManager{ServiceCache: &sync.Map{}},
		zzTMAddr:         &TransactionManager{},
		zzServiceAddr:    &ServiceManager{},
		zzAppchainAddr:   &AppchainManager{},
		zzGovAddr:        &Governance{},
		zzRoleAddr:       &RoleManager{},
		zzRuleAddr:       &RuleManager{},
		zzNodeAddr:       &NodeManager{},
		zzDappAddr:       &DappManager{},
		zzBrokerAddr:     &InterBroker{},
		zzStrategyAddr:   &GovStrategy{},
	}
	for a, c := range cs {
		w.contracts[a] = c
	}
	w.put(zzInterchainAddr, BitXHubID, []byte(zzHubID))
	// populated state the methods could tamper with
	p := &Proposal{Id: "0xSponsor-0", Typ: ServiceMgr, Status: APPROVED, ObjId: "chA:s1", ObjLastStatus: governance.GovernanceAvailable,
		BallotMap: map[string]pb.Ballot{}, EventType: governance.EventUpdate, StrategyType: ZeroPermission, EndReason: NormalReason}
	w.putObj(zzGovAddr, ProposalKey(p.Id), *p)
	// an open proposal on the service chA:s1 (updating), four electors
	open := &Proposal{Id: "0xSponsor-1", Typ: ServiceMgr, Status: PROPOSED, ObjId: "chA:s1", ObjLastStatus: governance.GovernanceAvailable,
		BallotMap: map[string]pb.Ballot{}, EventType: governance.EventUpdate, StrategyType: SimpleMajority, StrategyExpression: "a > 0.5 * t",
		InitialElectorateNum: 4, AvailableElectorateNum: 4, ThresholdApproveNum: 3}
	for _, id := range zzAdminIDs {
		open.ElectorateList = append(open.ElectorateList, &Role{ID: id, RoleType: GovernanceAdmin, Weight: 1, Status: governance.GovernanceAvailable})
	}
	w.putObj(zzGovAddr, ProposalKey(open.Id), *open)
	w.putObj(zzServiceAddr, service_mgr.ServiceKey("chA:s1"), service_mgr.Service{ChainID: "chA", ServiceID: "s1", Name: "s1", Type: service_mgr.ServiceCallContract,
		Ordered: true, Permission: map[string]struct{}{}, Status: governance.GovernanceUpdating})
	ic := &pb.Interchain{ID: "1356:chA:s1", InterchainCounter: map[string]uint64{"1356:chB:s2": 3}, ReceiptCounter: map[string]uint64{"1356:chB:s2": 2},
		SourceInterchainCounter: map[string]uint64{}, SourceReceiptCounter: map[string]uint64{}}
	b, _ := ic.Marshal()
	w.put(zzInterchainAddr, serviceKey(ic.ID), b)
	rec := pb.TransactionRecord{Status: pb.TransactionStatus_SUCCESS, Height: 9}
	rb, _ := rec.Marshal()
	w.put(zzTMAddr, TxInfoKey("1356:chA:s1-1356:chB:s2-1"), rb)
	w.caller = zzOutsider
	return w, cs
}

// zzArgsFor synthesises well-typed arguments: every string parameter takes the same value
// (one of a few interesting ids), numbers are 1, everything else the zero value.
func zzArgsFor(m reflect.Value, str string) []reflect.Value {
	t := m.Type()
	var out []reflect.Value
	for i := 0; i < t.NumIn(); i++ {
		pt := t.In(i)
		switch pt.Kind() {
		case reflect.String:
			out = append(out, reflect.ValueOf(str))
		case reflect.Uint64:
			out = append(out, reflect.ValueOf(uint64(1)))
		case reflect.Int64:
			out = append(out, reflect.ValueOf(int64(1)))
		case reflect.Int32:
			out = append(out, reflect.ValueOf(int32(1)))
		case reflect.Bool:
			out = append(out, reflect.ValueOf(false))
		case reflect.Float64:
			out = append(out, reflect.ValueOf(float64(1)))
		default:
			out = append(out, reflect.Zero(pt))
		}
	}
	return out
}

var zzSurfaceStrings = []string{"0xSponsor-0", "0xSponsor-1", "chA", "chA:s1", "1356:chA:s1", "1356:chA:s1-1356:chB:s2-1", "x"}

// zzCallAsOutsider invokes contract.method the way BoltVM.Run would for an external account.
func zzCallAsOutsider(w *zzWorld, c interface{}, address, method, str string) (res *boltvm.Response, panicked bool) {
	return zzCallAs(w, zzOutsider, c, address, method, str)
}

// zzCallAs invokes contract.method the way BoltVM.Run would for the external account caller.
func zzCallAs(w *zzWorld, caller string, c interface{}, address, method, str string) (res *boltvm.Response, panicked bool) {
	defer func() {
		if e := recover(); e != nil {
			if zzIsControl(e) {
				panic(e)
			}
			panicked = true
			res = boltvm.Error(boltvm.OtherInternalErrCode, fmt.Sprintf("%v", e))
		}
	}()
	rc := reflect.ValueOf(c)
	rc.Elem().Field(0).Set(reflect.ValueOf(&zzStub{w: w, callee: address, currentCaller: caller}))
	m := rc.MethodByName(method)
	if t := m.Type(); t.NumOut() != 1 || t.Out(0) != reflect.TypeOf((*boltvm.Response)(nil)) {
		// methods promoted from embedded bitxhub-core types do not return *boltvm.Response: the
		// real BoltVM runs them, fails on the result's type and the transaction is reverted.
		// Modelled as refused (journaled effects only; Add/events of failed transactions are C07.D6/D7)
		return boltvm.Error(boltvm.OtherInternalErrCode, "not a contract entry point"), false
	}
	out := m.Call(zzArgsFor(m, str))
	if len(out) == 1 {
		if r, ok := out[0].Interface().(*boltvm.Response); ok {
			return r, false
		}
	}
	return nil, false
}

// zzUserEntry lists the entry points an arbitrary external account may use with effect
// (documented public operations); everything else must leave the state untouched for it.
var zzUserEntry = map[string]bool{}

func zzSurface(address string, audit bool) {
	w, cs := zzFullWorld()
	w.audit = audit
	c := cs[address]
	names := zz.Methods(c)
	var list []string
	for _, n := range names {
		switch n {
		case "Caller", "Callee", "CurrentCaller", "Logger", "GetTxHash", "GetTxTimeStamp", "GetTxIndex", "GetCurrentHeight", "Has", "Get", "GetObject",
			"Set", "SetObject", "Add", "AddObject", "Delete", "Query", "PostEvent", "PostInterchainEvent", "ValidationEngine", "CrossInvoke",
			"CrossInvokeEVM", "GetAccount", "EnableAudit":
			// methods promoted from the embedded Stub: BoltVM cannot reach them meaningfully
			// (they are checked separately in ZZH_C17_stub_promoted)
			continue
		}
		list = append(list, n)
	}
	method := list[zz.Choice("method", len(list))]
	str := zzSurfaceStrings[zz.Choice("strings", len(zzSurfaceStrings))]
	// who calls: an account without any role, the admin of ANOTHER appchain (chB; every object
	// named by the arguments belongs to chA), a consensus node's account, or a governance admin
	caller := zzOutsider
	switch zz.Choice("callerRole", 4) {
	case 3:
		caller = zzAdminIDs[0]
		zzPutGovAdmins(w, 4)
	case 1:
		caller = zzChainAdminB
		zzPutChainAdmin(w, "chB", zzChainAdminB)
	case 2:
		caller = zzNodeAccount
		w.putObj(zzNodeAddr, nodemgr.NodeKey(zzNodeAccount), nodemgr.Node{Account: zzNodeAccount, NodeType: nodemgr.VPNode, Pid: "QmNode", VPNodeId: 1, Primary: true, Status: governance.GovernanceAvailable})
	}
	w.caller = caller
	before := w.effects
	snap := w.snapshot()
	res, _ := zzCallAs(w, caller, c, address, method, str)
	key := fmt.Sprintf("%T.%s", c, method)
	zz.Observe("call", key)
	if res != nil {
		zz.NoAddress("C01.no-address-in-result:"+key, res.Result)
	}
	zz.Tag("C17.F-broker", address == zzBrokerAddr)
	zz.Tag("C17.D13-register", key == "*contracts.InterchainManager.Register")
	// (the label says "outsider" for every role: with these arguments - ids of chA's objects,
	// a finished proposal, junk - none of the four callers is the designated caller of anything)
	if !zzUserEntry[key] {
		zz.Assert("C17.outsider-no-effect:"+key, w.effects == before && w.unchanged(snap))
	}
}

// ZZH_C03_entry_points: an external account hands a well-formed IBTP (claiming to come from
// appchain service chA:s1) directly to the interchain contract's data entry point, or emits one
// through the inter-broker: no proof was verified, so nothing may change.
func ZZH_C03_entry_points() {
	ic := zzNewICWorld()
	w := ic.w
	w.contracts[zzInterchainAddr] = ic.im
	w.contracts[zzBrokerAddr] = &InterBroker{}
	ic.services["chA:s1"] = zzService("chA", "s1", "src", 1, "")
	ic.services["chB:s2"] = zzService("chB", "s2", "dst", 1, "")
	from, to := "1356:chA:s1", "1356:chB:s2"
	ic.putInterchain(&pb.Interchain{ID: from, InterchainCounter: map[string]uint64{}, ReceiptCounter: map[string]uint64{},
		SourceInterchainCounter: map[string]uint64{}, SourceReceiptCounter: map[string]uint64{}})
	idx := zz.U64("index")
	ibtp := &pb.IBTP{From: from, To: to, Index: idx, Type: pb.IBTP_INTERCHAIN}
	data, _ := ibtp.Marshal()
	snap := w.snapshot()
	var res *boltvm.Response
	via := zz.Choice("via", 2)
	if via == 0 {
		ret, err := zzInvoke(w, ic.im, zzInterchainAddr, zzOutsider, "HandleIBTPData", []*pb.Arg{pb.Bytes(data)})
		res = boltvm.ResponseWrapper(err == nil, ret)
	} else {
		ret, err := zzInvoke(w, w.contracts[zzBrokerAddr], zzBrokerAddr, zzOutsider, "EmitInterchain",
			[]*pb.Arg{pb.String(from), pb.String(to), pb.String("f,cb,rb"), pb.String("a"), pb.String("b"), pb.String("c")})
		res = boltvm.ResponseWrapper(err == nil, ret)
	}
	zz.Cover("C03.entry.accepted", res.Ok)
	zz.Tag("C03.D14", true)
	post, _ := ic.interchainOf(from)
	zz.Assert("C03.entry.unverified-ibtp-has-no-effect", post.InterchainCounter[to] == 0 && (via == 1 || w.unchanged(snap)))
}

// zz:also C15 C08
func ZZH_C17_surface_governance() { zzSurface(zzGovAddr, zz.Choice("audit", 2) == 1) }
// zz:also C02 C08
func ZZH_C17_surface_interchain() { zzSurface(zzInterchainAddr, zz.Choice("audit", 2) == 1) }
func ZZH_C17_surface_txmgr()      { zzSurface(zzTMAddr, false) }
func ZZH_C17_surface_service()    { zzSurface(zzServiceAddr, zz.Choice("audit", 2) == 1) }
func ZZH_C17_surface_appchain()   { zzSurface(zzAppchainAddr, zz.Choice("audit", 2) == 1) }
func ZZH_C17_surface_role()       { zzSurface(zzRoleAddr, zz.Choice("audit", 2) == 1) }
func ZZH_C17_surface_rule()       { zzSurface(zzRuleAddr, zz.Choice("audit", 2) == 1) }
func ZZH_C17_surface_node()       { zzSurface(zzNodeAddr, zz.Choice("audit", 2) == 1) }
func ZZH_C17_surface_dapp()       { zzSurface(zzDappAddr, zz.Choice("audit", 2) == 1) }
func ZZH_C17_surface_strategy()   { zzSurface(zzStrategyAddr, zz.Choice("audit", 2) == 1) }
func ZZH_C17_surface_broker()     { zzSurface(zzBrokerAddr, false) }

const (
	zzChainAdminA = "0xA000000000000000000000000000000000000001"
	zzChainAdminB = "0xB000000000000000000000000000000000000002"
)

// ZZH_C17_chain_admin_scope: the appchain manager records the admins of two appchains through
// the real RoleManager.UpdateAppchainAdmin (either order, optionally a later re-assignment of one
// chain). An appchain admin's authority is confined to its own chain: GetAppchainAdmin(chain)
// names exactly that chain's admins, and ServiceManager.RegisterService for a chain is refused
// without effect for the other chain's admin and for an outsider (PermissionSelf).
func ZZH_C17_chain_admin_scope() {
	w, cs := zzFullWorld()
	w.audit = zz.Choice("audit", 2) == 1
	chains := []string{"chA", "chB"}
	admins := []string{zzChainAdminA, zzChainAdminB}
	first := zz.Choice("firstRegistered", 2)
	for k := 0; k < 2; k++ {
		i := k ^ first
		_, err := zzInvoke(w, cs[zzRoleAddr], zzRoleAddr, zzAppchainAddr, "UpdateAppchainAdmin", []*pb.Arg{pb.String(chains[i]), pb.String(admins[i])})
		zz.Assert("C17.scope.setup", err == nil)
	}
	if zz.Choice("reassign", 2) == 1 {
		// chain A's admin list is written again (same admin)
		_, err := zzInvoke(w, cs[zzRoleAddr], zzRoleAddr, zzAppchainAddr, "UpdateAppchainAdmin", []*pb.Arg{pb.String("chA"), pb.String(zzChainAdminA)})
		zz.Assert("C17.scope.setup", err == nil)
	}
	for i, ch := range chains {
		ret, err := zzInvoke(w, cs[zzRoleAddr], zzRoleAddr, zzOutsider, "GetAppchainAdmin", []*pb.Arg{pb.String(ch)})
		zz.Assert("C17.scope.admins-readable", err == nil)
		var roles []*Role
		_ = json.Unmarshal(ret, &roles)
		zz.Assert("C17.scope.exactly-own-admins:"+ch, len(roles) == 1 && roles[0].ID == admins[i] && roles[0].AppchainID == ch)
	}
	for _, ch := range chains {
		w.putObj(zzAppchainAddr, appchainMgr.AppchainKey(ch), appchainMgr.Appchain{ID: ch, ChainName: ch, ChainType: "fabric", Status: governance.GovernanceAvailable})
	}
	zzPutGovAdmins(w, 4)
	callers := []string{zzChainAdminA, zzChainAdminB, zzOutsider}
	ci := zz.Choice("caller", 3)
	ti := zz.Choice("targetChain", 2)
	w.caller = callers[ci]
	snap := w.snapshot()
	before := w.effects
	_, err := zzInvoke(w, cs[zzServiceAddr], zzServiceAddr, callers[ci], "RegisterService", []*pb.Arg{
		pb.String(chains[ti]), pb.String("svcX"), pb.String("nameX"), pb.String("CallContract"), pb.String("intro"),
		pb.Uint64(1), pb.String(""), pb.String("details"), pb.String("reason")})
	own := ci == ti
	if err != nil {
		zz.Observe("err", err.Error())
	}
	zz.Cover("C17.scope.own-admin-registers", own && err == nil)
	zz.Cover("C17.scope.refused", err != nil)
	if !own {
		zz.Assert("C17.scope.foreign-admin-refused-without-effect", err != nil && w.effects == before && w.unchanged(snap))
	}
}

const zzNodeAccount = "0xN0de000000000000000000000000000000000001"

// zzPutChainAdmin stores addr as the (only) admin of chain the way updateAppchainAdmin does.
func zzPutChainAdmin(w *zzWorld, chain, addr string) {
	ids := orderedmap.New()
	ids.Set(addr, struct{}{})
	w.putObj(zzRoleAddr, RoleKey(addr), Role{ID: addr, RoleType: AppchainAdmin, AppchainID: chain, Status: governance.GovernanceAvailable})
	w.putObj(zzRoleAddr, RoleAppchainAdminKey(chain), ids)
	w.putObj(zzRoleAddr, RoleTypeKey(string(AppchainAdmin)), ids)
}

// zzPutGovAdmins stores n available governance admins the way the genesis role setup does.
func zzPutGovAdmins(w *zzWorld, n int) {
	ids := orderedmap.New()
	for i := 0; i < n; i++ {
		id := zzAdminIDs[i]
		ids.Set(id, struct{}{})
		w.putObj(zzRoleAddr, RoleKey(id), Role{ID: id, RoleType: GovernanceAdmin, Weight: 1, Status: governance.GovernanceAvailable})
	}
	w.putObj(zzRoleAddr, RoleTypeKey(string(GovernanceAdmin)), ids)
}

// ZZH_C17_former_admin: operations reserved to governance admins (a vote on an open proposal,
// freezing an appchain, freezing / activating a service) are attempted by an account whose
// governance-admin record exists but is not available (frozen, logged out, or a rejected
// candidate), through the real contracts and the real RoleManager. Each attempt is refused
// without effect; the same call by an admin in office is accepted (vacuity guard).
func ZZH_C17_former_admin() {
	w, cs := zzFullWorld()
	w.audit = zz.Choice("audit", 2) == 1
	zzPutGovAdmins(w, 4)
	st := []governance.GovernanceStatus{governance.GovernanceAvailable, governance.GovernanceFrozen, governance.GovernanceForbidden, governance.GovernanceUnavailable}[zz.Choice("adminStatus", 4)]
	who := zzAdminIDs[3]
	w.putObj(zzRoleAddr, RoleKey(who), Role{ID: who, RoleType: GovernanceAdmin, Weight: 1, Status: st})
	w.putObj(zzAppchainAddr, appchainMgr.AppchainKey("chA"), appchainMgr.Appchain{ID: "chA", ChainName: "chA", ChainType: "fabric", Status: governance.GovernanceAvailable})
	w.putObj(zzServiceAddr, service_mgr.ServiceKey("chA:s5"), service_mgr.Service{ChainID: "chA", ServiceID: "s5", Name: "s5", Type: service_mgr.ServiceCallContract,
		Ordered: true, Permission: map[string]struct{}{}, Status: governance.GovernanceAvailable})
	w.caller = who
	snap := w.snapshot()
	before := w.effects
	var err error
	switch zz.Choice("operation", 3) {
	case 0:
		_, err = zzInvoke(w, cs[zzGovAddr], zzGovAddr, who, "Vote", []*pb.Arg{pb.String("0xSponsor-1"), pb.String(BallotApprove), pb.String("r")})
	case 1:
		_, err = zzInvoke(w, cs[zzAppchainAddr], zzAppchainAddr, who, "FreezeAppchain", []*pb.Arg{pb.String("chA"), pb.String("r")})
	default:
		_, err = zzInvoke(w, cs[zzServiceAddr], zzServiceAddr, who, "FreezeService", []*pb.Arg{pb.String("chA:s5"), pb.String("r")})
	}
	inOffice := st == governance.GovernanceAvailable
	zz.Cover("C17.former.admin-in-office-accepted", inOffice && err == nil)
	if !inOffice {
		zz.Assert("C17.former.refused-without-effect", err != nil && w.effects == before && w.unchanged(snap))
	}
}

// zzObjectReuse: built-in contract objects live as long as the process (the executor registers
// one object per contract and swaps its Stub per call); a restarted node has fresh ones. The
// same call - by each contract address as the designated caller - must therefore have the same
// outcome on a fresh object and on an object that already served another call (here: the same
// methods called by an outsider first, which has no effect). Compared: acceptance and the whole
// resulting state and event count.
func zzObjectReuse(address string) {
	audit := zz.Choice("audit", 2) == 1
	_, cs0 := zzFullWorld()
	var list []string
	for _, n := range zz.Methods(cs0[address]) {
		switch n {
		case "Caller", "Callee", "CurrentCaller", "Logger", "GetTxHash", "GetTxTimeStamp", "GetTxIndex", "GetCurrentHeight", "Has", "Get", "GetObject",
			"Set", "SetObject", "Add", "AddObject", "Delete", "Query", "PostEvent", "PostInterchainEvent", "ValidationEngine", "CrossInvoke",
			"CrossInvokeEVM", "GetAccount", "EnableAudit":
			continue
		}
		list = append(list, n)
	}
	method := list[zz.Choice("method", len(list))]
	str := zzSurfaceStrings[zz.Choice("strings", len(zzSurfaceStrings))]
	callers := []string{zzGovAddr, zzAppchainAddr, zzServiceAddr, zzInterchainAddr, zzRoleAddr, zzRuleAddr}
	caller := callers[zz.Choice("designatedCaller", len(callers))]
	run := func(used bool) (bool, *zzWorld, bool) {
		w, cs := zzFullWorld()
		w.audit = audit
		zzPutGovAdmins(w, 4)
		w.putObj(zzAppchainAddr, appchainMgr.AppchainKey("chA"), appchainMgr.Appchain{ID: "chA", ChainName: "chA", ChainType: "fabric", Status: governance.GovernanceAvailable})
		c := cs[address]
		if used {
			// the object has served every one of its entry points before (called by an outsider:
			// no effect, C17) - whatever they leave behind in the object's fields is there now
			before := w.effects
			w.caller = zzOutsider
			for _, m := range list {
				_, _ = zzCallAs(w, zzOutsider, c, address, m, str)
			}
			if w.effects != before {
				return false, w, false // an outsider's call had an effect: C17's subject (known findings)
			}
		}
		w.caller = zzOutsider
		res, _ := zzCallAs(w, caller, c, address, method, str)
		return res != nil && res.Ok, w, true
	}
	okFresh, wFresh, _ := run(false)
	okUsed, wUsed, comparable := run(true)
	if !comparable {
		return
	}
	key := fmt.Sprintf("%T.%s", cs0[address], method)
	zz.Cover("C01.reuse.accepted", okFresh)
	zz.Assert("C01.reuse.same-outcome-on-fresh-and-used-object:"+key, okFresh == okUsed && wFresh.unchanged(wUsed.snapshot()))
}

func ZZH_C01_reuse_service()    { zzObjectReuse(zzServiceAddr) }
func ZZH_C01_reuse_appchain()   { zzObjectReuse(zzAppchainAddr) }
func ZZH_C01_reuse_rule()       { zzObjectReuse(zzRuleAddr) }
func ZZH_C01_reuse_role()       { zzObjectReuse(zzRoleAddr) }
func ZZH_C01_reuse_governance() { zzObjectReuse(zzGovAddr) }
func ZZH_C01_reuse_interchain() { zzObjectReuse(zzInterchainAddr) }
func ZZH_C01_reuse_txmgr()      { zzObjectReuse(zzTMAddr) }
func ZZH_C01_reuse_node()       { zzObjectReuse(zzNodeAddr) }
func ZZH_C01_reuse_dapp()       { zzObjectReuse(zzDappAddr) }

const zzMallory = "0xC000000000000000000000000000000000000003"

// ZZH_C17_rejected_applicant: an account applies for appchain chX through the real
// RegisterAppchain and the application is rejected (or, for comparison, approved) through the real
// AppchainManager.Manage. After a rejection the applicant has no authority over the id: when the
// id is taken by another party's available chain, the rejected applicant's LogoutAppchain /
// FreezeAppchain-by-self attempts are refused without effect. After an approval the same call by
// the admin is accepted (vacuity guard).
func ZZH_C17_rejected_applicant() {
	w, cs := zzFullWorld()
	w.audit = zz.Choice("audit", 2) == 1
	zzPutGovAdmins(w, 4)
	w.caller = zzMallory
	ret, err := zzInvoke(w, cs[zzAppchainAddr], zzAppchainAddr, zzMallory, "RegisterAppchain", []*pb.Arg{
		pb.String("chX"), pb.String("nameX"), pb.Bytes(nil), pb.String("ETH"), pb.Bytes([]byte("root")), pb.String("0xBroker"), pb.String("desc"),
		pb.String(validator.HappyRuleAddr), pb.String("url"), pb.String(zzMallory), pb.String("reason")})
	zz.Assert("C17.applicant.submitted", err == nil)
	var gr governance.GovernanceResult
	_ = json.Unmarshal(ret, &gr)
	p, ok := zzProposalOf(w, gr.ProposalID)
	zz.Assert("C17.applicant.proposal", ok)
	approved := zz.Choice("verdict", 2) == 1
	result := string(REJECTED)
	if approved {
		result = string(APPROVED)
	}
	_, err = zzInvoke(w, cs[zzAppchainAddr], zzAppchainAddr, zzGovAddr, "Manage",
		[]*pb.Arg{pb.String(string(governance.EventRegister)), pb.String(result), pb.String(""), pb.String("chX"), pb.Bytes(p.Extra)})
	zz.Assert("C17.applicant.concluded", err == nil)
	if !approved {
		// the id is free again: another party's chain now lives under it
		w.putObj(zzAppchainAddr, appchainMgr.AppchainKey("chX"), appchainMgr.Appchain{ID: "chX", ChainName: "other", ChainType: "ETH", Status: governance.GovernanceAvailable})
		w.putObj(zzRuleAddr, ruleMgr.RuleKey("chX"), []*ruleMgr.Rule{{Address: validator.HappyRuleAddr, ChainID: "chX", Master: true, Status: governance.GovernanceAvailable}})
	}
	snap := w.snapshot()
	before := w.effects
	_, lerr := zzInvoke(w, cs[zzAppchainAddr], zzAppchainAddr, zzMallory, "LogoutAppchain", []*pb.Arg{pb.String("chX"), pb.String("mine")})
	if approved {
		zz.Cover("C17.applicant.admin-of-approved-chain-accepted", lerr == nil)
	} else {
		zz.Assert("C17.applicant.rejected-applicant-has-no-authority", lerr != nil && w.effects == before && w.unchanged(snap))
	}
}

// ZZH_C17_replaced_chain_admin: a chain is registered by its admin (real RegisterAppchain, approved
// through the real Manage); then the chain's admin list is replaced by an approved UpdateAppchain
// (real entry point and Manage). From then on the operations reserved to the chain's own admin -
// LogoutAppchain, UpdateAppchain, FreezeAppchain is for governance admins - are refused to the
// former admin without effect and accepted from the new one.
func ZZH_C17_replaced_chain_admin() {
	w, cs := zzFullWorld()
	w.audit = zz.Choice("audit", 2) == 1
	zzPutGovAdmins(w, 4)
	newAdmin := "0xC100000000000000000000000000000000000004"
	ret, err := zzTx(w, cs[zzAppchainAddr], zzAppchainAddr, zzMallory, "RegisterAppchain", []*pb.Arg{
		pb.String("chX"), pb.String("nameX"), pb.Bytes(nil), pb.String("ETH"), pb.Bytes([]byte("root")), pb.String("0xBroker"), pb.String("desc"),
		pb.String(validator.HappyRuleAddr), pb.String("url"), pb.String(zzMallory), pb.String("reason")})
	zz.Assert("C17.replaced.submitted", err == nil)
	var gr governance.GovernanceResult
	_ = json.Unmarshal(ret, &gr)
	p, ok := zzProposalOf(w, gr.ProposalID)
	zz.Assert("C17.replaced.proposal", ok)
	if !ok {
		return
	}
	_, err = zzTx(w, cs[zzAppchainAddr], zzAppchainAddr, zzGovAddr, "Manage",
		[]*pb.Arg{pb.String(string(governance.EventRegister)), pb.String(string(APPROVED)), pb.String(""), pb.String("chX"), pb.Bytes(p.Extra)})
	zz.Assert("C17.replaced.registered", err == nil)
	// the admin hands the chain over: first the new admin is added (the list has to contain the
	// caller), then the new admin drops the old one; both updates approved
	update := func(caller, admins, label string) bool {
		ret, err := zzTx(w, cs[zzAppchainAddr], zzAppchainAddr, caller, "UpdateAppchain", []*pb.Arg{
			pb.String("chX"), pb.String("nameX"), pb.String("desc"), pb.Bytes([]byte("root")), pb.String(admins), pb.String("handing over")})
		zz.Assert("C17.replaced.update-submitted:"+label, err == nil)
		if err != nil {
			return false
		}
		var g governance.GovernanceResult
		_ = json.Unmarshal(ret, &g)
		p2, ok2 := zzProposalOf(w, g.ProposalID)
		zz.Assert("C17.replaced.update-proposal:"+label, ok2)
		if !ok2 {
			return false
		}
		_, err = zzTx(w, cs[zzAppchainAddr], zzAppchainAddr, zzGovAddr, "Manage",
			[]*pb.Arg{pb.String(string(governance.EventUpdate)), pb.String(string(APPROVED)), pb.String(string(governance.GovernanceAvailable)), pb.String("chX"), pb.Bytes(p2.Extra)})
		zz.Assert("C17.replaced.update-approved:"+label, err == nil)
		return err == nil
	}
	if !update(zzMallory, zzMallory+","+newAdmin, "add") || !update(newAdmin, newAdmin, "drop") {
		return
	}
	who := []string{zzMallory, newAdmin}[zz.Choice("caller", 2)]
	snap := w.snapshot()
	before := w.effects
	var oerr error
	switch zz.Choice("operation", 2) {
	case 0:
		_, oerr = zzTx(w, cs[zzAppchainAddr], zzAppchainAddr, who, "LogoutAppchain", []*pb.Arg{pb.String("chX"), pb.String("r")})
	case 1:
		_, oerr = zzTx(w, cs[zzAppchainAddr], zzAppchainAddr, who, "UpdateAppchain", []*pb.Arg{
			pb.String("chX"), pb.String("renamed"), pb.String("desc"), pb.Bytes([]byte("root")), pb.String(newAdmin), pb.String("r")})
	}
	if who == zzMallory {
		zz.Assert("C17.replaced.former-admin-refused-without-effect", oerr != nil && w.effects == before && w.unchanged(snap))
	} else {
		zz.Cover("C17.replaced.new-admin-accepted", oerr == nil)
	}
}

// ZZH_C17_retained_admin_not_up_for_grabs: after an approved update of a chain's admin list that
// KEEPS an admin (the list [M] becomes [M,N]), an outsider cannot name that retained admin as admin
// of a chain of its own: the application is refused, the admin's role and chain binding stay.
func ZZH_C17_retained_admin_not_up_for_grabs() {
	w, cs := zzFullWorld()
	w.audit = zz.Choice("audit", 2) == 1
	zzPutGovAdmins(w, 4)
	newAdmin := "0xC100000000000000000000000000000000000004"
	outsider := "0xC900000000000000000000000000000000000009"
	ret, err := zzTx(w, cs[zzAppchainAddr], zzAppchainAddr, zzMallory, "RegisterAppchain", []*pb.Arg{
		pb.String("chX"), pb.String("nameX"), pb.Bytes(nil), pb.String("ETH"), pb.Bytes([]byte("root")), pb.String("0xBroker"), pb.String("desc"),
		pb.String(validator.HappyRuleAddr), pb.String("url"), pb.String(zzMallory), pb.String("reason")})
	var gr governance.GovernanceResult
	_ = json.Unmarshal(ret, &gr)
	p, ok := zzProposalOf(w, gr.ProposalID)
	zz.Assert("C17.retained.submitted", err == nil && ok)
	if err != nil || !ok {
		return
	}
	_, err = zzTx(w, cs[zzAppchainAddr], zzAppchainAddr, zzGovAddr, "Manage",
		[]*pb.Arg{pb.String(string(governance.EventRegister)), pb.String(string(APPROVED)), pb.String(""), pb.String("chX"), pb.Bytes(p.Extra)})
	zz.Assert("C17.retained.registered", err == nil)
	ret, err = zzTx(w, cs[zzAppchainAddr], zzAppchainAddr, zzMallory, "UpdateAppchain", []*pb.Arg{
		pb.String("chX"), pb.String("nameX"), pb.String("desc"), pb.Bytes([]byte("root")), pb.String(zzMallory + "," + newAdmin), pb.String("a second admin")})
	_ = json.Unmarshal(ret, &gr)
	p2, ok2 := zzProposalOf(w, gr.ProposalID)
	zz.Assert("C17.retained.update-submitted", err == nil && ok2)
	if err != nil || !ok2 {
		return
	}
	_, err = zzTx(w, cs[zzAppchainAddr], zzAppchainAddr, zzGovAddr, "Manage",
		[]*pb.Arg{pb.String(string(governance.EventUpdate)), pb.String(string(APPROVED)), pb.String(string(governance.GovernanceAvailable)), pb.String("chX"), pb.Bytes(p2.Extra)})
	zz.Assert("C17.retained.update-approved", err == nil)
	victim := []string{zzMallory, newAdmin}[zz.Choice("victim", 2)]
	var before Role
	w.getObj(zzRoleAddr, RoleKey(victim), &before)
	snap := w.snapshot()
	_, aerr := zzTx(w, cs[zzAppchainAddr], zzAppchainAddr, outsider, "RegisterAppchain", []*pb.Arg{
		pb.String("chY"), pb.String("nameY"), pb.Bytes(nil), pb.String("ETH"), pb.Bytes([]byte("root")), pb.String("0xBroker2"), pb.String("desc"),
		pb.String(validator.HappyRuleAddr), pb.String("url"), pb.String(victim), pb.String("mine now")})
	zz.Assert("C17.retained.application-naming-another-chains-admin-refused", aerr != nil && w.unchanged(snap))
	var after Role
	w.getObj(zzRoleAddr, RoleKey(victim), &after)
	zz.Assert("C17.retained.admin-keeps-its-chain", after.AppchainID == before.AppchainID && after.Status == before.Status)
}

// ZZH_C17_tm_called_by_other_contracts: the transaction manager's entry points (Begin,
// BeginMultiTXs, BeginInterBitXHub, Report) accept exactly one invoking contract, the one at the
// interchain address. Called with any other built-in contract's address as the current caller -
// the transaction manager's own address included (an IBTP transaction addressed to a contract
// other than the interchain contract runs the interchain code under that contract's address) -
// they refuse and write nothing.
func ZZH_C17_tm_called_by_other_contracts() {
	w, cs := zzFullWorld()
	w.audit = zz.Choice("audit", 2) == 1
	callers := []string{zzTMAddr, zzServiceAddr, zzAppchainAddr, zzGovAddr, zzRoleAddr, zzNodeAddr, zzInterchainAddr}
	ci := zz.Choice("currentCaller", len(callers))
	id := "1356:chA:s1-1356:chB:s2-9"
	var method string
	var args []*pb.Arg
	switch zz.Choice("entry", 4) {
	case 0:
		method, args = "Begin", []*pb.Arg{pb.String(id), pb.Uint64(5), pb.Bool(false)}
	case 1:
		method, args = "BeginMultiTXs", []*pb.Arg{pb.String("0xGROUP9"), pb.String(id), pb.Uint64(5), pb.Bool(false), pb.Uint64(2)}
	case 2:
		method, args = "BeginInterBitXHub", []*pb.Arg{pb.String(id), pb.Uint64(5), pb.Bytes(nil), pb.Bool(false)}
	case 3:
		method, args = "Report", []*pb.Arg{pb.String(id), pb.Int32(int32(pb.IBTP_RECEIPT_SUCCESS))}
	}
	snap := w.snapshot()
	before := w.effects
	_, err := zzInvoke(w, cs[zzTMAddr], zzTMAddr, callers[ci], method, args)
	if callers[ci] == zzInterchainAddr {
		zz.Cover("C17.tm.designated-caller-accepted", err == nil)
		return
	}
	zz.Assert("C17.tm.any-other-contract-refused-without-effect:"+method, err != nil && w.effects == before && w.unchanged(snap))
}
