//go:build verif

package contracts

import (
	"github.com/meshplus/bitxhub-model/pb"
	zz "github.com/meshplus/bitxhub/internal/zzverif"
)

const zzGlobalID = "chA:s1-global-1"

func zzChildIDs() []string {
	return []string{"chA:s1-chB:s2-1", "chA:s1-chC:s3-1", "chA:s1-chB:s2-2", "chA:s1-chD:s4-1"}
}

func zzTxInfo(w *zzWorld, gid string) (TransactionInfo, bool) {
	var ti TransactionInfo
	ok := w.getObj(zzTMAddr, GlobalTxInfoKey(gid), &ti)
	return ti, ok
}

func zzContains(xs []string, x string) bool {
	for _, y := range xs {
		if y == x {
			return true
		}
	}
	return false
}

func zzInList(list, id string) bool {
	for _, p := range zzSplitComma(list) {
		if p == id {
			return true
		}
	}
	return false
}

func zzSplitComma(s string) []string {
	var out []string
	cur := ""
	for i := 0; i < len(s); i++ {
		if s[i] == ',' {
			out = append(out, cur)
			cur = ""
		} else {
			cur += string(s[i])
		}
	}
	return append(out, cur)
}

// zzMultiPre builds a symbolic one-to-many pre-state with n existing children.
// Representation invariant (Inv-MT), assumed: GlobalState BEGIN => every child BEGIN or SUCCESS
// and fewer children than declared are SUCCESS; GlobalState SUCCESS => all declared children SUCCESS;
// any other GlobalState => no child is BEGIN or SUCCESS.
func zzMultiPre(w *zzWorld, n int, h uint64) (TransactionInfo, []pb.TransactionStatus) {
	ids := zzChildIDs()
	g := pb.TransactionStatus(zz.I32("global"))
	zz.Assume(g >= 0)
	zz.Assume(g <= 5)
	cnt := zz.U64("declared")
	zz.Assume(cnt >= 1)
	zz.Assume(cnt <= 3)
	ti := TransactionInfo{GlobalState: g, Height: h, ChildTxInfo: map[string]pb.TransactionStatus{}, ChildTxCount: cnt}
	var sts []pb.TransactionStatus
	for i := 0; i < n; i++ {
		s := pb.TransactionStatus(zz.I32("child"))
		zz.Assume(s >= 0)
		zz.Assume(s <= 5)
		okBegin := zz.Or(s == pb.TransactionStatus_BEGIN, s == pb.TransactionStatus_SUCCESS)
		zz.Assume(zz.Implies(g == pb.TransactionStatus_BEGIN, okBegin))
		zz.Assume(zz.Implies(g == pb.TransactionStatus_SUCCESS, s == pb.TransactionStatus_SUCCESS))
		zz.Assume(zz.Implies(zz.And(g != pb.TransactionStatus_BEGIN, g != pb.TransactionStatus_SUCCESS), zz.Not(okBegin)))
		ti.ChildTxInfo[ids[i]] = s
		sts = append(sts, s)
		w.put(zzTMAddr, ids[i], []byte(zzGlobalID))
	}
	zz.Assume(uint64(n) <= cnt)
	zz.Assume(zz.Implies(g == pb.TransactionStatus_SUCCESS, uint64(n) == cnt))
	w.putObj(zzTMAddr, GlobalTxInfoKey(zzGlobalID), ti)
	return ti, sts
}

// ZZH_C05_begin_multi_step: a further child begins (possibly failed at begin).
// (also C06: a group that failed at begin leaves the timeout list of the height it was registered for)
// zz:also C06
func ZZH_C05_begin_multi_step() {
	w := zzNewWorld()
	w.height = 10
	n := 1 + zz.Choice("existing", 2) // 1..2 existing children
	h := zz.U64("expiry")
	pre, sts := zzMultiPre(w, n, h)
	w.put(zzTMAddr, TimeoutKey(h), []byte(zzGlobalID))
	ids := zzChildIDs()
	newID := ids[2]
	failed := zz.Bool("isFailed")
	tm := zzTM(w)
	out := tm.BeginMultiTXs(zzGlobalID, newID, 5, failed, pre.ChildTxCount)
	zz.Assert("C05.begin.ok", out.Ok)
	post, ok := zzTxInfo(w, zzGlobalID)
	zz.Assert("C05.begin.info", ok)
	var ch pb.StatusChange
	zz.Assert("C05.begin.change", ch.Unmarshal(out.Result) == nil)
	zz.Cover("C05.begin.flip", failed && pre.GlobalState == pb.TransactionStatus_BEGIN)
	if pre.GlobalState == pb.TransactionStatus_BEGIN && failed {
		zz.Assert("C05.begin.global-fails", post.GlobalState == pb.TransactionStatus_BEGIN_FAILURE)
		for i := 0; i < n; i++ {
			zz.Assert("C05.begin.child-flipped", post.ChildTxInfo[ids[i]] == pb.TransactionStatus_BEGIN_FAILURE)
			zz.Assert("C05.begin.notify-src-all", zzContains(ch.NotifySrcIBTPIDs, ids[i]))
			zz.Assert("C05.begin.notify-dst-iff-success", zz.Iff(sts[i] == pb.TransactionStatus_SUCCESS, zzContains(ch.NotifyDstIBTPIDs, ids[i])))
		}
		zz.Assert("C05.begin.new-child-failed", post.ChildTxInfo[newID] == pb.TransactionStatus_BEGIN_FAILURE)
		_, list := w.get(zzTMAddr, TimeoutKey(h))
		zz.Assert("C05.begin.timeout-removed", !zzInList(string(list), zzGlobalID))
	} else {
		zz.Assert("C05.begin.no-notify", len(ch.NotifySrcIBTPIDs) == 0 && len(ch.NotifyDstIBTPIDs) == 0)
		for i := 0; i < n; i++ {
			zz.Assert("C05.begin.children-kept", post.ChildTxInfo[ids[i]] == sts[i])
		}
		zz.Assert("C05.begin.global-kept", post.GlobalState == pre.GlobalState)
		if pre.GlobalState != pb.TransactionStatus_BEGIN {
			zz.Assert("C05.begin.child-takes-global", post.ChildTxInfo[newID] == pre.GlobalState)
		}
	}
	// never SUCCESS unless it already was (all-or-nothing: a begin can not conclude success)
	zz.Assert("C05.begin.no-success", post.GlobalState != pb.TransactionStatus_SUCCESS || pre.GlobalState == pb.TransactionStatus_SUCCESS)
}

// ZZH_C05_report_multi_step: a child's receipt arrives.
func ZZH_C05_report_multi_step() {
	w := zzNewWorld()
	w.height = 10
	n := 1 + zz.Choice("children", zz.Tier(3, 4)) // 1..3 children (thorough 4)
	h := zz.U64("expiry")
	pre, sts := zzMultiPre(w, n, h)
	w.put(zzTMAddr, TimeoutKey(h), []byte(zzGlobalID))
	ids := zzChildIDs()
	k := zz.Choice("reporting", n)
	res := zz.I32("receipt")
	tm := zzTM(w)
	snap := w.snapshot()
	out := tm.Report(ids[k], res)
	post, ok := zzTxInfo(w, zzGlobalID)
	zz.Assert("C05.report.info", ok)
	zz.Cover("C05.report.accepted", out.Ok)
	zz.Cover("C05.report.rejected", !out.Ok)
	zz.Assert("C05.report.reject-no-effect", out.Ok || w.unchanged(snap))
	if !out.Ok {
		return
	}
	var ch pb.StatusChange
	zz.Assert("C05.report.change", ch.Unmarshal(out.Result) == nil)
	// global SUCCESS only if every declared child is SUCCESS
	allSucc := uint64(n) == pre.ChildTxCount
	for i := 0; i < n; i++ {
		allSucc = zz.And(allSucc, post.ChildTxInfo[ids[i]] == pb.TransactionStatus_SUCCESS)
	}
	zz.Assert("C05.report.success-needs-all", zz.Implies(post.GlobalState == pb.TransactionStatus_SUCCESS, allSucc))
	zz.Cover("C05.report.global-success", post.GlobalState == pb.TransactionStatus_SUCCESS && pre.GlobalState == pb.TransactionStatus_BEGIN)
	// once failed, never success
	zz.Assert("C05.report.failed-stays", pre.GlobalState == pb.TransactionStatus_BEGIN || pre.GlobalState == pb.TransactionStatus_SUCCESS || post.GlobalState != pb.TransactionStatus_SUCCESS)
	// a failure receipt while BEGIN flips everything
	if pre.GlobalState == pb.TransactionStatus_BEGIN && res == int32(pb.IBTP_RECEIPT_FAILURE) {
		zz.Assert("C05.report.global-fails", post.GlobalState == pb.TransactionStatus_BEGIN_FAILURE)
		for i := 0; i < n; i++ {
			if i == k {
				zz.Assert("C05.report.reporter-failed", post.ChildTxInfo[ids[i]] == pb.TransactionStatus_FAILURE)
				continue
			}
			zz.Assert("C05.report.child-flipped", post.ChildTxInfo[ids[i]] == pb.TransactionStatus_BEGIN_FAILURE)
			zz.Assert("C05.report.notify-src-others", zzContains(ch.NotifySrcIBTPIDs, ids[i]))
			zz.Assert("C05.report.notify-dst-iff-success", zz.Iff(sts[i] == pb.TransactionStatus_SUCCESS, zzContains(ch.NotifyDstIBTPIDs, ids[i])))
		}
		_, list := w.get(zzTMAddr, TimeoutKey(h))
		zz.Assert("C05.report.timeout-removed", !zzInList(string(list), zzGlobalID))
	} else {
		zz.Assert("C05.report.no-dst-notify", len(ch.NotifyDstIBTPIDs) == 0)
		for i := 0; i < n; i++ {
			if i != k {
				zz.Assert("C05.report.others-kept", post.ChildTxInfo[ids[i]] == sts[i])
			}
		}
	}
	// Inv-MT preserved
	for i := 0; i < n; i++ {
		s := post.ChildTxInfo[ids[i]]
		okBegin := zz.Or(s == pb.TransactionStatus_BEGIN, s == pb.TransactionStatus_SUCCESS)
		zz.Assert("C05.report.inv-begin", zz.Implies(post.GlobalState == pb.TransactionStatus_BEGIN, okBegin))
		zz.Assert("C05.report.inv-success", zz.Implies(post.GlobalState == pb.TransactionStatus_SUCCESS, s == pb.TransactionStatus_SUCCESS))
	}
}

// ZZH_C05_notify_routing: rollback notices for destination chains are filed under each
// child's own destination chain; source notices under the source chain.
func ZZH_C05_notify_routing() {
	ic := zzNewICWorld()
	w := ic.w
	w.height = 7
	ids := []string{"1356:chA:s1-1356:chB:s2-1", "1356:chA:s1-1356:chC:s3-1", "1356:chA:s1-1356:chB:s2-2"}
	n := 2 + zz.Choice("n", 2)
	ids = ids[:n]
	toSrc := zz.Choice("toSrc", 2) == 1
	ic.im.addToMultiTxNotifyMap(w.height, ids, toSrc)
	var m map[string][]string
	ok := w.getObj(zzInterchainAddr, MultiTxNotifyKey(w.height), &m)
	zz.Assert("C05.routing.stored", ok)
	for _, id := range ids {
		_, to, _, _ := pb.ParseIBTPID(id)
		_, chain, _, _ := pb.ParseFullServiceID(to)
		if toSrc {
			chain = "chA"
		}
		zz.Assert("C05.routing.own-chain", zzContains(m[chain], id))
		for c, l := range m {
			if c != chain {
				zz.Assert("C05.routing.not-elsewhere", !zzContains(l, id))
			}
		}
	}
}
