//go:build verif

package executor

import (
	"encoding/json"
	"math/big"

	"github.com/meshplus/bitxhub-core/governance"
	servicemgr "github.com/meshplus/bitxhub-core/service-mgr"
	"github.com/meshplus/bitxhub-model/constant"
	"github.com/meshplus/bitxhub-model/pb"
	"github.com/meshplus/bitxhub/internal/executor/contracts"
	zz "github.com/meshplus/bitxhub/internal/zzverif"
)

func zzReceiptTx(index uint64, typ pb.IBTP_Type, nonce uint64, hashN int) *pb.BxhTransaction {
	return &pb.BxhTransaction{From: zzAddr(zzUsers[1]), To: constant.InterchainContractAddr.Address(), Nonce: nonce, TransactionHash: zzHash(hashN), Timestamp: 1,
		IBTP: &pb.IBTP{From: zzSrcFullID(), To: "1356:chB:sB", Index: index, Type: typ}}
}

func zzStatusOf(exec *BlockExecutor, id string) (pb.TransactionStatus, bool) {
	rec, ok := zzRecordOf(exec, id)
	return rec.Status, ok
}

func zzTimedOut(im *pb.InterchainMeta, chain, id string) int {
	n := 0
	if im != nil && im.TimeoutCounter != nil {
		if sl, ok := im.TimeoutCounter[chain]; ok && sl != nil {
			for _, x := range sl.Slice {
				if x == id {
					n++
				}
			}
		}
	}
	return n
}

// ZZH_C06_pipeline: whole blocks through the real processExecuteEvent with the real contracts
// (nothing of the executor's internal call order is copied into the harness): block 1 accepts a
// request with timeout T (1 or 2); each following block up to 1+T+1 is empty or carries one receipt
// for it (success / failure / rollback). The request is listed as timed out for its source chain in
// exactly block 1+T and only if no receipt was accepted by then - a receipt accepted in block 1+T
// itself counts; an accepted final status is never altered afterwards; after the timeout only a
// rollback or failure receipt is accepted.
// zz:also C04 C07
func ZZH_C06_pipeline() { zzTimeoutPipeline() }

// ZZH_C06_odd_ids: the same lifecycle for a source service whose id contains the characters the
// transaction id and the timeout list use as separators (service ids are not restricted at
// registration): a dash, a comma.
// zz:also C08
func ZZH_C06_odd_ids() {
	zzSrcSvc = []string{"s-A", "s,A"}[zz.Choice("sourceServiceId", 2)]
	zz.Tag("C06.F-comma-in-id", zzSrcSvc == "s,A")
	zzTimeoutPipeline()
}

// ZZH_C06_unordered: the same lifecycle when the source service, the destination service or both are
// registered as unordered (their receipts / requests are "batch" IBTPs for the interchain contract).
// zz:also C04
func ZZH_C06_unordered() {
	which := zz.Choice("unordered", 3) // 0 source, 1 destination, 2 both
	zzUnorderedA = which != 1
	zzUnorderedB = which != 0
	zz.Tag("C06.F-batch-request-never-times-out", which != 0)
	zzTimeoutPipeline()
}

func zzTimeoutPipeline() {
	exec := zzNewExec(1, big.NewInt(0))
	exec.ibtpVerify = &zzStubVerify{verdict: make([]uint8, 8), seen: make([]int, 8)}
	exec.config.ProofType = "serial"
	zzInterchainWorld(exec)
	// the destination service may be unusable when the request arrives: it then starts at BEGIN_FAILURE,
	// never times out (although it carries a timeout height) and only goes to FAILURE by a failure receipt
	dstUsable := zz.Choice("destinationUsable", 2) == 1
	if !dstUsable {
		exec.ledger.SetState(constant.ServiceMgrContractAddr.Address(), []byte(servicemgr.ServiceKey("chB:sB")), zzServiceJSON("chB", "sB", "serviceB", governance.GovernanceFrozen, map[string]struct{}{}), nil)
		acc, root := exec.ledger.FlushDirtyData()
		_ = exec.ledger.StateLedger.Commit(0, acc, root)
	}
	T := int64(1 + zz.Choice("timeout", zz.Tier(2, 3)))
	req := zzRequestTx(1, 0, 0)
	req.IBTP.TimeoutHeight = T
	// the receipt may already arrive in the block that carries the request (the execution layer
	// allows it: the receipt is checked against the request applied earlier in the same block)
	b1 := []pb.Transaction{req}
	nonce := uint64(0)
	sameBlock := dstUsable && zz.Choice("receiptInTheRequestBlock", 2) == 1
	if sameBlock {
		b1 = append(b1, zzReceiptTx(1, pb.IBTP_RECEIPT_SUCCESS, nonce, 1))
		nonce++
	}
	exec.processExecuteEvent(zzBlockOf(1, b1))
	id := zzSrcFullID() + "-1356:chB:sB-1"
	st, ok := zzStatusOf(exec, id)
	model := pb.TransactionStatus_BEGIN
	if !dstUsable {
		model = pb.TransactionStatus_BEGIN_FAILURE
	}
	if sameBlock {
		model = pb.TransactionStatus_SUCCESS
	}
	zz.Assert("C06.pipe.request-accepted", ok && st == model)
	expiry := uint64(1 + T)
	for h := uint64(2); h <= expiry+1; h++ {
		var txs []pb.Transaction
		kind := zz.Choice("block", 4) // 0 empty, 1 success, 2 failure, 3 rollback receipt
		var typ pb.IBTP_Type
		if kind != 0 && nonce < uint64(zz.Tier(2, 3)) {
			typ = []pb.IBTP_Type{pb.IBTP_RECEIPT_SUCCESS, pb.IBTP_RECEIPT_FAILURE, pb.IBTP_RECEIPT_ROLLBACK}[kind-1]
			txs = append(txs, zzReceiptTx(1, typ, nonce, int(1+nonce)))
			nonce++
		} else {
			kind = 0
		}
		crashed, _ := zz.Crashed(func() { exec.processExecuteEvent(zzBlockOf(h, txs)) })
		zz.Assert("C08.block-executes", !crashed)
		if crashed {
			return
		}
		// reference: the receipt acts first (it is a transaction of the block), the expiry at the end of the block
		if kind != 0 {
			switch {
			case model == pb.TransactionStatus_BEGIN && typ == pb.IBTP_RECEIPT_SUCCESS:
				model = pb.TransactionStatus_SUCCESS
			case model == pb.TransactionStatus_BEGIN && typ == pb.IBTP_RECEIPT_FAILURE:
				model = pb.TransactionStatus_FAILURE
			case model == pb.TransactionStatus_BEGIN_ROLLBACK && (typ == pb.IBTP_RECEIPT_ROLLBACK || typ == pb.IBTP_RECEIPT_FAILURE):
				model = pb.TransactionStatus_ROLLBACK
			case model == pb.TransactionStatus_BEGIN_FAILURE && typ == pb.IBTP_RECEIPT_FAILURE:
				model = pb.TransactionStatus_FAILURE
			}
		}
		expired := false
		if h == expiry && model == pb.TransactionStatus_BEGIN {
			model = pb.TransactionStatus_BEGIN_ROLLBACK
			expired = true
		}
		got, _ := zzStatusOf(exec, id)
		zz.Assert("C06.pipe.status-follows-accepted-events", got == model)
		im, err := exec.ledger.GetInterchainMeta(h)
		zz.Assert("C06.pipe.meta", err == nil)
		want := 0
		if expired {
			want = 1
		}
		zz.Assert("C06.pipe.listed-exactly-at-expiry-without-receipt", zzTimedOut(im, "chA", id) == want)
		zz.Cover("C06.pipe.expired", expired)
		zz.Cover("C06.pipe.receipt-in-expiry-block", h == expiry && kind != 0 && !expired)
	}
	_ = contracts.TxInfoKey
}

// ZZH_C05_shared_timeout: two one-to-many groups of the same source chain begin in block 1 with the
// same timeout (real TransactionManager.BeginMultiTXs through the real BoltVM dispatch), so they
// share one entry list for the expiry block. Before it neither, the first or the second of them finishes
// (its only child reports success or failure). Then the expiry block 1+T runs through the real
// processExecuteEvent: a group that finished is not touched and not listed; every group that did
// not finish is moved to BEGIN_ROLLBACK with its child and listed once for the source chain -
// wherever it stood in the shared list.
// zz:also C06
func ZZH_C05_shared_timeout() {
	exec := zzNewExec(1, big.NewInt(0))
	exec.ibtpVerify = &zzStubVerify{verdict: make([]uint8, 1), seen: make([]int, 1)}
	T := uint64(1) // (the groups begin while block 0 is the head, so the expiry block is the first block of the chain)
	gids := []string{"0xGROUPONE", "0xGROUPTWO"}
	kids := []string{"1356:chA:s1-1356:chB:s2-1", "1356:chA:s1-1356:chC:s3-1"}
	for i := range gids {
		_, err := zzTMInvoke(exec, 0, "BeginMultiTXs", pb.String(gids[i]), pb.String(kids[i]), pb.Uint64(T), pb.Bool(false), pb.Uint64(1))
		zz.Assert("C05.shared.begin", err == nil)
	}
	finished := zz.Choice("finishes", 3) - 1 // -1 none, 0 the first, 1 the second
	result := int32(1 + zz.Choice("result", 2)) // the child's receipt: IBTP_RECEIPT_SUCCESS or IBTP_RECEIPT_FAILURE
	if finished >= 0 {
		_, err := zzTMInvoke(exec, 0, "Report", pb.String(kids[finished]), pb.Int32(result))
		zz.Assert("C05.shared.report", err == nil)
	}
	acc, root := exec.ledger.FlushDirtyData()
	_ = exec.ledger.StateLedger.Commit(0, acc, root)
	statusOf := func(g string) pb.TransactionStatus {
		var info contracts.TransactionInfo
		ok, v := exec.ledger.GetState(constant.TransactionMgrContractAddr.Address(), []byte(contracts.GlobalTxInfoKey(g)))
		zz.Assert("C05.shared.info", ok && json.Unmarshal(v, &info) == nil)
		return info.GlobalState
	}
	var before [2]pb.TransactionStatus
	for i, g := range gids {
		before[i] = statusOf(g)
	}
	crashed, _ := zz.Crashed(func() { exec.processExecuteEvent(zzBlockOf(T, nil)) })
	zz.Assert("C08.block-executes", !crashed)
	if crashed {
		return
	}
	im, err := exec.ledger.GetInterchainMeta(T)
	zz.Assert("C05.shared.meta", err == nil)
	for i, g := range gids {
		if i == finished {
			zz.Assert("C05.shared.finished-group-untouched", statusOf(g) == before[i])
			zz.Assert("C06.shared.finished-group-not-listed", zzTimedOut(im, "chA", kids[i]) == 0)
		} else {
			zz.Assert("C05.shared.unfinished-group-rolled-back", statusOf(g) == pb.TransactionStatus_BEGIN_ROLLBACK)
			zz.Assert("C06.shared.unfinished-group-listed-once", zzTimedOut(im, "chA", kids[i]) == 1)
		}
	}
}

// ZZH_C06_emptied_list: a timeout list that was emptied before a group is entered into it. Block 1
// accepts a single request with timeout 2 (expiry block 3); block 2 carries its success receipt
// (the list of block 3 becomes empty) or nothing; then a one-to-many group of the same source chain
// begins with the same expiry block (real TransactionManager.BeginMultiTXs through the real BoltVM
// dispatch, as a later transaction of block 2). Block 3 runs through the real processExecuteEvent:
// the group, which did not finish, is moved to BEGIN_ROLLBACK and its child is listed once for the
// source chain - whatever happened to the list before the group was entered.
// zz:also C05 C01
func ZZH_C06_emptied_list() {
	exec := zzNewExec(1, big.NewInt(0))
	exec.ibtpVerify = &zzStubVerify{verdict: make([]uint8, 8), seen: make([]int, 8)}
	exec.config.ProofType = "serial"
	zzInterchainWorld(exec)
	withRequest := zz.Choice("earlierRequest", 2) == 1
	var b1 []pb.Transaction
	if withRequest {
		req := zzRequestTx(1, 0, 0)
		req.IBTP.TimeoutHeight = 2
		b1 = append(b1, req)
	}
	exec.processExecuteEvent(zzBlockOf(1, b1))
	var b2 []pb.Transaction
	receipt := withRequest && zz.Choice("receiptBeforeTheGroup", 2) == 1
	if receipt {
		b2 = append(b2, zzReceiptTx(1, pb.IBTP_RECEIPT_SUCCESS, 0, 1))
	}
	exec.processExecuteEvent(zzBlockOf(2, b2))
	if receipt {
		st, _ := zzStatusOf(exec, zzSrcFullID()+"-1356:chB:sB-1")
		zz.Assert("C06.emptied.receipt-accepted", st == pb.TransactionStatus_SUCCESS)
	}
	gid, kid := "0xGROUPONE", "1356:chA:s1-1356:chC:s3-1"
	_, err := zzTMInvoke(exec, 2, "BeginMultiTXs", pb.String(gid), pb.String(kid), pb.Uint64(1), pb.Bool(false), pb.Uint64(1))
	if err != nil {
		zz.Observe("beginErr", err.Error())
	}
	zz.Assert("C06.emptied.begin", err == nil)
	crashed, _ := zz.Crashed(func() { exec.processExecuteEvent(zzBlockOf(3, nil)) })
	zz.Assert("C08.block-executes", !crashed)
	if crashed {
		return
	}
	var info contracts.TransactionInfo
	ok, v := exec.ledger.GetState(constant.TransactionMgrContractAddr.Address(), []byte(contracts.GlobalTxInfoKey(gid)))
	zz.Assert("C06.emptied.info", ok && json.Unmarshal(v, &info) == nil)
	zz.Assert("C06.emptied.unfinished-group-rolled-back-at-expiry", info.GlobalState == pb.TransactionStatus_BEGIN_ROLLBACK)
	im, err2 := exec.ledger.GetInterchainMeta(3)
	zz.Assert("C06.emptied.meta", err2 == nil)
	zz.Assert("C06.emptied.group-listed-once", zzTimedOut(im, "chA", kid) == 1)
}

// ZZH_C04_replay_unordered: the destination service is registered as unordered. A request is
// accepted, its success receipt is accepted (status SUCCESS, final); then the same request - same
// pair, same index - is submitted again in a later block. A final status never changes again and a
// repeated index is not accepted a second time (counters stay).
// zz:also C02
func ZZH_C04_replay_unordered() {
	zzUnorderedB = true
	exec := zzNewExec(1, big.NewInt(0))
	exec.ibtpVerify = &zzStubVerify{verdict: make([]uint8, 8), seen: make([]int, 8)}
	exec.config.ProofType = "serial"
	zzInterchainWorld(exec)
	req := zzRequestTx(1, 0, 0)
	req.IBTP.TimeoutHeight = 0
	exec.processExecuteEvent(zzBlockOf(1, []pb.Transaction{req}))
	id := zzSrcFullID() + "-1356:chB:sB-1"
	st, ok := zzStatusOf(exec, id)
	zz.Assert("C04.replay.begun", ok && st == pb.TransactionStatus_BEGIN)
	exec.processExecuteEvent(zzBlockOf(2, []pb.Transaction{zzReceiptTx(1, pb.IBTP_RECEIPT_SUCCESS, 0, 1)}))
	st, _ = zzStatusOf(exec, id)
	zz.Assert("C04.replay.succeeded", st == pb.TransactionStatus_SUCCESS)
	again := zzRequestTx(1, 1, 2)
	again.IBTP.TimeoutHeight = 0
	exec.processExecuteEvent(zzBlockOf(3, []pb.Transaction{again}))
	st, _ = zzStatusOf(exec, id)
	zz.Assert("C04.replay.final-status-never-changes", st == pb.TransactionStatus_SUCCESS)
	ic := &pb.Interchain{}
	if ok, data := exec.ledger.GetState(constant.InterchainContractAddr.Address(), []byte(contracts.INTERCHAINSERVICE_PREFIX+"-"+zzSrcFullID())); ok {
		_ = ic.Unmarshal(data)
	}
	zz.Assert("C02.replay.repeated-index-not-counted-again", ic.InterchainCounter["1356:chB:sB"] == 1)
	im, _ := exec.ledger.GetInterchainMeta(3)
	zz.Assert("C02.replay.not-delivered-again", zzDelivered(im, "chB") == 0)
}
