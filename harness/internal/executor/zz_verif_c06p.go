//go:build verif

package executor

import (
	"math/big"

	"github.com/meshplus/bitxhub-model/constant"
	"github.com/meshplus/bitxhub-model/pb"
	"github.com/meshplus/bitxhub/internal/executor/contracts"
	zz "github.com/meshplus/bitxhub/internal/zzverif"
)

func zzReceiptTx(index uint64, typ pb.IBTP_Type, nonce uint64, hashN int) *pb.BxhTransaction {
	return &pb.BxhTransaction{From: zzAddr(zzUsers[1]), To: constant.InterchainContractAddr.Address(), Nonce: nonce, TransactionHash: zzHash(hashN), Timestamp: 1,
		IBTP: &pb.IBTP{From: zzSrcFullID(), To: "1356:chB:sB", Index: index, Type: typ}}
}

func zzStatusOf(exec *BlockExecutor, id string) (pb.TransactionStatus, bool) {
	rec, ok := zzRecordOf(exec, id)
	return rec.Status, ok
}

func zzTimedOut(im *pb.InterchainMeta, chain, id string) int {
	n := 0
	if im != nil && im.TimeoutCounter != nil {
		if sl, ok := im.TimeoutCounter[chain]; ok && sl != nil {
			for _, x := range sl.Slice {
				if x == id {
					n++
				}
			}
		}
	}
	return n
}

// ZZH_C06_pipeline: whole blocks through the real processExecuteEvent with the real contracts
// (nothing of the executor's internal call order is copied into the harness): block 1 accepts a
// request with timeout T (1 or 2); each following block up to 1+T+1 is empty or carries one receipt
// for it (success / failure / rollback). The request is listed as timed out for its source chain in
// exactly block 1+T and only if no receipt was accepted by then - a receipt accepted in block 1+T
// itself counts; an accepted final status is never altered afterwards; after the timeout only a
// rollback or failure receipt is accepted.
// zz:also C04 C07
func ZZH_C06_pipeline() { zzTimeoutPipeline() }

// ZZH_C06_odd_ids: the same lifecycle for a source service whose id contains the characters the
// transaction id and the timeout list use as separators (service ids are not restricted at
// registration): a dash, a comma.
// zz:also C08
func ZZH_C06_odd_ids() {
	zzSrcSvc = []string{"s-A", "s,A"}[zz.Choice("sourceServiceId", 2)]
	zz.Tag("C06.F-comma-in-id", zzSrcSvc == "s,A")
	zzTimeoutPipeline()
}

func zzTimeoutPipeline() {
	exec := zzNewExec(1, big.NewInt(0))
	exec.ibtpVerify = &zzStubVerify{verdict: make([]uint8, 8), seen: make([]int, 8)}
	exec.config.ProofType = "serial"
	zzInterchainWorld(exec)
	T := int64(1 + zz.Choice("timeout", zz.Tier(2, 3)))
	req := zzRequestTx(1, 0, 0)
	req.IBTP.TimeoutHeight = T
	exec.processExecuteEvent(zzBlockOf(1, []pb.Transaction{req}))
	id := zzSrcFullID() + "-1356:chB:sB-1"
	st, ok := zzStatusOf(exec, id)
	zz.Assert("C06.pipe.request-accepted", ok && st == pb.TransactionStatus_BEGIN)
	expiry := uint64(1 + T)
	model := pb.TransactionStatus_BEGIN
	nonce := uint64(0)
	for h := uint64(2); h <= expiry+1; h++ {
		var txs []pb.Transaction
		kind := zz.Choice("block", 4) // 0 empty, 1 success, 2 failure, 3 rollback receipt
		var typ pb.IBTP_Type
		if kind != 0 && nonce < uint64(zz.Tier(2, 3)) {
			typ = []pb.IBTP_Type{pb.IBTP_RECEIPT_SUCCESS, pb.IBTP_RECEIPT_FAILURE, pb.IBTP_RECEIPT_ROLLBACK}[kind-1]
			txs = append(txs, zzReceiptTx(1, typ, nonce, int(1+nonce)))
			nonce++
		} else {
			kind = 0
		}
		crashed, _ := zz.Crashed(func() { exec.processExecuteEvent(zzBlockOf(h, txs)) })
		zz.Assert("C08.block-executes", !crashed)
		if crashed {
			return
		}
		// reference: the receipt acts first (it is a transaction of the block), the expiry at the end of the block
		if kind != 0 {
			switch {
			case model == pb.TransactionStatus_BEGIN && typ == pb.IBTP_RECEIPT_SUCCESS:
				model = pb.TransactionStatus_SUCCESS
			case model == pb.TransactionStatus_BEGIN && typ == pb.IBTP_RECEIPT_FAILURE:
				model = pb.TransactionStatus_FAILURE
			case model == pb.TransactionStatus_BEGIN_ROLLBACK && (typ == pb.IBTP_RECEIPT_ROLLBACK || typ == pb.IBTP_RECEIPT_FAILURE):
				model = pb.TransactionStatus_ROLLBACK
			}
		}
		expired := false
		if h == expiry && model == pb.TransactionStatus_BEGIN {
			model = pb.TransactionStatus_BEGIN_ROLLBACK
			expired = true
		}
		got, _ := zzStatusOf(exec, id)
		zz.Assert("C06.pipe.status-follows-accepted-events", got == model)
		im, err := exec.ledger.GetInterchainMeta(h)
		zz.Assert("C06.pipe.meta", err == nil)
		want := 0
		if expired {
			want = 1
		}
		zz.Assert("C06.pipe.listed-exactly-at-expiry-without-receipt", zzTimedOut(im, "chA", id) == want)
		zz.Cover("C06.pipe.expired", expired)
		zz.Cover("C06.pipe.receipt-in-expiry-block", h == expiry && kind != 0 && !expired)
	}
	_ = contracts.TxInfoKey
}
