//go:build verif

package executor

import (
	"github.com/cbergoon/merkletree"
	"math/big"
	"sync"

	"github.com/meshplus/bitxhub-kit/crypto"
	"github.com/meshplus/bitxhub-kit/types"
	"github.com/meshplus/bitxhub-model/constant"
	"github.com/meshplus/bitxhub-model/pb"
	"github.com/meshplus/bitxhub/internal/executor/contracts"
	"github.com/meshplus/bitxhub/internal/executor/oracle/appchain"
	"github.com/meshplus/bitxhub/internal/ledger"
	"github.com/meshplus/bitxhub/internal/repo"
	zz "github.com/meshplus/bitxhub/internal/zzverif"
)

var (
	zzAdmins = []string{
		"0xc7F999b83Af6DF9e67d0a37Ee7e900bF38b3D013",
		"0x79a1215469FaB6f9c63c1816b45183AD3624bE34",
		"0x97c8B516D19edBf575D72a172Af7F418BE498C37",
		"0xc0Ff2e0b3189132D815b8eb325bE17285AC898f8",
	}
	zzUsers = []string{
		"0x1000000000000000000000000000000000000001",
		"0x2000000000000000000000000000000000000002",
	}
)

// zzKey is a block-signing key stub (signatures are not part of any claim).
type zzKey struct{}

func (zzKey) Bytes() ([]byte, error)               { return []byte("key"), nil }
func (zzKey) Type() crypto.KeyType                 { return crypto.Secp256k1 }
func (zzKey) Sign(digest []byte) ([]byte, error)   { return []byte("signature"), nil }
func (zzKey) PublicKey() crypto.PublicKey          { return nil }

type zzVerify struct{ ok func(tx pb.Transaction) (bool, uint64, error) }

// zzNewExec builds a BlockExecutor over a real ledger (model stores) with n admins.
func zzNewExec(nAdmins int, gasPrice *big.Int) *BlockExecutor {
	rp := &repo.Repo{Key: &repo.Key{PrivKey: zzKey{}}}
	lg, err := ledger.New(rp, zz.NewStore(), zz.NewStore(), zz.NewBlockFile(), nil, zz.Logger())
	if err != nil {
		panic(err)
	}
	return zzNewExecOn(lg, nAdmins, gasPrice)
}

// zzNewExecOn builds a BlockExecutor over the given ledger.
func zzNewExecOn(lg *ledger.Ledger, nAdmins int, gasPrice *big.Int) *BlockExecutor {
	cfg := repo.Config{}
	cfg.Genesis.ChainID = 1356
	cfg.Executor.Type = "serial"
	exec := &BlockExecutor{
		client:           &appchain.Client{},
		ledger:           lg,
		logger:           zz.Logger(),
		serviceCache:     &sync.Map{},
		currentHeight:    lg.GetChainMeta().Height,
		currentBlockHash: lg.GetChainMeta().BlockHash,
		config:           cfg,
		bxhGasPrice:      gasPrice,
		lock:             &sync.Mutex{},
		gasLock:          &sync.Mutex{},
		admins:           zzAdmins[:nAdmins],
		evmChainCfg:      newEVMChainCfg(&cfg),
	}
	exec.config.ChainID = 1356
	exec.txsExecutor = NewSerialExecutor(exec.applyTx, exec.registerBoltContracts, exec.logger)
	return exec
}

func zzAddr(s string) *types.Address { return types.NewAddressByStr(s) }

func zzHash(n int) *types.Hash {
	return types.NewHashByStr([]string{
		"0x1111111111111111111111111111111111111111111111111111111111111111",
		"0x2222222222222222222222222222222222222222222222222222222222222222",
		"0x3333333333333333333333333333333333333333333333333333333333333333",
		"0x4444444444444444444444444444444444444444444444444444444444444444",
		"0x5555555555555555555555555555555555555555555555555555555555555555",
		"0x6666666666666666666666666666666666666666666666666666666666666666",
	}[n])
}

func zzBalance(exec *BlockExecutor, a string) *big.Int { return exec.ledger.GetBalance(zzAddr(a)) }

func zzSetBalance(exec *BlockExecutor, a string, name string) *big.Int {
	b := zz.BigInt(name)
	zz.Assume(zz.BigLe(big.NewInt(0), b))
	exec.ledger.SetBalance(zzAddr(a), b)
	return b
}

// zzRecordOf reads the transaction record of a one-to-one cross-chain transaction.
func zzRecordOf(exec *BlockExecutor, id string) (pb.TransactionRecord, bool) {
	var r pb.TransactionRecord
	ok, v := exec.ledger.GetState(constant.TransactionMgrContractAddr.Address(), []byte(contracts.TxInfoKey(id)))
	if !ok {
		return r, false
	}
	err := r.Unmarshal(v)
	return r, err == nil
}

// zzRefRoot: the Merkle root over the given leaves, computed with the tree library directly
// (a reference that does not go through the executor's own root functions).
func zzRefRoot(leaves []merkletree.Content) *types.Hash {
	if len(leaves) == 0 {
		return &types.Hash{}
	}
	tree, err := merkletree.NewTree(leaves)
	if err != nil {
		panic(err)
	}
	return types.NewHash(tree.MerkleRoot())
}

// zzCheckStoredRoots: the stored header of block h commits to exactly the stored transactions
// (every one of them, in block order, also those rejected before execution) and to exactly their
// receipts as stored (every field Receipt.Hash covers, failed receipts included).
func zzCheckStoredRoots(exec *BlockExecutor, h uint64) {
	stored, err := exec.ledger.GetBlock(h, true)
	zz.Assert("C09.roots.block-stored", err == nil)
	if err != nil {
		return
	}
	var txLeaves, rLeaves []merkletree.Content
	for _, tx := range stored.Transactions.Transactions {
		txLeaves = append(txLeaves, tx.GetHash())
		r, e := exec.ledger.GetReceipt(tx.GetHash())
		zz.Assert("C09.roots.receipt-stored", e == nil)
		if e != nil {
			return
		}
		rLeaves = append(rLeaves, r.Hash())
	}
	zz.Assert("C09.roots.tx-root-commits-to-every-stored-transaction", stored.BlockHeader.TxRoot.String() == zzRefRoot(txLeaves).String())
	zz.Assert("C10.roots.receipt-root-commits-to-every-stored-receipt", stored.BlockHeader.ReceiptRoot.String() == zzRefRoot(rLeaves).String())
}
