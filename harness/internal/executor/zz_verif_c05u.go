//go:build verif

package executor

import (
	"encoding/json"
	"math/big"

	"github.com/meshplus/bitxhub-core/governance"
	servicemgr "github.com/meshplus/bitxhub-core/service-mgr"
	"github.com/meshplus/bitxhub-model/constant"
	"github.com/meshplus/bitxhub-model/pb"
	"github.com/meshplus/bitxhub/internal/executor/contracts"
	zz "github.com/meshplus/bitxhub/internal/zzverif"
)

// ZZH_C05_unpaid_receipt: a one-to-many group of two children (chA:sA -> chB:sB and -> chC:sC)
// through whole blocks of the real executor with a gas price: block 1 begins both children, block 2
// carries the success receipt of the first, block 3 the failure receipt of the second, sent by an
// account that can or cannot pay the fee. The group's stored status and the block's rollback
// notifications go together: if the receipt transaction failed (fee) the group record is exactly
// what it was; if the group left BEGIN in block 3, that block delivers the failure receipt to the
// source chain, tells it to roll back the other child and tells chB to roll back the succeeded one.
// zz:also C07 C14
func ZZH_C05_unpaid_receipt() {
	exec := zzNewExec(1, big.NewInt(1))
	exec.ibtpVerify = &zzStubVerify{verdict: make([]uint8, 8), seen: make([]int, 8)}
	exec.config.ProofType = "serial"
	exec.ledger.SetState(constant.ServiceMgrContractAddr.Address(), []byte(servicemgr.ServiceKey("chC:sC")), zzServiceJSON("chC", "sC", "serviceC", governance.GovernanceAvailable, map[string]struct{}{}), nil)
	exec.ledger.SetBalance(zzAddr(zzUsers[0]), big.NewInt(1000000000))
	// the reporting account's balance is arbitrary: the solver decides whether it covers the fee
	zzSetBalance(exec, zzUsers[1], "reporterBalance")
	zzInterchainWorld(exec)
	group := &pb.StringUint64Map{Keys: []string{"1356:chB:sB", "1356:chC:sC"}, Vals: []uint64{1, 1}}
	mk := func(to string, nonce uint64, hashN int) *pb.BxhTransaction {
		tx := zzRequestTx(1, nonce, hashN)
		tx.IBTP.To = to
		tx.IBTP.Group = group
		tx.IBTP.TimeoutHeight = 20
		return tx
	}
	exec.processExecuteEvent(zzBlockOf(1, []pb.Transaction{mk("1356:chB:sB", 0, 0), mk("1356:chC:sC", 1, 1)}))
	kidB, kidC := zzSrcFullID()+"-1356:chB:sB-1", zzSrcFullID()+"-1356:chC:sC-1"
	ok, gidRaw := exec.ledger.GetState(constant.TransactionMgrContractAddr.Address(), []byte(kidB))
	zz.Assert("C05.unpaid.group-begun", ok)
	if !ok {
		return
	}
	gid := string(gidRaw)
	info := func() contracts.TransactionInfo {
		var ti contracts.TransactionInfo
		ok, v := exec.ledger.GetState(constant.TransactionMgrContractAddr.Address(), []byte(contracts.GlobalTxInfoKey(gid)))
		zz.Assert("C05.unpaid.info", ok && json.Unmarshal(v, &ti) == nil)
		return ti
	}
	// block 2: the first child's success receipt, paid by the funded account
	r1 := zzReceiptTx(1, pb.IBTP_RECEIPT_SUCCESS, 2, 2)
	r1.From = zzAddr(zzUsers[0])
	exec.processExecuteEvent(zzBlockOf(2, []pb.Transaction{r1}))
	before := info()
	zz.Assert("C05.unpaid.first-child-succeeded", before.GlobalState == pb.TransactionStatus_BEGIN && before.ChildTxInfo[kidB] == pb.TransactionStatus_SUCCESS && before.ChildTxInfo[kidC] == pb.TransactionStatus_BEGIN)
	// block 3: the second child's failure receipt
	r2 := zzReceiptTx(1, pb.IBTP_RECEIPT_FAILURE, 0, 3)
	r2.IBTP.To = "1356:chC:sC"
	crashed, _ := zz.Crashed(func() { exec.processExecuteEvent(zzBlockOf(3, []pb.Transaction{r2})) })
	zz.Assert("C08.block-executes", !crashed)
	if crashed {
		return
	}
	rc, err := exec.ledger.GetReceipt(r2.GetHash())
	zz.Assert("C05.unpaid.receipt-stored", err == nil)
	if err != nil {
		return
	}
	after := info()
	im, err2 := exec.ledger.GetInterchainMeta(3)
	zz.Assert("C05.unpaid.meta", err2 == nil)
	told := func(chain, id string) bool {
		if im == nil || im.MultiTxCounter == nil {
			return false
		}
		if sl, ok := im.MultiTxCounter[chain]; ok && sl != nil {
			for _, x := range sl.Slice {
				if x == id {
					return true
				}
			}
		}
		return false
	}
	zz.Cover("C05.unpaid.fee-failure", rc.Status == pb.Receipt_FAILED)
	zz.Cover("C05.unpaid.accepted", rc.Status == pb.Receipt_SUCCESS)
	if rc.Status == pb.Receipt_FAILED {
		zz.Assert("C07.unpaid.failed-receipt-leaves-the-group-record", after.GlobalState == before.GlobalState && after.ChildTxInfo[kidB] == before.ChildTxInfo[kidB] && after.ChildTxInfo[kidC] == before.ChildTxInfo[kidC])
	}
	if after.GlobalState != pb.TransactionStatus_BEGIN {
		zz.Assert("C05.unpaid.never-success", after.GlobalState != pb.TransactionStatus_SUCCESS)
		// (the source learns of the failing child through that child's own failure receipt, which is
		// delivered to it in this block; the rollback list names the other children)
		zz.Assert("C05.unpaid.source-told-in-that-block", told("chA", kidB) && zzDelivered(im, "chA") == 1)
		zz.Assert("C05.unpaid.destination-of-succeeded-child-told-in-that-block", told("chB", kidB))
	}
}
