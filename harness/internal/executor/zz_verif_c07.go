//go:build verif

package executor

import (
	"fmt"
	"math/big"

	"github.com/meshplus/bitxhub-core/boltvm"
	servicemgr "github.com/meshplus/bitxhub-core/service-mgr"
	"github.com/meshplus/bitxhub-model/pb"
	zz "github.com/meshplus/bitxhub/internal/zzverif"
)

const zzProbeAddr = "0x00000000000000000000000000000000000000AA"

// zzProbe is the most general contract: a symbolic sequence of stub actions, then a
// symbolic ending (success / error / panic).
type zzProbe struct {
	boltvm.Stub
	maxActions int
	did        *zzDid
}

type zzDid struct {
	set, add, del, interchainEv, serviceEv, balance bool
	end                                              int
	senderDelta                                      int64 // net change of the sender's own balance made by the contract
}

func (p *zzProbe) Run() *boltvm.Response {
	n := zz.Choice("actions", p.maxActions+1)
	for i := 0; i < n; i++ {
		switch zz.Choice("action", 7) {
		case 6: // the contract moves value out of / into the SENDER's own account
			acc := p.GetAccount(zzUsers[0]).(interface {
				AddBalance(*big.Int)
				SubBalance(*big.Int)
				GetBalance() *big.Int
			})
			if zz.Choice("senderDelta", 2) == 0 {
				acc.AddBalance(big.NewInt(3))
				p.did.senderDelta += 3
			} else if acc.GetBalance().Cmp(big.NewInt(3)) >= 0 {
				acc.SubBalance(big.NewInt(3))
				p.did.senderDelta -= 3
			}
			p.did.balance = true
		case 0:
			p.Set("k1", []byte{zz.U8("val")})
			p.did.set = true
		case 1:
			p.Add("k2", []byte{zz.U8("val")})
			p.did.add = true
		case 2:
			p.Delete("k1")
			p.did.del = true
		case 3:
			p.PostInterchainEvent(map[string]*pb.EventWrapper{"chB": {Index: p.GetTxIndex()}})
			p.did.interchainEv = true
		case 4:
			p.PostEvent(pb.Event_SERVICE, &servicemgr.Service{ChainID: "chB", ServiceID: "s9", Status: "available"})
			p.did.serviceEv = true
		case 5:
			acc := p.GetAccount(zzUsers[1]).(interface{ AddBalance(*big.Int) })
			acc.AddBalance(big.NewInt(7))
			p.did.balance = true
		}
	}
	p.did.end = zz.Choice("end", 3)
	switch p.did.end {
	case 1:
		return boltvm.Error(boltvm.OtherInternalErrCode, "probe failed")
	case 2:
		panic(fmt.Errorf("probe panicked"))
	}
	return boltvm.Success(nil)
}

func zzProbeTx(nonce uint64) *pb.BxhTransaction {
	ip := &pb.InvokePayload{Method: "Run"}
	ipb, _ := ip.Marshal()
	td := &pb.TransactionData{Type: pb.TransactionData_INVOKE, VmType: pb.TransactionData_BVM, Payload: ipb}
	tdb, _ := td.Marshal()
	return &pb.BxhTransaction{From: zzAddr(zzUsers[0]), To: zzAddr(zzProbeAddr), Payload: tdb, Nonce: nonce, TransactionHash: zzHash(0), Timestamp: 1}
}

// ZZH_C07_probe: one BVM transaction calling the probe goes through the real applyTx,
// BoltVM, BoltStubImpl and SimpleLedger. If the receipt is FAILED nothing but the sender's
// nonce and fee may have changed, nothing is announced as interchain delivery and the
// executor's service cache is untouched.
// (also C08: whatever the contract does and whatever the sender can pay, applyTx returns a receipt)
// zz:also C08
func ZZH_C07_probe() {
	price := zz.BigInt("gasPrice")
	zz.Assume(zz.BigLe(big.NewInt(0), price))
	zz.Assume(zz.BigLe(price, big.NewInt(10)))
	exec := zzNewExec(1, price)
	did := &zzDid{}
	max := 2
	if zz.Thorough() {
		max = 3
	}
	exec.txsExecutor.GetBoltContracts()[zzAddr(zzProbeAddr).String()] = &zzProbe{maxActions: max, did: did}
	probe := zzAddr(zzProbeAddr)
	// committed pre-state of the probe contract and balances
	exec.ledger.SetState(probe, []byte("k1"), []byte("old"), nil)
	preSender := zzSetBalance(exec, zzUsers[0], "senderBal")
	exec.ledger.SetBalance(zzAddr(zzUsers[1]), big.NewInt(100))
	preAdmin := zzBalance(exec, zzAdmins[0])
	accounts, root := exec.ledger.FlushDirtyData()
	_ = exec.ledger.StateLedger.Commit(1, accounts, root)
	nonce := zz.U64("nonce")
	zz.Assume(nonce < 1<<62)
	exec.ledger.PrepareBlock(zzHash(2), 2)
	exec.txsExecutor.ApplyTransactions(nil, nil) // resets the per-block counters
	// what an earlier, successful transaction of the same block did to the contract account
	wantK1 := []byte("old")
	switch zz.Choice("earlierInBlock", 4) {
	case 1: // only read it
		exec.ledger.GetState(probe, []byte("k1"))
		exec.ledger.Finalise(true)
	case 2: // deleted the committed key
		exec.ledger.SetState(probe, []byte("k1"), nil, nil)
		exec.ledger.Finalise(true)
		wantK1 = nil
	case 3: // overwrote it
		exec.ledger.SetState(probe, []byte("k1"), []byte("mid"), nil)
		exec.ledger.Finalise(true)
		wantK1 = []byte("mid")
	}
	tx := zzProbeTx(nonce)
	receipt := exec.applyTx(0, tx, "", nil)

	failed := receipt.Status == pb.Receipt_FAILED
	zz.Cover("C07.failed", failed)
	zz.Cover("C07.succeeded", !failed)
	zz.Assert("C07.nonce", exec.ledger.GetNonce(tx.From) == nonce+1)
	fee := new(big.Int).Mul(big.NewInt(int64(receipt.GasUsed)), price)
	postSender := zzBalance(exec, zzUsers[0])
	if failed {
		zz.Tag("C07.D6", did.add)
		zz.Tag("C07.D7", zz.Or(did.interchainEv, did.serviceEv))
		ok1, v1 := exec.ledger.GetState(probe, []byte("k1"))
		if wantK1 == nil {
			zz.Assert("C07.failed.journaled-state-restored", !ok1)
		} else {
			zz.Assert("C07.failed.journaled-state-restored", ok1 && string(v1) == string(wantK1))
		}
		// the restored state is also what gets persisted
		acc2, root2 := exec.ledger.FlushDirtyData()
		_ = exec.ledger.StateLedger.Commit(2, acc2, root2)
		ok3, v3 := exec.ledger.GetState(probe, []byte("k1"))
		if wantK1 == nil {
			zz.Assert("C07.failed.persisted-state", !ok3)
		} else {
			zz.Assert("C07.failed.persisted-state", ok3 && string(v3) == string(wantK1))
		}
		ok2, _ := exec.ledger.GetState(probe, []byte("k2"))
		zz.Assert("C07.failed.added-state-restored", !ok2)
		zz.Assert("C07.failed.other-balance", zzBalance(exec, zzUsers[1]).Cmp(big.NewInt(100)) == 0)
		zz.Assert("C07.failed.sender-pays-fee-or-all", zz.Or(zz.BigEq(postSender, new(big.Int).Sub(preSender, fee)), zz.And(zz.BigLt(preSender, fee), zz.BigEq(postSender, big.NewInt(0)))))
		zz.Assert("C07.failed.no-delivery", len(exec.txsExecutor.GetInterchainCounter()) == 0)
		_, cached := exec.serviceCache.Load("chB:s9")
		zz.Assert("C07.failed.cache-untouched", !cached)
	} else {
		zz.Assert("C07.ok.end", did.end == 0)
		zz.Assert("C07.ok.sender-pays-fee", zz.BigEq(postSender, new(big.Int).Sub(new(big.Int).Add(preSender, big.NewInt(did.senderDelta)), fee)))
	}
	// fee reaches the admin (single admin: no rounding): what the sender lost beyond the
	// contract's own effect on it is exactly what the admin gained
	zz.Assert("C07.admin-gets-fee", zz.BigLe(preAdmin, zzBalance(exec, zzAdmins[0])))
	gained := new(big.Int).Sub(zzBalance(exec, zzAdmins[0]), preAdmin)
	base := preSender
	if !failed {
		base = new(big.Int).Add(preSender, big.NewInt(did.senderDelta))
	}
	zz.Assert("C07.admin-gains-exactly-what-the-sender-paid", zz.BigEq(gained, new(big.Int).Sub(base, postSender)))
}
