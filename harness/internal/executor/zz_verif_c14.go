//go:build verif

package executor

import (
	"math/big"

	zz "github.com/meshplus/bitxhub/internal/zzverif"
)

// ZZH_C14_transfer: the real transfer() with arbitrary non-negative balances, any integer
// amount (also negative) and from/to chosen among 3 addresses including from == to.
func ZZH_C14_transfer() {
	exec := zzNewExec(1, big.NewInt(1))
	addrs := []string{zzUsers[0], zzUsers[1], zzAdmins[0]}
	fi := zz.Choice("from", 3)
	ti := zz.Choice("to", 3)
	var pre [3]*big.Int
	for i, a := range addrs {
		pre[i] = zzSetBalance(exec, a, "bal")
	}
	amount := zz.BigInt("amount")
	err := exec.transfer(zzAddr(addrs[fi]), zzAddr(addrs[ti]), amount)
	sumPre, sumPost := new(big.Int), new(big.Int)
	var post [3]*big.Int
	for i, a := range addrs {
		post[i] = zzBalance(exec, a)
		sumPre.Add(sumPre, pre[i])
		sumPost.Add(sumPost, post[i])
		zz.Assert("C14.transfer.no-negative", zz.BigLe(big.NewInt(0), post[i]))
	}
	zz.Cover("C14.transfer.ok", err == nil)
	zz.Cover("C14.transfer.refused", err != nil)
	zz.Assert("C14.transfer.conserved", zz.BigEq(sumPre, sumPost))
	if err != nil {
		for i := range addrs {
			zz.Assert("C14.transfer.fail-no-effect", zz.BigEq(pre[i], post[i]))
		}
		zz.Assert("C14.transfer.refused-only-if-short-or-negative", zz.Or(zz.BigLt(pre[fi], amount), zz.BigLt(amount, big.NewInt(0))))
	} else if fi != ti {
		zz.Assert("C14.transfer.exact-debit", zz.BigEq(post[fi], new(big.Int).Sub(pre[fi], amount)))
		zz.Assert("C14.transfer.exact-credit", zz.BigEq(post[ti], new(big.Int).Add(pre[ti], amount)))
		zz.Assert("C14.transfer.covered", zz.BigLe(amount, pre[fi]))
	}
}

// ZZH_C14_fee: payGasFee / payLeftAsGasFee / payAdmins with 1..4 admins (the sender may be an
// admin): the sender pays exactly the fee (or everything), admins gain n*floor(fee/n), the
// rounding loss is in [0, n-1], nobody goes negative, no value is created.
func ZZH_C14_fee() {
	n := 1 + zz.Choice("admins", 4)
	price := zz.BigInt("gasPrice")
	zz.Assume(zz.BigLe(big.NewInt(0), price))
	exec := zzNewExec(n, price)
	senders := []string{zzUsers[0], zzAdmins[0]}
	si := zz.Choice("sender", 2)
	sender := senders[si]
	all := append([]string{zzUsers[0]}, zzAdmins[:n]...)
	pre := map[string]*big.Int{}
	sumPre := new(big.Int)
	for _, a := range all {
		pre[a] = zzSetBalance(exec, a, "bal")
		sumPre.Add(sumPre, pre[a])
	}
	gas := zz.U64i("gasUsed")
	tx := &zzTx{from: zzAddr(sender)}
	fees := new(big.Int).Mul(new(big.Int).SetUint64(gas), price)
	err := exec.payGasFee(tx, gas)
	if err != nil {
		exec.payLeftAsGasFee(tx)
		fees = pre[sender]
	}
	sumPost := new(big.Int)
	for _, a := range all {
		b := zzBalance(exec, a)
		sumPost.Add(sumPost, b)
		zz.Assert("C14.fee.no-negative", zz.BigLe(big.NewInt(0), b))
	}
	zz.Cover("C14.fee.paid", err == nil)
	zz.Cover("C14.fee.short", err != nil)
	loss := new(big.Int).Sub(sumPre, sumPost)
	zz.Assert("C14.fee.no-creation", zz.BigLe(big.NewInt(0), loss))
	zz.Assert("C14.fee.rounding-loss", zz.BigLt(loss, big.NewInt(int64(n))))
	zz.Assert("C14.fee.refused-only-if-short", err == nil || zz.BigLt(pre[sender], new(big.Int).Mul(new(big.Int).SetUint64(gas), price)))
	if si == 0 {
		zz.Assert("C14.fee.sender-pays-exactly", zz.BigEq(zzBalance(exec, sender), new(big.Int).Sub(pre[sender], fees)))
	}
}
