//go:build verif

package executor

import (
	"math/big"

	"github.com/meshplus/bitxhub-model/pb"
	zz "github.com/meshplus/bitxhub/internal/zzverif"
)

// ZZH_C10_tx_root_lists: the transaction root of a block commits to its list of transactions: two
// lists of 1..4 transactions (drawn from three transactions, repeats allowed - a block may carry the
// same transaction twice) have the same root, computed by the real buildTxMerkleTree, only if they
// are the same list.
func ZZH_C10_tx_root_lists() {
	exec := zzNewExec(1, big.NewInt(0))
	pool := []pb.Transaction{zzTransferTx(zzUsers[0], zzUsers[1], 0, 0, "1"), zzTransferTx(zzUsers[0], zzUsers[1], 1, 1, "1"), zzTransferTx(zzUsers[1], zzUsers[0], 0, 2, "1")}
	pick := func(name string) ([]pb.Transaction, []int) {
		n := 1 + zz.Choice(name+".len", 4)
		var txs []pb.Transaction
		var idx []int
		for i := 0; i < n; i++ {
			j := 2
			if i < 2 || n < 4 {
				j = zz.Choice(name+".tx", 3)
			}
			// (four-element lists vary in their first two positions and end with the third transaction twice
			// or once: the shapes around a repeated last element)
			if n == 4 && i == 3 {
				j = zz.Choice(name+".last", 3)
			}
			txs = append(txs, pool[j])
			idx = append(idx, j)
		}
		return txs, idx
	}
	a, ia := pick("a")
	b, ib := pick("b")
	ra, ea := exec.buildTxMerkleTree(a)
	rb, eb := exec.buildTxMerkleTree(b)
	zz.Assert("C10.txroot.computed", ea == nil && eb == nil)
	same := len(ia) == len(ib)
	for i := 0; same && i < len(ia); i++ {
		same = ia[i] == ib[i]
	}
	zz.Tag("C10.F-repeated-last-leaf", len(ia) != len(ib))
	zz.Assert("C10.txroot.same-root-only-for-the-same-list", ra.String() != rb.String() || same)
}
