//go:build verif

package executor

import (
	"math/big"

	corewasm "github.com/meshplus/bitxhub-core/wasm"
	"github.com/meshplus/bitxhub-kit/types"
	"github.com/meshplus/bitxhub-model/pb"
	"github.com/meshplus/bitxhub/internal/ledger"
	"github.com/meshplus/bitxhub/internal/repo"
	"github.com/meshplus/bitxhub/pkg/vm/wasm"
	"github.com/meshplus/bitxhub/pkg/vm/wasm/vmledger"
	zz "github.com/meshplus/bitxhub/internal/zzverif"
)

// ZZH_C08_xvm: XVM (wasm) transactions of one block through the real applyTx, with the wasm
// runtime's FFI boundary modelled (engine/interp/intrinsics_wasmtime.go: the only module the model
// accepts is the 8-byte empty module; everything shorter or different is refused, longer byte
// strings are outside the model). Deployments carry an empty payload, 1..8 arbitrary bytes, or the
// empty module; invocations target an address without code, an address whose code is not a stored
// contract, or a contract deployed earlier in the block, with an empty, garbage or well-formed
// invoke payload. No transaction content crashes the node (implicit assertion), each gets exactly
// one receipt with a status, a deployment succeeds only for the empty module (and always for it when the
// fee is payable) and then the
// returned address holds code, a failed transaction creates no code and moves no balance beyond
// the fee (C07), and value is conserved (C14).
// zz:also C07 C14
func ZZH_C08_xvm() {
	price := zz.BigInt("gasPrice")
	zz.Assume(zz.BigLe(big.NewInt(0), price))
	zz.Assume(zz.BigLe(price, big.NewInt(3)))
	rp := &repo.Repo{Key: &repo.Key{PrivKey: zzKey{}}}
	lg, err := ledger.New(rp, zz.NewStore(), zz.NewStore(), zz.NewBlockFile(), nil, zz.Logger())
	if err != nil {
		panic(err)
	}
	exec := zzNewExecOn(lg, 1, price)
	addrs := []string{zzUsers[0], zzUsers[1], zzAdmins[0]}
	sum := func() *big.Int {
		s := new(big.Int)
		for _, a := range addrs {
			s.Add(s, zzBalance(exec, a))
		}
		return s
	}
	for _, a := range addrs {
		zzSetBalance(exec, a, "bal")
	}
	// an account whose code is not a stored contract
	exec.ledger.SetCode(zzAddr(zzUsers[1]), []byte("not a contract"))
	acc, root := exec.ledger.FlushDirtyData()
	_ = exec.ledger.StateLedger.Commit(1, acc, root)
	exec.ledger.PrepareBlock(zzHash(2), 2)
	exec.txsExecutor.ApplyTransactions(nil, nil)
	total := sum()
	emptyModule := []byte("\x00asm\x01\x00\x00\x00")
	var deployed *types.Address
	nonce := uint64(0)
	for i := 0; i < zz.Tier(2, 3); i++ {
		td := &pb.TransactionData{Type: pb.TransactionData_INVOKE, VmType: pb.TransactionData_XVM}
		to := &types.Address{}
		deploy := zz.Choice("deploy", 2) == 0
		expectOK := false
		if deploy {
			switch zz.Choice("module", 3) {
			case 0:
				n := zz.Choice("len", 9)
				td.Payload = zz.Bytes("code", n)
			case 1:
				td.Payload = emptyModule
				expectOK = true
			case 2:
				td.Payload = nil
			}
		} else {
			switch zz.Choice("target", 3) {
			case 0:
				to = zzAddr("0x00000000000000000000000000000000000000C1") // no code there
			case 1:
				to = zzAddr(zzUsers[1])
			case 2:
				if deployed == nil {
					continue
				}
				to = deployed
			}
			switch zz.Choice("input", 3) {
			case 0:
				td.Payload = nil
			case 1:
				td.Payload = [][]byte{{0xff, 0xff, 0xff}, {0x0a, 0x05, 'a', 'b'}, {0x12}}[zz.Choice("garbage", 3)]
			case 2:
				td.Payload, _ = (&pb.InvokePayload{Method: "run", Args: []*pb.Arg{{Type: pb.Arg_I32, Value: []byte("7")}}}).Marshal()
			}
		}
		tdb, _ := td.Marshal()
		tx := &pb.BxhTransaction{From: zzAddr(zzUsers[0]), To: to, Payload: tdb, Nonce: nonce, TransactionHash: zzHash(i), Timestamp: 1}
		nonce++
		var pre [3]*big.Int
		for j, a := range addrs {
			pre[j] = zzBalance(exec, a)
		}
		receipt := exec.applyTx(i, tx, "", nil)
		zz.Assert("C08.xvm.one-receipt-with-a-status", receipt != nil && (receipt.Status == pb.Receipt_SUCCESS || receipt.Status == pb.Receipt_FAILED))
		if receipt == nil {
			return
		}
		ok := receipt.Status == pb.Receipt_SUCCESS
		if deploy {
			if ok {
				zz.Assert("C08.xvm.only-a-module-deploys", expectOK || len(td.Payload) == 8)
			} else if expectOK {
				// a module is refused only when its sender cannot pay for the deployment
				fee := new(big.Int).Mul(big.NewInt(210000), price)
				zz.Assert("C08.xvm.a-module-deploys-unless-the-fee-is-unpayable", zz.BigLt(pre[0], fee))
			}
			if ok {
				zz.Assert("C08.xvm.deploy-returns-an-address", len(receipt.Ret) == types.AddressLength)
				if len(receipt.Ret) == types.AddressLength {
					deployed = types.NewAddress(receipt.Ret)
					zz.Assert("C08.xvm.deployed-address-holds-code", len(exec.ledger.GetCode(deployed)) > 0)
				}
			}
		} else {
			// the empty module exports nothing and the other targets are no contracts
			zz.Assert("C08.xvm.invoke-without-a-method-fails", !ok)
		}
		now := sum()
		zz.Assert("C14.xvm.conserved", zz.BigEq(now, total))
		total = now
		for j, a := range addrs {
			zz.Assert("C14.xvm.no-negative", zz.BigLe(big.NewInt(0), zzBalance(exec, a)))
			if !ok && j == 1 {
				zz.Assert("C07.xvm.failed-moves-nothing-but-the-fee", zz.BigEq(zzBalance(exec, a), pre[j]))
			}
		}
		if !ok {
			zz.Assert("C07.xvm.failed-leaves-the-foreign-code", string(exec.ledger.GetCode(zzAddr(zzUsers[1]))) == "not a contract")
		}
		zz.Cover("C08.xvm.failed", !ok)
		zz.Cover("C08.xvm.ok", ok)
	}
}

// ZZH_C08_xvm_model: the facts the wasm runtime model rests on, as one concrete run. The engine
// executes it against the model; the agreement run executes it against the real runtime, so a
// model that differs from the real runtime on these inputs is reported as an engine mismatch:
// the empty module is accepted and exports nothing, every proper prefix of it and sample 8-byte
// strings that differ from it (wrong magic, wrong version) are refused.
func ZZH_C08_xvm_model() {
	try := func(code []byte) error {
		context := make(map[string]interface{})
		store := wasm.NewStore()
		w, err := corewasm.NewWithStore(code, context, vmledger.NewLedgerWasmLibs(context, store), store)
		if err != nil {
			return err
		}
		in, _ := (&pb.InvokePayload{Method: "run"}).Marshal()
		_, _, err = w.Execute(in, 1000)
		zz.Assert("C08.model.the-empty-module-exports-nothing", err != nil && err.Error() == "wasm execute: no such method")
		return nil
	}
	empty := []byte("\x00asm\x01\x00\x00\x00")
	zz.Assert("C08.model.the-empty-module-is-accepted", try(empty) == nil)
	for n := 0; n < 8; n++ {
		zz.Assert("C08.model.a-truncated-module-is-refused", try(empty[:n]) != nil)
	}
	for _, other := range []string{"\x00asm\x02\x00\x00\x00", "\x00asn\x01\x00\x00\x00", "\x01asm\x01\x00\x00\x00", "\x00asm\x01\x00\x00\x01", "\x00\x00\x00\x00\x00\x00\x00\x00", "\xff\xff\xff\xff\xff\xff\xff\xff", "\x00asm\x00\x00\x00\x00", "\x00asm\x01\x01\x00\x00"} {
		zz.Assert("C08.model.another-8-byte-string-is-refused", try([]byte(other)) != nil)
	}
}
