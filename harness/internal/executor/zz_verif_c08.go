//go:build verif

package executor

import (
	"fmt"
	"math/big"

	"github.com/meshplus/bitxhub-core/agency"
	"github.com/meshplus/bitxhub-core/validator"
	"github.com/meshplus/bitxhub-kit/types"
	"github.com/meshplus/bitxhub-model/pb"
	zz "github.com/meshplus/bitxhub/internal/zzverif"
)

// zzStubVerify answers CheckProof with a symbolic verdict per transaction.
type zzStubVerify struct {
	verdict []uint8 // 0 ok, 1 rejected with error, 2 rejected without error (rule answered false)
	seen    []int
}

func (v *zzStubVerify) CheckProof(tx pb.Transaction) (bool, uint64, error) {
	i := int(tx.GetNonce())
	v.seen[i]++
	switch v.verdict[i] {
	case 1:
		return false, 0, fmt.Errorf("ibtp proof verify failed: bad proof")
	case 2:
		return false, 0, nil
	}
	return true, 0, nil
}
func (v *zzStubVerify) ValidationEngine() validator.Engine          { return nil }
func (v *zzStubVerify) GetProof(txHash types.Hash) ([]byte, bool)   { return nil, false }
func (v *zzStubVerify) DeleteProof(txHash types.Hash)               {}

// ZZH_C08_verify_proofs: verifyProofs over 1..6 transactions with symbolic verdicts and both
// proof modes: no crash (in particular none inside a goroutine), every transaction checked
// exactly once, every rejected one ends up in invalidTx (C03: every IBTP is checked).
// zz:also C03
func ZZH_C08_verify_proofs() {
	exec := zzNewExec(1, big.NewInt(0))
	modes := []string{"serial", "parallel"}
	exec.config.ProofType = modes[zz.Choice("proofType", 2)]
	n := 1 + zz.Choice("ntx", zz.Tier(6, 13))
	sv := &zzStubVerify{verdict: make([]uint8, n), seen: make([]int, n)}
	exec.ibtpVerify = sv
	var txs []pb.Transaction
	rejectedNoErr := false
	for i := 0; i < n; i++ {
		if n <= 6 || i == 0 || i == n-1 || i == n/2 {
			sv.verdict[i] = zz.U8("verdict")
			zz.Assume(sv.verdict[i] <= 2)
		} // (thorough sizes 7..13: symbolic verdicts at the first, middle and last position only)
		if sv.verdict[i] == 2 {
			rejectedNoErr = true
		}
		txs = append(txs, &pb.BxhTransaction{Nonce: uint64(i), IBTP: &pb.IBTP{From: "1356:chA:s1", To: "1356:chB:s2", Index: uint64(i + 1)}, TransactionHash: zzHash(0)})
	}
	bw := &BlockWrapper{
		block:     &pb.Block{BlockHeader: &pb.BlockHeader{Number: 2}, Transactions: &pb.Transactions{Transactions: txs}},
		invalidTx: map[int]agency.InvalidReason{},
	}
	_ = rejectedNoErr
	crashed, inGoroutine := zz.Crashed(func() { exec.verifyProofs(bw) })
	zz.Assert("C08.proofs.crash", !crashed)
	zz.Assert("C08.proofs.crash-in-goroutine", !inGoroutine)
	if crashed {
		return
	}
	for i := 0; i < n; i++ {
		zz.Assert("C03.every-tx-checked-once", sv.seen[i] == 1)
		_, invalid := bw.invalidTx[i]
		zz.Assert("C03.rejected-is-invalid", invalid == (sv.verdict[i] != 0))
	}
}
