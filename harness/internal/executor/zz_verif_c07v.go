//go:build verif

package executor

import (
	"math/big"

	"github.com/meshplus/bitxhub-model/pb"
	"github.com/meshplus/bitxhub/internal/ledger"
	"github.com/meshplus/bitxhub/internal/repo"
	zz "github.com/meshplus/bitxhub/internal/zzverif"
)

// ZZH_C07_view: read-only execution, wired as in app.NewBitXHub: the view executor runs on its
// own SimpleLedger over the SAME state store and the same chain ledger as the read-write one.
// A view call of the most general contract (symbolic writes, events, balance changes, success /
// error / panic) and of a transfer leaves both stores, the chain meta and the view ledger's own
// later reads exactly as they were, and the next block executes on the read-write ledger with
// the same result as if the view call had never happened.
func ZZH_C07_view() {
	rp := &repo.Repo{Key: &repo.Key{PrivKey: zzKey{}}}
	chainStore, stateStore, bf := zz.NewStore(), zz.NewStore(), zz.NewBlockFile()
	rw, err := ledger.New(rp, chainStore, stateStore, bf, nil, zz.Logger())
	if err != nil {
		panic(err)
	}
	exec := zzNewExecOn(rw, 1, big.NewInt(0))
	exec.ibtpVerify = &zzStubVerify{verdict: make([]uint8, 4), seen: make([]int, 4)}
	exec.config.ProofType = "serial"
	probe := zzAddr(zzProbeAddr)
	exec.ledger.SetState(probe, []byte("k1"), []byte("old"), nil)
	exec.ledger.SetBalance(zzAddr(zzUsers[0]), big.NewInt(1000))
	exec.ledger.SetBalance(zzAddr(zzUsers[1]), big.NewInt(100))
	acc, root := exec.ledger.FlushDirtyData()
	_ = exec.ledger.StateLedger.Commit(0, acc, root)
	// block 1 (a transfer) so that there is a head block to view at
	exec.processExecuteEvent(zzBlockOf(1, []pb.Transaction{zzTransferTx(zzUsers[0], zzUsers[1], 0, 0, "5")}))
	zz.Assert("C07.view.setup", exec.currentHeight == 1)

	viewState, err := ledger.NewSimpleLedger(rp, stateStore, nil, zz.Logger())
	if err != nil {
		panic(err)
	}
	view := zzNewExecOn(&ledger.Ledger{ChainLedger: rw.ChainLedger, StateLedger: viewState}, 1, big.NewInt(0))
	did := &zzDid{}
	view.txsExecutor.GetBoltContracts()[probe.String()] = &zzProbe{maxActions: 2, did: did}

	chainBefore, stateBefore := chainStore.Clone(), stateStore.Clone()
	metaBefore := rw.GetChainMeta()
	var tx pb.Transaction
	if zz.Choice("viewTx", 2) == 0 {
		tx = zzProbeTx(zz.U64("nonce"))
	} else {
		tx = zzTransferTx(zzUsers[0], zzUsers[1], 1, 1, []string{"7", "100000"}[zz.Choice("amount", 2)])
	}
	var receipts []*pb.Receipt
	crashed, _ := zz.Crashed(func() { receipts = view.ApplyReadonlyTransactions([]pb.Transaction{tx}) })
	zz.Assert("C07.view.no-crash", !crashed)
	zz.Assert("C07.view.one-receipt", len(receipts) == 1)
	zz.Cover("C07.view.succeeded", len(receipts) == 1 && receipts[0].Status == pb.Receipt_SUCCESS)
	zz.Cover("C07.view.failed", len(receipts) == 1 && receipts[0].Status == pb.Receipt_FAILED)

	zz.Assert("C07.view.state-store-unchanged", stateStore.Same(stateBefore))
	zz.Assert("C07.view.chain-store-unchanged", chainStore.Same(chainBefore))
	metaAfter := rw.GetChainMeta()
	zz.Assert("C07.view.chain-meta-unchanged", metaAfter.Height == metaBefore.Height && metaAfter.BlockHash.String() == metaBefore.BlockHash.String() &&
		metaAfter.InterchainTxCount == metaBefore.InterchainTxCount)
	// the view ledger itself does not remember the writes either
	ok1, v1 := viewState.GetState(probe, []byte("k1"))
	zz.Assert("C07.view.view-ledger-forgets", ok1 && string(v1) == "old")
	ok2, _ := viewState.GetState(probe, []byte("k2"))
	zz.Assert("C07.view.view-ledger-forgets", !ok2)
	zz.Assert("C07.view.view-ledger-forgets", viewState.GetBalance(zzAddr(zzUsers[1])).Cmp(big.NewInt(105)) == 0)
	zz.Assert("C07.view.nonce-unchanged", viewState.GetNonce(zzAddr(zzUsers[0])) == rw.GetNonce(zzAddr(zzUsers[0])))
	// and the read-write side continues as if nothing happened
	exec.processExecuteEvent(zzBlockOf(2, []pb.Transaction{zzTransferTx(zzUsers[0], zzUsers[1], 1, 2, "3")}))
	zz.Assert("C07.view.next-block", exec.currentHeight == 2 && rw.GetBalance(zzAddr(zzUsers[1])).Cmp(big.NewInt(108)) == 0)
}
