//go:build verif

package executor

import (
	"math/big"

	"github.com/meshplus/bitxhub-model/pb"
	"github.com/meshplus/bitxhub/internal/ledger"
	"github.com/meshplus/bitxhub/internal/repo"
	zz "github.com/meshplus/bitxhub/internal/zzverif"
)

// (own file: uses applyTx only, so it keeps compiling when fee helpers change their signatures)
// ZZH_C14_block: two transfer transactions of one block through the real applyTx (transfer,
// gas fee to the admin, revert on unpayable fee, pay-what-is-left) with symbolic balances, amounts
// and gas price, senders / receivers chosen among two users and the admin (so a receiver may
// already have been touched by the first transaction's fee or credit). Value is never created,
// nobody goes negative, and a FAILED transfer moves nothing except the sender's fee. Afterwards the
// block is committed and a restarted node (cold cache, same store) reads the same balances (C01, C10).
// zz:also C01 C10 C07
func ZZH_C14_block() {
	price := zz.BigInt("gasPrice")
	zz.Assume(zz.BigLe(big.NewInt(0), price))
	zz.Assume(zz.BigLe(price, big.NewInt(5)))
	rp := &repo.Repo{Key: &repo.Key{PrivKey: zzKey{}}}
	stateStore := zz.NewStore()
	lg, err := ledger.New(rp, zz.NewStore(), stateStore, zz.NewBlockFile(), nil, zz.Logger())
	if err != nil {
		panic(err)
	}
	exec := zzNewExecOn(lg, 1, price)
	// (the fourth account has never been seen by the ledger: no record, no cached object)
	fresh := "0xF0000000000000000000000000000000000000F4"
	addrs := []string{zzUsers[0], zzUsers[1], zzAdmins[0], fresh}
	sum := func() *big.Int {
		s := new(big.Int)
		for _, a := range addrs {
			s.Add(s, zzBalance(exec, a))
		}
		return s
	}
	for _, a := range addrs[:3] {
		zzSetBalance(exec, a, "bal")
	}
	acc, root := exec.ledger.FlushDirtyData()
	_ = exec.ledger.StateLedger.Commit(1, acc, root)
	exec.ledger.PrepareBlock(zzHash(2), 2)
	exec.txsExecutor.ApplyTransactions(nil, nil)
	// an earlier transaction of the block may only have READ the unknown account (a call to it that fails)
	// (decided when the account is first used as a receiver: the read then precedes that transfer)
	freshDecided := false
	total := sum()
	nonces := []uint64{0, 0}
	for i := 0; i < zz.Tier(2, 3); i++ {
		fi, ti := 0, 1
		if i < 2 {
			fi = zz.Choice("from", 2)
			ti = zz.Choice("to", 4)
		} // (thorough: the third transfer goes from the first to the second account; amount symbolic)
		if fi == ti {
			continue
		}
		if ti == 3 && !freshDecided {
			freshDecided = true
			if zz.Choice("unknownAccountReadEarlier", 2) == 1 {
				_ = exec.ledger.GetBalance(zzAddr(fresh))
				_ = exec.ledger.GetCode(zzAddr(fresh))
			}
		}
		amt := zz.BigInt("amount")
		zz.Assume(zz.BigLe(big.NewInt(0), amt))
		zz.Assume(zz.BigLe(amt, big.NewInt(1000000)))
		var pre [4]*big.Int
		for j, a := range addrs {
			pre[j] = zzBalance(exec, a)
		}
		tx := zzTransferTx(addrs[fi], addrs[ti], nonces[fi], i, "0")
		td := &pb.TransactionData{Type: pb.TransactionData_NORMAL, Amount: amt.String()}
		tx.Payload, _ = td.Marshal()
		nonces[fi]++
		receipt := exec.applyTx(i, tx, "", nil)
		now := sum()
		zz.Assert("C14.block.no-creation", zz.BigLe(now, total))
		// one admin: fees are not split, so nothing is lost to rounding either
		zz.Assert("C14.block.conserved-with-one-admin", zz.BigEq(now, total))
		total = now
		for j, a := range addrs {
			zz.Assert("C14.block.no-negative", zz.BigLe(big.NewInt(0), zzBalance(exec, a)))
			if receipt.Status == pb.Receipt_FAILED && j != fi && j != 2 {
				zz.Assert("C14.block.failed-transfer-credits-nobody", zz.BigEq(zzBalance(exec, a), pre[j]))
			}
		}
		zz.Cover("C14.block.failed", receipt.Status == pb.Receipt_FAILED)
		zz.Cover("C14.block.ok", receipt.Status == pb.Receipt_SUCCESS)
	}
	// what this node now reads is what gets persisted: a node restarted after the block reads the same balances
	acc2, root2 := exec.ledger.FlushDirtyData()
	_ = exec.ledger.StateLedger.Commit(2, acc2, root2)
	cold, err := ledger.NewSimpleLedger(rp, stateStore, nil, zz.Logger())
	if err != nil {
		panic(err)
	}
	for _, a := range addrs {
		zz.Assert("C01.restarted-node-reads-the-same-balances", zz.BigEq(cold.GetBalance(zzAddr(a)), zzBalance(exec, a)))
	}
}
