//go:build verif

package zzverif

import (
	"sort"

	"github.com/meshplus/bitxhub-kit/storage"
)

// MemStore models storage.Storage (LevelDB contract: Get returns nil for a missing key,
// batches are atomic, iteration is in key order). Batches can be made to "crash"
// (DropBatch) for crash-recovery harnesses.
type MemStore struct {
	keys []string
	vals [][]byte
	// DropNext > 0: the next DropNext committed batches are lost (crash before durability)
	DropMask []bool // per batch commit (in commit order): true = lost
	commits  int
	Closed   bool
	// CrashAfter >= 0: only the first CrashAfter durable write events (batch commits and
	// direct Put/Delete calls, in program order) reach the disk; later ones are lost.
	CrashAfter int
	events     int
	armed      bool
}

// ArmCrash makes the store lose every durable write event after the next n ones.
func (m *MemStore) ArmCrash(n int) { m.armed, m.CrashAfter, m.events = true, n, 0 }

// Events reports how many durable write events the store has been asked to perform since it was armed.
func (m *MemStore) Events() int { return m.events }

// Disarm ends the crash window (the process has restarted).
func (m *MemStore) Disarm() { m.armed = false }

func (m *MemStore) lost() bool {
	if !m.armed {
		return false
	}
	m.events++
	return m.events > m.CrashAfter
}

var _ storage.Storage = (*MemStore)(nil)

func NewStore() *MemStore { return &MemStore{} }

func (m *MemStore) find(k string) int {
	for i, kk := range m.keys {
		if kk == k {
			return i
		}
	}
	return -1
}

func (m *MemStore) Put(key, value []byte) {
	if m.lost() {
		return
	}
	m.put(key, value)
}

func (m *MemStore) put(key, value []byte) {
	v := append([]byte{}, value...)
	if i := m.find(string(key)); i >= 0 {
		m.vals[i] = v
		return
	}
	m.keys = append(m.keys, string(key))
	m.vals = append(m.vals, v)
}

func (m *MemStore) Delete(key []byte) {
	if m.lost() {
		return
	}
	m.del(key)
}

func (m *MemStore) del(key []byte) {
	if i := m.find(string(key)); i >= 0 {
		m.keys = append(m.keys[:i:i], m.keys[i+1:]...)
		m.vals = append(m.vals[:i:i], m.vals[i+1:]...)
	}
}

func (m *MemStore) Get(key []byte) []byte {
	if i := m.find(string(key)); i >= 0 {
		return m.vals[i]
	}
	return nil
}

func (m *MemStore) Has(key []byte) bool { return m.find(string(key)) >= 0 }

func (m *MemStore) Close() error { m.Closed = true; return nil }

func (m *MemStore) GetStats() (interface{}, error) { return nil, nil }

// Len is the number of stored keys.
func (m *MemStore) Len() int { return len(m.keys) }

// Keys returns the stored keys in key order.
func (m *MemStore) Keys() []string {
	ks := append([]string{}, m.keys...)
	sort.Strings(ks)
	return ks
}

// Clone copies the store (values are immutable once stored).
func (m *MemStore) Clone() *MemStore {
	return &MemStore{keys: append([]string{}, m.keys...), vals: append([][]byte{}, m.vals...)}
}

// Same reports (possibly symbolically) whether both stores hold the same keys and values.
func (m *MemStore) Same(o *MemStore) bool {
	if len(m.keys) != len(o.keys) {
		return false
	}
	res := true
	for i, k := range m.keys {
		j := o.find(k)
		if j < 0 {
			return false
		}
		res = And(res, EqBytes(m.vals[i], o.vals[j]))
	}
	return res
}

type memIter struct {
	keys []string
	vals [][]byte
	pos  int
}

func (m *MemStore) rangeIter(in func(k string) bool) *memIter {
	it := &memIter{pos: -1}
	for _, k := range m.Keys() {
		if in(k) {
			it.keys = append(it.keys, k)
			it.vals = append(it.vals, m.vals[m.find(k)])
		}
	}
	return it
}

func (m *MemStore) Iterator(start, end []byte) storage.Iterator {
	s, e := string(start), string(end)
	return m.rangeIter(func(k string) bool {
		return k >= s && (end == nil || k < e)
	})
}

func (m *MemStore) Prefix(prefix []byte) storage.Iterator {
	p := string(prefix)
	return m.rangeIter(func(k string) bool { return len(k) >= len(p) && k[:len(p)] == p })
}

func (it *memIter) Next() bool {
	if it.pos+1 >= len(it.keys) {
		it.pos = len(it.keys)
		return false
	}
	it.pos++
	return true
}

func (it *memIter) Prev() bool {
	if it.pos <= 0 {
		it.pos = -1
		return false
	}
	it.pos--
	return true
}

func (it *memIter) Seek(key []byte) bool {
	for i, k := range it.keys {
		if k >= string(key) {
			it.pos = i
			return true
		}
	}
	it.pos = len(it.keys)
	return false
}

func (it *memIter) Key() []byte {
	if it.pos < 0 || it.pos >= len(it.keys) {
		return nil
	}
	return []byte(it.keys[it.pos])
}

func (it *memIter) Value() []byte {
	if it.pos < 0 || it.pos >= len(it.vals) {
		return nil
	}
	return it.vals[it.pos]
}

type memBatch struct {
	m    *MemStore
	ops  []func()
}

func (m *MemStore) NewBatch() storage.Batch { return &memBatch{m: m} }

func (b *memBatch) Put(key, value []byte) {
	k, v := append([]byte{}, key...), append([]byte{}, value...)
	b.ops = append(b.ops, func() { b.m.put(k, v) })
}

func (b *memBatch) Delete(key []byte) {
	k := append([]byte{}, key...)
	b.ops = append(b.ops, func() { b.m.del(k) })
}

func (b *memBatch) Commit() {
	n := b.m.commits
	b.m.commits++
	if n < len(b.m.DropMask) && b.m.DropMask[n] {
		return // lost in the crash
	}
	if b.m.lost() {
		return
	}
	for _, op := range b.ops {
		op()
	}
	b.ops = nil
}

// Commits is the number of batch commits attempted so far.
func (m *MemStore) Commits() int { return m.commits }
