//go:build verif

package zzverif

import (
	"os"

	"github.com/meshplus/bitxhub-kit/storage/blockfile"
)

var (
	bfDirs    = map[*blockfile.BlockFile]string{}
	bfDurable = map[*blockfile.BlockFile]int{}
)

// NewBlockFile opens a fresh block file (natively in a temporary directory; under symgo
// an in-memory table model behind the real BlockFile code).
func NewBlockFile() *blockfile.BlockFile {
	dir, err := os.MkdirTemp("", "zzbf")
	if err != nil {
		panic(err)
	}
	bf, err := blockfile.NewBlockFile(dir, Logger())
	if err != nil {
		panic(err)
	}
	bfDirs[bf] = dir
	bfDurable[bf] = -1
	tempDirs = append(tempDirs, dir)
	return bf
}

// BlockFileDurable declares that only the next n table appends become durable before a
// crash (AppendBlock writes five tables in a fixed order). n < 0: no crash.
func BlockFileDurable(bf *blockfile.BlockFile, n int) { bfDurable[bf] = n }

// ReopenBlockFile models the restart: tables are reopened and repaired (truncated to the
// shortest). Natively a partially appended block equals a block that was not appended.
func ReopenBlockFile(bf *blockfile.BlockFile) *blockfile.BlockFile {
	dir := bfDirs[bf]
	n, _ := bf.Blocks()
	_ = bf.Close()
	nb, err := blockfile.NewBlockFile(dir, Logger())
	if err != nil {
		panic(err)
	}
	if d := bfDurable[bf]; d >= 0 && d < 5 && n > 0 {
		if err := nb.TruncateBlocks(n - 1); err != nil {
			panic(err)
		}
	}
	bfDirs[nb] = dir
	bfDurable[nb] = -1
	return nb
}
