//go:build verif

package zzverif

import (
	"github.com/meshplus/bitxhub-kit/crypto"
	"github.com/meshplus/bitxhub-kit/crypto/asym/ecdsa"
)

var signerAddrs = []string{
	"0x1a642f0E3c3aF545E7AcBD38b07251B3990914F1",
	"0x5050A4F4b3f9338C3472dcC01A87C76A144b3c9c",
	"0x3325a78425F17a7E487Eb5666b2bFd93aBb06c70",
	"0xc48B812bB43401392c037381AcA934F4069C0517",
	"0xd09Ad14080d4b257a819a4f579b8485Be88f086c",
}

// SignerAddr is the address of the i-th harness validator key (i in 0..4).
func SignerAddr(i int) string { return signerAddrs[i] }

// SignDigest signs digest with the i-th harness validator key (real secp256k1 natively; under
// symgo an opaque token from which the recovery model returns SignerAddr(i) for exactly this digest).
func SignDigest(i int, digest []byte) []byte {
	d := make([]byte, 32)
	for j := range d {
		d[j] = byte(i + 1)
	}
	k, err := ecdsa.UnmarshalPrivateKey(d, crypto.Secp256k1)
	if err != nil {
		panic(err)
	}
	sig, err := k.Sign(digest)
	if err != nil {
		panic(err)
	}
	return sig
}
