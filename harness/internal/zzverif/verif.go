//go:build verif

// Package zzverif is the harness-side API of the symgo checker. Under symgo every
// function here is intercepted (nondeterministic values become solver variables,
// Assert becomes a query). Compiled natively it replays one concrete
// counterexample read from the file named by ZZVERIF_REPLAY.
package zzverif

import (
	"runtime/debug"
	"bytes"
	"encoding/json"
	"fmt"
	"io"
	"math/big"
	"os"
	"reflect"
	"sort"
	"time"
	"testing"

	"github.com/sirupsen/logrus"
)

type replayFile struct {
	Harness string            `json:"harness"`
	Label   string            `json:"label"`
	Nondet  map[string]string `json:"nondet"`
	Choices []int             `json:"choices"`
}

var (
	rf      replayFile
	counts  = map[string]int{}
	choiceI int
	loaded  bool
	// Violated collects the labels of failed assertions in this process.
	Violated []string
)

func load() {
	if loaded {
		return
	}
	loaded = true
	rf.Nondet = map[string]string{}
	p := os.Getenv("ZZVERIF_REPLAY")
	if p == "" {
		return
	}
	b, err := os.ReadFile(p)
	if err != nil {
		panic("zzverif: cannot read replay file: " + err.Error())
	}
	if err := json.Unmarshal(b, &rf); err != nil {
		panic("zzverif: bad replay file: " + err.Error())
	}
}

func reset() {
	counts = map[string]int{}
	choiceI = 0
	Violated = nil
}

func next(name string) *big.Int {
	load()
	k := counts[name]
	counts[name] = k + 1
	s, ok := rf.Nondet[fmt.Sprintf("%s#%d", name, k)]
	if !ok {
		return new(big.Int)
	}
	v, ok := new(big.Int).SetString(s, 10)
	if !ok {
		panic("zzverif: bad value for " + name)
	}
	return v
}

func U64(name string) uint64 { return next(name).Uint64() }
func I64(name string) int64  { return int64(next(name).Uint64()) }
func I32(name string) int32  { return int32(next(name).Uint64()) }
func U32(name string) uint32 { return uint32(next(name).Uint64()) }
func U8(name string) uint8   { return uint8(next(name).Uint64()) }
func Int(name string) int    { return int(next(name).Uint64()) }
func Bool(name string) bool  { return next(name).Sign() != 0 }

func Bytes(name string, n int) []byte {
	out := make([]byte, n)
	for i := range out {
		out[i] = uint8(next(fmt.Sprintf("%s[%d]", name, i)).Uint64())
	}
	return out
}

func BigInt(name string) *big.Int { return next(name) }

// Choice returns an index in [0,n); every alternative is explored.
func Choice(name string, n int) int {
	load()
	if choiceI < len(rf.Choices) {
		c := rf.Choices[choiceI]
		choiceI++
		if c >= 0 && c < n {
			return c
		}
	}
	return 0
}

// Symbolic reports whether the harness runs under the symbolic executor.
func Symbolic() bool { return false }

// Thorough reports whether the run is a thorough-tier run (VERIF_TIER=thorough).
func Thorough() bool { return os.Getenv("VERIF_TIER") == "thorough" }

// NoAddress: data that nodes must agree on (a contract result, an error text that ends up in a
// receipt) must not contain a formatted memory address. Under the symbolic executor formatted
// pointers are marked; natively the same call of two consecutive replay runs must yield equal
// bytes (addresses change between runs).
func NoAddress(label string, data []byte) {
	k := fmt.Sprintf("%s#%d", label, counts["noaddr:"+label])
	counts["noaddr:"+label]++
	if prev, ok := noAddrSeen[k]; ok {
		if !bytes.Equal(prev, data) {
			Assert(label, false)
		}
		return
	}
	noAddrSeen[k] = append([]byte{}, data...)
}

var noAddrSeen = map[string][]byte{}

// ConcreteClock: time is not the subject of this harness; the symbolic executor lets time.Now
// return concrete instants stepNs apart instead of symbolic ones (a stated bound).
func ConcreteClock(stepNs int64) {}

// PacedClock: time is driven by the harness. Under the symbolic executor every clock reading
// advances a concrete clock by stepNs and Pause(ns) advances it by ns, so which timing decisions
// the code takes is explored through the placement of pauses (natively: nothing to do, the code
// between two readings takes far less than a pause).
func PacedClock(stepNs int64) {}

// Pause lets ns of wall time pass (natively: sleeps ns).
func Pause(ns int64) { time.Sleep(time.Duration(ns)) }

// Tier returns quick in the quick tier and thorough in the thorough tier (bounds of a harness).
func Tier(quick, thorough int) int {
	if Thorough() {
		return thorough
	}
	return quick
}

type assumeFailed struct{}

func Assume(c bool) {
	if !c {
		panic(assumeFailed{})
	}
}

func Assert(label string, c bool) {
	if !c {
		Violated = append(Violated, label)
		fmt.Printf("REPLAY-VIOLATION %s\n", label)
	}
}

func Cover(label string, c bool) {}
func Tag(id string, c bool)     {}

type cutT struct{ reason string }

func Cut(reason string) { panic(cutT{reason}) }

func Observe(name string, v interface{}) { fmt.Printf("OBS %s=%v\n", name, v) }

func And(a, b bool) bool     { return a && b }
func Or(a, b bool) bool      { return a || b }
func Implies(a, b bool) bool { return !a || b }
func Not(a bool) bool        { return !a }
func Iff(a, b bool) bool     { return a == b }

func EqBytes(a, b []byte) bool   { return bytes.Equal(a, b) }
func EqStr(a, b string) bool     { return a == b }
func BigEq(a, b *big.Int) bool   { return a.Cmp(b) == 0 }
func BigLe(a, b *big.Int) bool   { return a.Cmp(b) <= 0 }
func BigLt(a, b *big.Int) bool   { return a.Cmp(b) < 0 }
func PermuteMaps(on bool)        {}
func Schedule(policy int)        {}

// Crashed runs f and reports whether it panicked. A panic inside a goroutine
// started by f cannot be caught natively: it kills the replay process, which the
// replay driver recognises.
func Crashed(f func()) (panicked bool, inGoroutine bool) {
	defer func() {
		if r := recover(); r != nil {
			switch r.(type) {
			case assumeFailed, cutT:
				panic(r)
			}
			fmt.Printf("OBS panic=%v\n", r)
			panicked = true
		}
	}()
	f()
	return false, false
}

func Logger() logrus.FieldLogger {
	l := logrus.New()
	l.SetOutput(io.Discard)
	return l
}

// RunReplay is called from the generated TestZZReplay in each harnessed package.
// CrashLabel is the label of the implicit assertion of every harness: the code under test
// does not end in an unrecovered panic (in the node: the process dies).
const CrashLabel = "crash.unrecovered-panic"

func RunReplay(t *testing.T, harnesses map[string]func()) {
	if list := os.Getenv("ZZVERIF_REPLAY_LIST"); list != "" {
		runAgreement(list, harnesses)
		return
	}
	load()
	if os.Getenv("ZZVERIF_REPLAY") == "" {
		t.Skip("no replay file")
	}
	h, ok := harnesses[rf.Harness]
	if !ok {
		t.Skipf("harness %s not in this package", rf.Harness)
	}
	repeat := 1
	if os.Getenv("ZZVERIF_REPEAT") != "" {
		fmt.Sscan(os.Getenv("ZZVERIF_REPEAT"), &repeat)
	}
	defer cleanupTemp()
	for i := 0; i < repeat; i++ {
		reset()
		func() {
			defer func() {
				if r := recover(); r != nil {
					switch r := r.(type) {
					case assumeFailed:
						fmt.Println("REPLAY-ASSUME-FAILED")
					case cutT:
						fmt.Println("REPLAY-CUT " + r.reason)
					default:
						fmt.Printf("REPLAY-PANIC %v\n", r)
						if os.Getenv("ZZVERIF_STACK") != "" {
							fmt.Printf("%s\n", debug.Stack())
						}
						if rf.Label == CrashLabel {
							Violated = append(Violated, CrashLabel)
						}
					}
				}
			}()
			h()
		}()
		for _, l := range Violated {
			if l == rf.Label {
				fmt.Printf("REPLAY-REPRODUCED %s\n", l)
				return
			}
		}
	}
	fmt.Println("REPLAY-NOT-REPRODUCED")
}

// runAgreement re-runs inputs of paths the symbolic run completed without violation: natively
// every assertion must pass as well (translator validation).
func runAgreement(list string, harnesses map[string]func()) {
	defer cleanupTemp()
	for _, p := range bytes.Split([]byte(list), []byte(":")) {
		file := string(p)
		b, err := os.ReadFile(file)
		if err != nil {
			fmt.Printf("AGREE-MISMATCH %s unreadable\n", file)
			continue
		}
		rf = replayFile{Nondet: map[string]string{}}
		if err := json.Unmarshal(b, &rf); err != nil {
			fmt.Printf("AGREE-MISMATCH %s bad json\n", file)
			continue
		}
		loaded = true
		h, ok := harnesses[rf.Harness]
		if !ok {
			continue
		}
		panicked := ""
		noAddrSeen = map[string][]byte{}
		// each sample runs twice: the second run compares NoAddress data with the first
		for run := 0; run < 2 && panicked == "" && len(Violated) == 0; run++ {
			reset()
			func() {
				defer func() {
					if r := recover(); r != nil {
						switch r.(type) {
						case assumeFailed, cutT:
						default:
							panicked = fmt.Sprintf("%v", r)
						}
					}
				}()
				h()
			}()
		}
		switch {
		case panicked != "":
			fmt.Printf("AGREE-MISMATCH harness=%s native panic: %s\n", rf.Harness, panicked)
		case len(Violated) > 0:
			fmt.Printf("AGREE-MISMATCH harness=%s native assertion failures: %v\n", rf.Harness, Violated)
		default:
			fmt.Printf("AGREE-OK %s\n", rf.Harness)
		}
	}
	fmt.Println("AGREE-DONE")
}

// U64i / I64i are U64 / I64 whose arithmetic the symbolic executor encodes over
// mathematical integers with explicit wrap-around (for multiply/divide kernels).
func U64i(name string) uint64 { return next(name).Uint64() }
func I64i(name string) int64  { return int64(next(name).Uint64()) }

// HashForkOff: from here on, hash inputs with symbolic content that can differ are taken
// to differ (no exploration of the branch where two distinct-looking inputs coincide,
// unless the path condition forces them equal). A stated bound of the harness.
func HashForkOff() {}

// Methods lists the exported methods of obj's dynamic type, sorted by name.
func Methods(obj interface{}) []string {
	t := reflect.TypeOf(obj)
	var out []string
	for i := 0; i < t.NumMethod(); i++ {
		out = append(out, t.Method(i).Name)
	}
	sort.Strings(out)
	return out
}

var tempDirs []string

func cleanupTemp() {
	for _, d := range tempDirs {
		os.RemoveAll(d)
	}
	tempDirs = nil
}
