//go:build verif

package genesis

import (
	"github.com/ethereum/go-ethereum/event"
	"github.com/meshplus/bitxhub-core/agency"
	"github.com/meshplus/bitxhub-kit/crypto"
	"github.com/meshplus/bitxhub-kit/types"
	"github.com/meshplus/bitxhub-model/pb"
	"github.com/meshplus/bitxhub/internal/ledger"
	"github.com/meshplus/bitxhub/internal/model/events"
	"github.com/meshplus/bitxhub/internal/repo"
	zz "github.com/meshplus/bitxhub/internal/zzverif"
)

type zzKey struct{}

func (zzKey) Bytes() ([]byte, error)             { return []byte("key"), nil }
func (zzKey) Type() crypto.KeyType               { return crypto.Secp256k1 }
func (zzKey) Sign(digest []byte) ([]byte, error) { return []byte("signature"), nil }
func (zzKey) PublicKey() crypto.PublicKey        { return nil }

// zzExec is the part of the executor genesis needs: the set of built-in contract addresses.
type zzExec struct{ contracts map[string]agency.Contract }

func (e *zzExec) Start() error                                                 { return nil }
func (e *zzExec) Stop() error                                                  { return nil }
func (e *zzExec) ExecuteBlock(*pb.CommitEvent)                                 {}
func (e *zzExec) ApplyReadonlyTransactions(txs []pb.Transaction) []*pb.Receipt { return nil }
func (e *zzExec) SubscribeBlockEvent(chan<- events.ExecutedEvent) event.Subscription {
	return nil
}
func (e *zzExec) SubscribeBlockEventForRemote(chan<- events.ExecutedEvent) event.Subscription {
	return nil
}
func (e *zzExec) SubscribeLogsEvent(chan<- []*pb.EvmLog) event.Subscription      { return nil }
func (e *zzExec) SubscribeNodeEvent(chan<- events.NodeEvent) event.Subscription  { return nil }
func (e *zzExec) SubscribeAuditEvent(chan<- *pb.AuditTxInfo) event.Subscription  { return nil }
func (e *zzExec) GetBoltContracts() map[string]agency.Contract                   { return e.contracts }

type zzContract struct{}

func zzGenesisRun(weight uint64, balance string, permute bool) (*types.Hash, *types.Hash, uint64) {
	rp := &repo.Repo{Key: &repo.Key{PrivKey: zzKey{}}}
	lg, err := ledger.New(rp, zz.NewStore(), zz.NewStore(), zz.NewBlockFile(), nil, zz.Logger())
	if err != nil {
		panic(err)
	}
	g := &repo.Genesis{ChainID: 1356, Balance: balance,
		Admins: []*repo.Admin{
			{Address: "0xc7F999b83Af6DF9e67d0a37Ee7e900bF38b3D013", Weight: weight},
			{Address: "0x79a1215469FaB6f9c63c1816b45183AD3624bE34", Weight: 1},
			{Address: "0x97c8B516D19edBf575D72a172Af7F418BE498C37", Weight: 1},
		},
		Strategy: []*repo.Strategy{{Module: "appchain_mgr", Typ: "SimpleMajority", Extra: "a > 0.5 * t"}, {Module: "rule_mgr", Typ: "ZeroPermission"}},
	}
	nodes := []*repo.NetworkNodes{{ID: 1, Pid: "QmA", Account: "0xc7F999b83Af6DF9e67d0a37Ee7e900bF38b3D013"}, {ID: 2, Pid: "QmB", Account: "0x79a1215469FaB6f9c63c1816b45183AD3624bE34"}}
	ex := &zzExec{contracts: map[string]agency.Contract{}}
	for _, a := range []string{"0x000000000000000000000000000000000000000a", "0x000000000000000000000000000000000000000b", "0x000000000000000000000000000000000000000c",
		"0x000000000000000000000000000000000000000d", "0x000000000000000000000000000000000000000e", "0x000000000000000000000000000000000000000f"} {
		ex.contracts[a] = &zzContract{}
	}
	if permute {
		zz.PermuteMaps(true)
	}
	if err := Initialize(g, nodes, 2, lg, ex); err != nil {
		panic(err)
	}
	zz.PermuteMaps(false)
	meta := lg.GetChainMeta()
	blk, err := lg.GetBlock(1, false)
	if err != nil {
		panic(err)
	}
	return meta.BlockHash, blk.BlockHeader.StateRoot, meta.Height
}

// ZZH_C01_genesis: two nodes initialise their ledgers from the same genesis configuration
// (symbolic admin weight, symbolic clock, Go map orders chosen differently on the second node:
// all orders for maps of up to 4 entries, insertion / reverse / rotated order for larger ones).
// Genesis block hash and state root are identical.
func ZZH_C01_genesis() {
	w := zz.U64("weight")
	zz.Assume(w >= 1)
	zz.Assume(w < 1000)
	bal := []string{"100000000000000000000000000000000000", "1", "x"}[zz.Choice("balance", 3)]
	h1, r1, n1 := zzGenesisRun(w, bal, false)
	h2, r2, n2 := zzGenesisRun(w, bal, true)
	zz.Assert("C01.genesis.height", n1 == 1 && n2 == 1)
	zz.Assert("C01.genesis.same-state-root", r1.String() == r2.String())
	zz.Assert("C01.genesis.same-block-hash", h1.String() == h2.String())
}
