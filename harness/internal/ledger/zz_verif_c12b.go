//go:build verif

package ledger

import (
	zz "github.com/meshplus/bitxhub/internal/zzverif"
)

// Storage keys as contracts really use them: text keys (built-in contracts), 32-byte EVM slot
// hashes and short binary keys. The block journal stores the previous values of a block keyed by
// the raw key bytes inside a JSON document.
var zzBinKeys = [][]byte{
	[]byte("a"),
	{0xff, 0xfe, 0x80, 0x01},
	{0xfe},
	{0x00, 0x00, 0x00, 0x00, 0x00, 0x00, 0x00, 0x00, 0x00, 0x00, 0x00, 0x00, 0x00, 0x00, 0x00, 0x00,
		0x00, 0x00, 0x00, 0x00, 0x00, 0x00, 0x00, 0x00, 0x00, 0x00, 0x00, 0x00, 0x00, 0x00, 0x00, 0x01},
	{0xc2, 0x57, 0x5a, 0x0e, 0x9e, 0x59, 0x3c, 0x00, 0xf9, 0x59, 0xf8, 0xc9, 0x2f, 0x12, 0xdb, 0x28,
		0x69, 0xc3, 0x39, 0x5a, 0x3b, 0x05, 0x02, 0xd0, 0x5e, 0x25, 0x16, 0x44, 0x6f, 0x71, 0xf8, 0x5b},
	[]byte("caf\xc3\xa9"), // valid multi-byte UTF-8
}

// ZZH_C12_binary_keys: two keys of one account (every pair of the key shapes above) are written
// in block 1, changed or deleted in block 2 (and again in block 3); rolling back to block 1 restores
// both values exactly, on the running ledger and on a reopened one, and a key the later blocks
// created is gone.
// zz:also C11 C13
func ZZH_C12_binary_keys() {
	zz.HashForkOff()
	store := zz.NewStore()
	cache, _ := NewAccountCache()
	l := zzNewLedger(store, cache)
	k1 := zzBinKeys[zz.Choice("key1", len(zzBinKeys))]
	k2 := zzBinKeys[zz.Choice("key2", len(zzBinKeys))]
	if string(k1) == string(k2) {
		return
	}
	a := zzAddrs[0]
	v1, w1 := []byte{zz.U8("v1")}, []byte{zz.U8("w1")}
	l.SetState(a, k1, v1, nil)
	onlyLater := zz.Choice("k2-created-later", 2) == 1
	if !onlyLater {
		l.SetState(a, k2, w1, nil)
	}
	// a second account holds the same first key with its own value; a later block may touch only
	// this account (the journals of consecutive blocks then start with different accounts)
	b := zzAddrs[1]
	u1 := []byte{zz.U8("u1")}
	l.SetState(b, k1, u1, nil)
	root1 := zzCommit(l, 1)
	heights := 2 + zz.Choice("extra-block", 2)
	for h := 2; h <= heights; h++ {
		switch zz.Choice("change", 4) {
		case 3:
			l.SetState(b, k2, []byte{zz.U8("x2")}, nil)
		case 0:
			l.SetState(a, k1, []byte{zz.U8("v2")}, nil)
			l.SetState(a, k2, []byte{zz.U8("w2")}, nil)
		case 1:
			l.SetState(a, k1, nil, nil)
			l.SetState(a, k2, []byte{zz.U8("w2")}, nil)
		case 2:
			l.SetState(a, k2, []byte{zz.U8("w2")}, nil)
		}
		zzCommit(l, uint64(h))
	}
	err := l.RollbackState(1)
	zz.Assert("C12.bin.rollback-ok", err == nil)
	check := func(tag string, x *SimpleLedger) {
		ok1, g1 := x.GetState(a, k1)
		zz.Assert("C12.bin."+tag+".first-key-restored", zz.And(ok1, zz.EqBytes(g1, v1)))
		ok2, g2 := x.GetState(a, k2)
		if onlyLater {
			zz.Assert("C12.bin."+tag+".later-key-gone", !ok2)
		} else {
			zz.Assert("C12.bin."+tag+".second-key-restored", zz.And(ok2, zz.EqBytes(g2, w1)))
		}
		n := 0
		_, vals := x.QueryByPrefix(a, "")
		n = len(vals)
		want := 2
		if onlyLater {
			want = 1
		}
		zz.Assert("C12.bin."+tag+".no-junk-key-written", n == want)
	}
	checkB := func(tag string, x *SimpleLedger) {
		okb, gb := x.GetState(b, k1)
		zz.Assert("C12.bin."+tag+".other-account-keeps-its-own-value", zz.And(okb, zz.EqBytes(gb, u1)))
		okc, _ := x.GetState(b, k2)
		zz.Assert("C12.bin."+tag+".other-account-later-key-gone", !okc)
	}
	check("live", l)
	checkB("live", l)
	zz.Assert("C12.bin.root-chain", zz.EqBytes(l.prevJnlHash.Bytes(), root1.Bytes()))
	cache2, _ := NewAccountCache()
	l2 := zzNewLedger(store, cache2)
	check("reopen", l2)
	checkB("reopen", l2)
}

// ZZH_C12_rollback_drops_flushed_block: block 1 is committed; block 2 is executed and flushed (its
// values are in the account cache, its root is the ledger's current root) but its Commit has not
// happened - the executor persists asynchronously - when the ledger is rolled back to height 1 (the
// executor does that when consensus delivers another block for a height it already holds). The state
// is exactly that of block 1: reads, the root chain, and the root of the block executed next.
func ZZH_C12_rollback_drops_flushed_block() {
	zz.HashForkOff()
	store := zz.NewStore()
	cache, _ := NewAccountCache()
	l := zzNewLedger(store, cache)
	a := zzAddrs[0]
	v1 := []byte{zz.U8("v1")}
	l.SetState(a, []byte("k"), v1, nil)
	root1 := zzCommit(l, 1)
	l.SetState(a, []byte("k"), []byte{zz.U8("v2")}, nil)
	l.SetState(a, []byte("k2"), []byte{zz.U8("w2")}, nil)
	_, _ = l.FlushDirtyData() // block 2: flushed, never committed
	err := l.RollbackState(1)
	zz.Tag("C12.F-rollback-with-flushed-block", true)
	zz.Assert("C12.flushed.rollback-ok", err == nil)
	ok, g := l.GetState(a, []byte("k"))
	zz.Assert("C12.flushed.value-of-block-1-read-back", zz.And(ok, zz.EqBytes(g, v1)))
	ok2, _ := l.GetState(a, []byte("k2"))
	zz.Assert("C12.flushed.key-of-the-dropped-block-gone", !ok2)
	zz.Assert("C12.flushed.root-chain-continues-from-block-1", zz.EqBytes(l.prevJnlHash.Bytes(), root1.Bytes()))
}

// ZZH_C12_empty_value: a key holds v in block 1, is overwritten with a present but zero-length value
// in block 2 (or deleted, or left alone) and rewritten in block 3; rolling back to block 2 reads back
// exactly what was read when block 2 was committed - on the running ledger and on a reopened one.
func ZZH_C12_empty_value() {
	zz.HashForkOff()
	store := zz.NewStore()
	cache, _ := NewAccountCache()
	l := zzNewLedger(store, cache)
	a := zzAddrs[0]
	k := []byte("k")
	l.SetState(a, k, []byte{zz.U8("v1")}, nil)
	zzCommit(l, 1)
	switch zz.Choice("block2", 3) {
	case 0:
		l.SetState(a, k, []byte{}, nil)
	case 1:
		l.SetState(a, k, nil, nil)
	case 2:
		l.SetState(a, []byte("other"), []byte{1}, nil)
	}
	zzCommit(l, 2)
	ok2, v2 := l.GetState(a, k)
	l.SetState(a, k, []byte{zz.U8("v3")}, nil)
	zzCommit(l, 3)
	err := l.RollbackState(2)
	zz.Assert("C12.empty.rollback-ok", err == nil)
	okr, vr := l.GetState(a, k)
	zz.Assert("C12.empty.read-as-at-block-2", okr == ok2 && zz.EqBytes(vr, v2))
	cache2, _ := NewAccountCache()
	okc, vc := zzNewLedger(store, cache2).GetState(a, k)
	zz.Assert("C12.empty.reopened-read-as-at-block-2", okc == ok2 && zz.EqBytes(vc, v2))
}
