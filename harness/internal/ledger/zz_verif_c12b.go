//go:build verif

package ledger

import (
	zz "github.com/meshplus/bitxhub/internal/zzverif"
)

// Storage keys as contracts really use them: text keys (built-in contracts), 32-byte EVM slot
// hashes and short binary keys. The block journal stores the previous values of a block keyed by
// the raw key bytes inside a JSON document.
var zzBinKeys = [][]byte{
	[]byte("a"),
	{0xff, 0xfe, 0x80, 0x01},
	{0xfe},
	{0x00, 0x00, 0x00, 0x00, 0x00, 0x00, 0x00, 0x00, 0x00, 0x00, 0x00, 0x00, 0x00, 0x00, 0x00, 0x00,
		0x00, 0x00, 0x00, 0x00, 0x00, 0x00, 0x00, 0x00, 0x00, 0x00, 0x00, 0x00, 0x00, 0x00, 0x00, 0x01},
	{0xc2, 0x57, 0x5a, 0x0e, 0x9e, 0x59, 0x3c, 0x00, 0xf9, 0x59, 0xf8, 0xc9, 0x2f, 0x12, 0xdb, 0x28,
		0x69, 0xc3, 0x39, 0x5a, 0x3b, 0x05, 0x02, 0xd0, 0x5e, 0x25, 0x16, 0x44, 0x6f, 0x71, 0xf8, 0x5b},
	[]byte("caf\xc3\xa9"), // valid multi-byte UTF-8
}

// ZZH_C12_binary_keys: two keys of one account (every pair of the key shapes above) are written
// in block 1, changed or deleted in block 2 (and again in block 3); rolling back to block 1 restores
// both values exactly, on the running ledger and on a reopened one, and a key the later blocks
// created is gone.
// zz:also C11
// zz:also C13
func ZZH_C12_binary_keys() {
	zz.HashForkOff()
	store := zz.NewStore()
	cache, _ := NewAccountCache()
	l := zzNewLedger(store, cache)
	k1 := zzBinKeys[zz.Choice("key1", len(zzBinKeys))]
	k2 := zzBinKeys[zz.Choice("key2", len(zzBinKeys))]
	if string(k1) == string(k2) {
		return
	}
	a := zzAddrs[0]
	v1, w1 := []byte{zz.U8("v1")}, []byte{zz.U8("w1")}
	l.SetState(a, k1, v1, nil)
	onlyLater := zz.Choice("k2-created-later", 2) == 1
	if !onlyLater {
		l.SetState(a, k2, w1, nil)
	}
	// a second account holds the same first key with its own value; a later block may touch only
	// this account (the journals of consecutive blocks then start with different accounts)
	b := zzAddrs[1]
	u1 := []byte{zz.U8("u1")}
	l.SetState(b, k1, u1, nil)
	root1 := zzCommit(l, 1)
	heights := 2 + zz.Choice("extra-block", 2)
	for h := 2; h <= heights; h++ {
		switch zz.Choice("change", 4) {
		case 3:
			l.SetState(b, k2, []byte{zz.U8("x2")}, nil)
		case 0:
			l.SetState(a, k1, []byte{zz.U8("v2")}, nil)
			l.SetState(a, k2, []byte{zz.U8("w2")}, nil)
		case 1:
			l.SetState(a, k1, nil, nil)
			l.SetState(a, k2, []byte{zz.U8("w2")}, nil)
		case 2:
			l.SetState(a, k2, []byte{zz.U8("w2")}, nil)
		}
		zzCommit(l, uint64(h))
	}
	err := l.RollbackState(1)
	zz.Assert("C12.bin.rollback-ok", err == nil)
	check := func(tag string, x *SimpleLedger) {
		ok1, g1 := x.GetState(a, k1)
		zz.Assert("C12.bin."+tag+".first-key-restored", zz.And(ok1, zz.EqBytes(g1, v1)))
		ok2, g2 := x.GetState(a, k2)
		if onlyLater {
			zz.Assert("C12.bin."+tag+".later-key-gone", !ok2)
		} else {
			zz.Assert("C12.bin."+tag+".second-key-restored", zz.And(ok2, zz.EqBytes(g2, w1)))
		}
		n := 0
		_, vals := x.QueryByPrefix(a, "")
		n = len(vals)
		want := 2
		if onlyLater {
			want = 1
		}
		zz.Assert("C12.bin."+tag+".no-junk-key-written", n == want)
	}
	checkB := func(tag string, x *SimpleLedger) {
		okb, gb := x.GetState(b, k1)
		zz.Assert("C12.bin."+tag+".other-account-keeps-its-own-value", zz.And(okb, zz.EqBytes(gb, u1)))
		okc, _ := x.GetState(b, k2)
		zz.Assert("C12.bin."+tag+".other-account-later-key-gone", !okc)
	}
	check("live", l)
	checkB("live", l)
	zz.Assert("C12.bin.root-chain", zz.EqBytes(l.prevJnlHash.Bytes(), root1.Bytes()))
	cache2, _ := NewAccountCache()
	l2 := zzNewLedger(store, cache2)
	check("reopen", l2)
	checkB("reopen", l2)
}
