//go:build verif

package ledger

import (
	"math/big"

	"github.com/meshplus/bitxhub-kit/types"
	zz "github.com/meshplus/bitxhub/internal/zzverif"
)

// zzModel is the reference state: per (account index) key -> value, balance, nonce.
type zzModel struct {
	kv    map[string][]byte
	bal   uint64
	nonce uint64
	code  []byte
}

func (m zzModel) clone() zzModel {
	c := zzModel{kv: map[string][]byte{}, bal: m.bal, nonce: m.nonce, code: m.code}
	for k, v := range m.kv {
		c.kv[k] = v
	}
	return c
}

// zzApplyOp performs one symbolic state operation on account 0 (keys) / account 1 (balance, nonce).
func zzApplyOp(l *SimpleLedger, m *zzModel, nOps int) {
	switch zz.Choice("op", nOps) {
	case 0:
		v := []byte{zz.U8("v")}
		l.SetState(zzAddrs[0], []byte("a"), v, nil)
		m.kv["a"] = v
	case 1:
		v := []byte{zz.U8("v")}
		l.SetState(zzAddrs[0], []byte("ab"), v, nil)
		m.kv["ab"] = v
	case 2:
		l.SetState(zzAddrs[0], []byte("a"), nil, nil)
		delete(m.kv, "a")
	case 3:
		v := zz.U64("bal")
		l.SetBalance(zzAddrs[1], new(big.Int).SetUint64(v))
		m.bal = v
	case 4:
		v := zz.U64("nonce")
		l.SetNonce(zzAddrs[1], v)
		m.nonce = v
	case 5:
		v := []byte{zz.U8("v")}
		l.AddState(zzAddrs[0], []byte("a"), v)
		m.kv["a"] = v
	case 6:
		c := []byte{zz.U8("code")}
		l.SetCode(zzAddrs[1], c)
		m.code = c
	case 7:
		// storage of the account that also gets balance / nonce / code (created in the same block
		// when this is its first write)
		v := []byte{zz.U8("v")}
		l.SetState(zzAddrs[1], []byte("b"), v, nil)
		m.kv["1b"] = v
	case 8:
		// the storage-holding address gets its account record (first balance) and one of its
		// keys is overwritten in the same block
		b := zz.U64("bal")
		v := []byte{zz.U8("v")}
		l.SetBalance(zzAddrs[1], new(big.Int).SetUint64(b))
		l.SetState(zzAddrs[1], []byte("b"), v, nil)
		m.bal = b
		m.kv["1b"] = v
	case 9:
		// touch without change
		_, _ = l.GetState(zzAddrs[0], []byte("ab"))
		_ = l.GetBalance(zzAddrs[1])
	}
}

func zzMatches(l *SimpleLedger, m zzModel) bool {
	res := true
	for _, k := range []string{"a", "ab"} {
		ok, got := l.GetState(zzAddrs[0], []byte(k))
		want, has := m.kv[k]
		if has {
			res = zz.And(res, zz.And(ok, zz.EqBytes(got, want)))
		} else {
			res = zz.And(res, !ok)
		}
	}
	okb, gotb := l.GetState(zzAddrs[1], []byte("b"))
	if want, has := m.kv["1b"]; has {
		res = zz.And(res, zz.And(okb, zz.EqBytes(gotb, want)))
	} else {
		res = zz.And(res, !okb)
	}
	res = zz.And(res, l.GetBalance(zzAddrs[1]).Cmp(new(big.Int).SetUint64(m.bal)) == 0)
	res = zz.And(res, l.GetNonce(zzAddrs[1]) == m.nonce)
	if c := l.GetCode(zzAddrs[1]); m.code == nil {
		res = zz.And(res, c == nil)
	} else {
		res = zz.And(res, zz.EqBytes(c, m.code))
	}
	return res
}

// ZZH_C12_rollback: history of B blocks with up to 2 symbolic operations each, then
// RollbackState(t) for every t below the head: state equals the state recorded at t (also
// after reopen), the root chain continues from root(t), re-executing block t+1 reproduces its root.
// (also C01: after a rollback the running node reads what a node that never executed the dropped blocks reads)
// zz:also C01
func ZZH_C12_rollback() {
	zz.HashForkOff()
	store := zz.NewStore()
	cache, _ := NewAccountCache()
	l := zzNewLedger(store, cache)
	B := 2
	nOps := 9
	if zz.Thorough() {
		B = 3
		nOps = 10
	}
	m := zzModel{kv: map[string][]byte{}}
	models := []zzModel{m.clone()}
	roots := []*types.Hash{{}}
	for b := 1; b <= B; b++ {
		zzApplyOp(l, &m, nOps)
		if b == 1 {
			// two operations in the first block, one in the others (thorough: three blocks)
			if zz.Choice("second", 2) == 1 {
				zzApplyOp(l, &m, nOps)
			}
		}
		roots = append(roots, zzCommit(l, uint64(b)))
		models = append(models, m.clone())
	}
	t := zz.Choice("target", B)
	snapStore := store.Clone()
	_ = snapStore
	err := l.RollbackState(uint64(t))
	zz.Assert("C12.rollback-ok", err == nil)
	zz.Assert("C12.state-restored", zzMatches(l, models[t]))
	zz.Assert("C12.version", l.Version() == uint64(t))
	zz.Assert("C12.root-chain", zz.EqBytes(l.prevJnlHash.Bytes(), roots[t].Bytes()))
	// a different continuation after the rollback: one more block on the same ledger instance
	cont := models[t].clone()
	zzApplyOp(l, &cont, 5)
	zzCommit(l, uint64(t)+1)
	zz.Assert("C12.continuation-reads", zzMatches(l, cont))
	_ = l.RollbackState(uint64(t))
	// reopened ledger reads the database only
	cache2, _ := NewAccountCache()
	l2 := zzNewLedger(store, cache2)
	zz.Assert("C12.reopen-restored", zzMatches(l2, models[t]))
	zz.Assert("C12.reopen-version", l2.Version() == uint64(t))
	zz.Assert("C12.reopen-root", zz.EqBytes(l2.prevJnlHash.Bytes(), roots[t].Bytes()))
}

// ZZH_C12_refuse: rollback to a higher height, or below the retained window, is refused
// and leaves the store untouched.
func ZZH_C12_refuse() {
	store := zz.NewStore()
	cache, _ := NewAccountCache()
	l := zzNewLedger(store, cache)
	n := 12
	for b := 1; b <= n; b++ {
		l.SetState(zzAddrs[0], []byte("a"), []byte{byte(b)}, nil)
		zzCommit(l, uint64(b))
	}
	before := store.Clone()
	t := zz.U64("target")
	err := l.RollbackState(t)
	// journals below height n-10 were pruned
	if t > uint64(n) {
		zz.Assert("C12.refuse-higher", err == ErrorRollbackToHigherNumber && store.Same(before))
	} else if t < uint64(n)-10 {
		zz.Assert("C12.refuse-too-much", err == ErrorRollbackTooMuch && store.Same(before))
	} else {
		zz.Assert("C12.inside-window-ok", err == nil)
		ok, got := l.GetState(zzAddrs[0], []byte("a"))
		zz.Assert("C12.inside-window-state", ok && len(got) == 1 && uint64(got[0]) == t)
	}
}

// ZZH_C12_refuse_ledger: the same on the whole ledger (state store, index store, block file):
// 13 blocks are persisted (journal window = last 10), then Ledger.Rollback(t) with a symbolic t.
// A refused rollback (above the head, below the window) leaves chain meta, both stores and every
// block lookup as they were; an accepted one ends with chain and state at t.
func ZZH_C12_refuse_ledger() {
	chainStore, stateStore := zz.NewStore(), zz.NewStore()
	bf := zz.NewBlockFile()
	lg, err := New(nil, chainStore, stateStore, bf, nil, zz.Logger())
	zz.Assert("C12.ledger.open", err == nil)
	n := uint64(13)
	parent := &types.Hash{}
	for i := uint64(1); i <= n; i++ {
		bd := zzExecBlockWith(lg, i, parent, 0, uint8(i))
		lg.PersistBlockData(bd)
		parent = bd.Block.BlockHash
	}
	chainBefore, stateBefore := chainStore.Clone(), stateStore.Clone()
	t := zz.U64("target")
	zz.Assume(t >= 1)
	err = lg.Rollback(t)
	meta := lg.GetChainMeta()
	if t > n || t < n-10 {
		zz.Assert("C12.ledger.refused", err != nil)
		zz.Assert("C12.ledger.refused-chain-meta-kept", meta.Height == n && meta.BlockHash.String() == parent.String())
		zz.Assert("C12.ledger.refused-stores-kept", chainStore.Same(chainBefore) && stateStore.Same(stateBefore))
		_, e := lg.GetBlock(n, true)
		zz.Assert("C12.ledger.refused-head-readable", e == nil)
		zz.Assert("C12.ledger.refused-state-version", lg.Version() == n)
	} else {
		zz.Assert("C12.ledger.accepted", err == nil)
		zz.Assert("C12.ledger.accepted-heights", meta.Height == t && lg.Version() == t)
		ok, got := lg.GetState(zzAddrs[0], []byte("a"))
		zz.Assert("C12.ledger.accepted-state", ok && len(got) == 1 && uint64(got[0]) == t)
	}
	zz.Cover("C12.ledger.below-window", t < n-10)
	zz.Cover("C12.ledger.above-head", t > n)
	if err != nil || t == n {
		return
	}
	// a different continuation after the accepted rollback, then a second rollback request: the
	// journal window never moves backwards (journals below n-10 were pruned for good)
	tc := uint64(0) // the accepted target as a concrete number (the path condition fixes it)
	for c := uint64(1); c < n; c++ {
		if t == c {
			tc = c
		}
	}
	bd := zzExecBlockWith(lg, tc+1, meta.BlockHash, 0, uint8(100+tc))
	lg.PersistBlockData(bd)
	head := tc + 1
	chain2, state2 := chainStore.Clone(), stateStore.Clone()
	t2 := zz.U64("target2")
	zz.Assume(t2 >= 1)
	err2 := lg.Rollback(t2)
	if t2 > head || t2 < n-10 {
		zz.Assert("C12.ledger.second-refused-without-effect", err2 != nil && lg.GetChainMeta().Height == head && lg.Version() == head &&
			chainStore.Same(chain2) && stateStore.Same(state2))
	} else {
		zz.Assert("C12.ledger.second-accepted", err2 == nil && lg.GetChainMeta().Height == t2 && lg.Version() == t2)
		ok, got := lg.GetState(zzAddrs[0], []byte("a"))
		want := t2
		if t2 == head {
			want = 100 + tc // the continuation block itself
		}
		zz.Assert("C12.ledger.second-accepted-state", ok && len(got) == 1 && uint64(got[0]) == want)
	}
}
