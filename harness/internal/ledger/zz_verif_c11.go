//go:build verif

package ledger

import (
	"fmt"
	"math/big"

	"github.com/meshplus/bitxhub-kit/types"
	"github.com/meshplus/bitxhub-model/pb"
	zz "github.com/meshplus/bitxhub/internal/zzverif"
)

// zzExecBlock executes a block with one symbolic write on ledger lg and returns its block data.
func zzExecBlock(lg *Ledger, h uint64, parent *types.Hash) *BlockData {
	return zzExecBlockWith(lg, h, parent, 0, zz.U8("v"))
}

// zzExecBlockWith: kind 0 writes storage of account 0; kind 1 gives account 1 a balance (creating
// it if this is its first block) and writes its storage; kind 2 additionally sets its code.
func zzExecBlockWith(lg *Ledger, h uint64, parent *types.Hash, kind int, v uint8) *BlockData {
	switch kind {
	case 0:
		lg.SetState(zzAddrs[0], []byte("a"), []byte{v}, nil)
	case 3:
		// storage only, on an account that has its record (balance) from an earlier block
		lg.SetState(zzAddrs[1], []byte("b"), []byte{v}, nil)
	default:
		lg.SetBalance(zzAddrs[1], big.NewInt(int64(100+h)))
		lg.SetState(zzAddrs[1], []byte("b"), []byte{v}, nil)
		if kind == 2 {
			lg.SetCode(zzAddrs[1], []byte{v, 1})
		}
	}
	accounts, root := lg.FlushDirtyData()
	block := &pb.Block{
		BlockHeader:  &pb.BlockHeader{Number: h, ParentHash: parent, StateRoot: root, TxRoot: &types.Hash{}, ReceiptRoot: &types.Hash{}, Timestamp: int64(h)},
		Transactions: &pb.Transactions{},
		BlockHash:    types.NewHashByStr(fmt.Sprintf("0x%064x", 0xb000+h)),
		Signature:    []byte("sig"),
	}
	return &BlockData{Block: block, Accounts: accounts, InterchainMeta: &pb.InterchainMeta{}}
}

// ZZH_C11_crash: the process dies while block h is being persisted; which of the three
// stores received their part is symbolic: state batch (lost/durable), index batch
// (lost/durable), number of block-file tables appended (0..5), journal-pruning batch.
// Then the node restarts (block file repaired, ledger.New) and must open at h-1 or h with
// mutually consistent stores, and be able to execute the next block.
// zz:also C09
func ZZH_C11_crash() {
	zz.HashForkOff()
	chainStore, stateStore := zz.NewStore(), zz.NewStore()
	bf := zz.NewBlockFile()
	lg, err := New(nil, chainStore, stateStore, bf, nil, zz.Logger())
	zz.Assert("C11.open-fresh", err == nil)
	// heights around the first journal pruning (window 10: block 12 prunes journal 1)
	hs := []uint64{1, 2, 12, 13}
	if zz.Thorough() {
		hs = []uint64{1, 2, 3, 10, 11, 12, 13, 14, 22, 23}
	}
	h := hs[zz.Choice("height", len(hs))]
	parent := &types.Hash{}
	kind := zz.Choice("lastBlockKind", 4)
	if kind == 3 && h == 1 {
		kind = 1
	}
	for i := uint64(1); i < h; i++ {
		// (earlier blocks are concrete: the crashed block carries the symbolic content)
		k0 := 0
		if kind == 3 && i == h-1 {
			k0 = 1 // the block before gives account 1 its record and a first storage value
		}
		bd := zzExecBlockWith(lg, i, parent, k0, uint8(i))
		lg.PersistBlockData(bd)
		parent = bd.Block.BlockHash
	}
	v := zz.U8("vLast")
	bd := zzExecBlockWith(lg, h, parent, kind, v)
	// per store, the durable write events (batch commits, direct puts) form a prefix:
	// the state store performs 1 event (2 when old journals are pruned), the index store 1
	ns := zz.Choice("stateStoreEvents", 4) // 0..3 events of the state store survive
	stateDurable := ns >= 1
	// the index store: the first 0..2 of its durable write events survive. On the current code it
	// performs exactly one (the batch with block index, receipts, meta): "none" or "all". Code that
	// splits the index write into several events can also leave a strict prefix behind - a state no
	// known finding below describes
	nc := zz.Choice("indexStoreEvents", 3)
	k := zz.Choice("blockfileTables", 6)
	stateStore.ArmCrash(ns)
	chainStore.ArmCrash(nc)
	zz.BlockFileDurable(bf, k)
	lg.PersistBlockData(bd)
	chainDurable := nc >= chainStore.Events()
	indexTorn := nc > 0 && nc < chainStore.Events()

	// ---- restart ----
	stateStore.Disarm()
	chainStore.Disarm()
	bf2 := zz.ReopenBlockFile(bf)
	if indexTorn {
		// only a prefix of the index store's writes is durable: the node must still come up at h-1
		lgT, errT := New(nil, chainStore, stateStore, bf2, nil, zz.Logger())
		zz.Assert("C11.torn-index.reopen", errT == nil)
		if errT == nil {
			headT := lgT.GetChainMeta().Height
			zz.Assert("C11.torn-index.height", headT == h || headT == h-1)
			if headT == h-1 {
				// (C09) no lookup returns anything that belongs to a height above the head
				_, eh := lgT.GetBlockByHash(bd.Block.BlockHash, false)
				zz.Assert("C09.crash.no-lookup-above-the-head", eh != nil)
			}
			if headT > 0 {
				_, e := lgT.GetBlock(headT, true)
				zz.Assert("C11.torn-index.head-readable", e == nil)
			}
		}
		return
	}
	zz.Tag("C11.D10", chainDurable && !stateDurable)          // index ahead of state: New refuses
	zz.Tag("C11.F-bf-ahead", k == 5 && !chainDurable)          // block file ahead of index
	zz.Tag("C11.F-index-ahead", chainDurable && k < 5)         // index ahead of block file
	lg2, err := New(nil, chainStore, stateStore, bf2, nil, zz.Logger())
	zz.Assert("C11.reopen", err == nil)
	if err != nil {
		return
	}
	head := lg2.GetChainMeta().Height
	zz.Assert("C11.height", head == h || head == h-1)
	// recovery is repeatable: the state store can be opened again right away (the read-only view
	// ledger of the same start-up does, and so does a second restart before any new block)
	view, verr := NewSimpleLedger(nil, stateStore, nil, zz.Logger())
	zz.Assert("C11.state-store-opens-again", verr == nil && view.Version() == head)
	if zz.Choice("secondRestart", 2) == 1 {
		lg3, err3 := New(nil, chainStore, stateStore, zz.ReopenBlockFile(bf2), nil, zz.Logger())
		zz.Assert("C11.second-restart", err3 == nil && lg3.GetChainMeta().Height == head && lg3.Version() == head)
		if err3 != nil {
			return
		}
		lg2 = lg3
	}
	zz.Cover("C11.recovered-new", head == h)
	zz.Cover("C11.recovered-old", head == h-1)
	zz.Assert("C11.state-version", lg2.Version() == head)
	if head > 0 {
		blk, e := lg2.GetBlock(head, true)
		zz.Assert("C11.head-readable", e == nil)
		if e == nil {
			sl := lg2.StateLedger.(*SimpleLedger)
			zz.Assert("C11.root-consistent", zz.EqBytes(blk.BlockHeader.StateRoot.Bytes(), sl.prevJnlHash.Bytes()))
		}
		for i := uint64(1); i < head; i++ {
			_, e := lg2.GetBlock(i, true)
			zz.Assert("C11.no-block-lost", e == nil)
		}
	}
	if head == h-1 {
		// (C09) no lookup returns anything that belongs to a height above the head
		_, eh := lg2.GetBlockByHash(bd.Block.BlockHash, false)
		zz.Assert("C09.crash.no-lookup-above-the-head", eh != nil)
		// nothing of the lost block is left in the state: its storage / code / balance are gone
		// and executing it again gives the state root the uncrashed execution computed
		if kind == 3 {
			// the lost block only wrote storage of account 1: its record and its earlier value are intact
			okb, vb := lg2.GetState(zzAddrs[1], []byte("b"))
			zz.Assert("C11.old.earlier-storage-value-back", okb && len(vb) == 1 && vb[0] == uint8(h-1))
			zz.Assert("C11.old.account-record-kept", lg2.GetBalance(zzAddrs[1]).Cmp(big.NewInt(int64(100+h-1))) == 0)
		} else if kind != 0 {
			okb, _ := lg2.GetState(zzAddrs[1], []byte("b"))
			zz.Assert("C11.old.no-leftover-storage", !okb)
			zz.Assert("C11.old.no-leftover-code", lg2.GetCode(zzAddrs[1]) == nil)
			zz.Assert("C11.old.no-leftover-balance", lg2.GetBalance(zzAddrs[1]).Sign() == 0)
		}
		again := zzExecBlockWith(lg2, h, lg2.GetChainMeta().BlockHash, kind, v)
		zz.Assert("C11.old.reexecution-same-root", again.Block.BlockHeader.StateRoot.String() == bd.Block.BlockHeader.StateRoot.String())
		crashed, _ := zz.Crashed(func() { lg2.PersistBlockData(again) })
		zz.Assert("C11.crash-continue", !crashed)
		zz.Assert("C11.continue-height", lg2.GetChainMeta().Height == h)
		return
	}
	// the node can execute and persist the next block
	next := zzExecBlock(lg2, head+1, lg2.GetChainMeta().BlockHash)
	crashed, _ := zz.Crashed(func() { lg2.PersistBlockData(next) })
	zz.Assert("C11.crash-continue", !crashed)
	zz.Assert("C11.continue-height", lg2.GetChainMeta().Height == head+1)
}
