//go:build verif

package ledger

import (
	"math/big"

	"github.com/meshplus/bitxhub-kit/types"
	ethledger "github.com/meshplus/eth-kit/ledger"

	zz "github.com/meshplus/bitxhub/internal/zzverif"
)

type pendingCommit struct {
	h        uint64
	accounts map[string]ethledger.IAccount
	root     *types.Hash
}

// zzSame compares a read result with the model: existence and bytes.
func zzSameRead(ok bool, got []byte, want []byte) bool {
	if want == nil {
		return !ok
	}
	return zz.And(ok, zz.EqBytes(got, want))
}

// ZZH_C13_single_key: one storage key of one account through a bounded history of
// writes, commits, cache purges and reopen; every read returns the latest write.
// Values: nil (delete) / empty / one symbolic byte. History length k (quick 3, thorough 4).
func ZZH_C13_single_key() {
	store := zz.NewStore()
	cache, _ := NewAccountCache()
	l := zzNewLedger(store, cache)
	addr := zzAddrs[0]
	key := []byte("a")
	var model []byte // latest write (nil = absent)
	var snapModel [][]byte
	var snapIDs []int
	height := uint64(0)
	// a flushed block whose Commit is still outstanding (the executor may persist asynchronously)
	var pending *pendingCommit
	commitPending := func() {
		if pending != nil {
			if err := l.Commit(pending.h, pending.accounts, pending.root); err != nil {
				panic(err)
			}
			pending = nil
		}
	}
	// optional committed pre-state, so that short histories start from database + cache content
	if zz.Choice("prestate", 2) == 1 {
		v := []byte{zz.U8("v0")}
		l.SetState(addr, key, v, nil)
		height++
		zzCommit(l, height)
		model = v
		if zz.Choice("coldCache", 2) == 1 {
			cache, _ = NewAccountCache()
			l = zzNewLedger(store, cache)
		}
	}
	k := 3
	if zz.Thorough() {
		k = 4
	}
	for step := 0; step < k; step++ {
		op := zz.Choice("op", 8)
		switch op {
		case 7: // a write that is reverted at once (a failing transaction): snapshot, SetState, revert
			id := l.Snapshot()
			l.SetState(addr, key, zzValue("tv"), nil)
			l.RevertToSnapshot(id)
		case 0: // SetState
			v := zzValue("v")
			l.SetState(addr, key, v, nil)
			model = v
			if v != nil && len(v) == 0 {
				zz.Tag("C13.D11", true) // empty (non-nil) value
			}
		case 1: // AddState (unjournaled write)
			v := zzValue("v")
			l.AddState(addr, key, v)
			model = v
			if v != nil && len(v) == 0 {
				zz.Tag("C13.D11", true)
			}
			snapModel, snapIDs = nil, nil // AddState is not journaled: reverting across it is outside the statement
		case 2: // commit block
			commitPending()
			height++
			zzCommit(l, height)
			snapModel, snapIDs = nil, nil
		case 3: // reopen: new ledger and cache over the same store (at a block boundary)
			commitPending()
			height++
			zzCommit(l, height)
			cache, _ = NewAccountCache()
			l = zzNewLedger(store, cache)
			snapModel, snapIDs = nil, nil
		case 4: // snapshot
			snapIDs = append(snapIDs, l.Snapshot())
			snapModel = append(snapModel, model)
		case 5: // revert to the latest snapshot
			if len(snapIDs) == 0 {
				continue
			}
			n := len(snapIDs) - 1
			l.RevertToSnapshot(snapIDs[n])
			model = snapModel[n]
			snapIDs, snapModel = snapIDs[:n], snapModel[:n]
		case 6: // end of block: flush now, commit later (next block starts on cache + stale database)
			commitPending()
			height++
			acc, root := l.FlushDirtyData()
			pending = &pendingCommit{h: height, accounts: acc, root: root}
			snapModel, snapIDs = nil, nil
		}
		// (at a block boundary the read-back is optional: the first touch of the account in the new
		// block may then be the next operation itself, e.g. inside a snapshot that is reverted)
		if (op == 2 || op == 3 || op == 6) && step+1 < k && zz.Choice("readBackAtBoundary", 2) == 0 {
			continue
		}
		ok, got := l.GetState(addr, key)
		zz.Assert("C13.read-latest", zzSameRead(ok, got, model))
	}
	commitPending()
	ok, got := l.GetState(addr, key)
	zz.Assert("C13.read-latest-after-commit", zzSameRead(ok, got, model))
	zz.Cover("C13.deep", height >= 1)
}

// ZZH_C13_account_fields: balance (set, credit, debit), nonce and code through writes, nested
// snapshots, reverts, commits and reopen.
// zz:also C10
func ZZH_C13_account_fields() {
	store := zz.NewStore()
	cache, _ := NewAccountCache()
	l := zzNewLedger(store, cache)
	addr := zzAddrs[0]
	type st struct {
		bal   uint64
		nonce uint64
		code  []byte
	}
	var m st
	var snaps []st
	var ids []int
	height := uint64(0)
	if zz.Choice("existingAccount", 2) == 1 {
		// the account already exists: committed in an earlier block with a symbolic balance
		m.bal = zz.U64i("bal0")
		zz.Assume(m.bal < 1<<62)
		m.nonce = 1
		l.SetBalance(addr, new(big.Int).SetUint64(m.bal))
		l.SetNonce(addr, 1)
		if zz.Choice("existingCode", 2) == 1 {
			m.code = []byte{zz.U8("code0")}
			l.SetCode(addr, m.code)
		}
		height++
		zzCommit(l, height)
	}
	// a flushed block whose Commit is still outstanding (the executor persists asynchronously)
	var pending *pendingCommit
	commitPending := func() {
		if pending != nil {
			if err := l.Commit(pending.h, pending.accounts, pending.root); err != nil {
				panic(err)
			}
			pending = nil
		}
	}
	k := 3
	if zz.Thorough() {
		k = 4
	}
	for step := 0; step < k; step++ {
		switch zz.Choice("op", 11) {
		case 10: // end of block: flush now, commit later (the next block reads cache + stale database)
			commitPending()
			height++
			acc, root := l.FlushDirtyData()
			pending = &pendingCommit{h: height, accounts: acc, root: root}
			snaps, ids = nil, nil
		case 9: // a write that is reverted at once (failing transaction): snapshot, write, revert
			id := l.Snapshot()
			switch zz.Choice("transient", 3) {
			case 0:
				l.SetBalance(addr, new(big.Int).SetUint64(zz.U64i("tbal")))
			case 1:
				l.SetNonce(addr, zz.U64("tnonce"))
			default:
				l.SetCode(addr, []byte{zz.U8("tcode")})
			}
			l.RevertToSnapshot(id)
		case 7: // credit through the account object (EVM value transfer path)
			v := zz.U64i("credit")
			zz.Assume(v < 1<<62 && m.bal < 1<<62)
			l.AddBalance(addr, new(big.Int).SetUint64(v))
			m.bal += v
		case 8: // debit through the account object
			v := zz.U64i("debit")
			zz.Assume(v <= m.bal)
			l.SubBalance(addr, new(big.Int).SetUint64(v))
			m.bal -= v
		case 0:
			v := zz.U64i("bal")
			l.SetBalance(addr, new(big.Int).SetUint64(v))
			m.bal = v
		case 1:
			v := zz.U64("nonce")
			l.SetNonce(addr, v)
			m.nonce = v
		case 2:
			c := []byte{zz.U8("code")}
			l.SetCode(addr, c)
			m.code = c
		case 3:
			commitPending()
			height++
			zzCommit(l, height)
			snaps, ids = nil, nil
		case 4:
			commitPending()
			height++
			zzCommit(l, height)
			cache, _ = NewAccountCache()
			l = zzNewLedger(store, cache)
			snaps, ids = nil, nil
		case 5:
			ids = append(ids, l.Snapshot())
			snaps = append(snaps, m)
		case 6:
			if len(ids) == 0 {
				continue
			}
			// revert to an arbitrary earlier snapshot (nested snapshots revert independently)
			n := zz.Choice("which", len(ids))
			l.RevertToSnapshot(ids[n])
			m = snaps[n]
			ids, snaps = ids[:n], snaps[:n]
		}
		zz.Assert("C13.balance", l.GetBalance(addr).Cmp(new(big.Int).SetUint64(m.bal)) == 0)
		zz.Assert("C13.nonce", l.GetNonce(addr) == m.nonce)
		got := l.GetCode(addr)
		if m.code == nil {
			zz.Assert("C13.code-nil", got == nil)
		} else {
			zz.Assert("C13.code", zz.EqBytes(got, m.code))
		}
	}
}

// ZZH_C13_prefix: a prefix query returns exactly the values of the live keys with
// that prefix (keys a, ab, b; values distinct single bytes), across dirty set, commit and reopen.
func ZZH_C13_prefix() {
	store := zz.NewStore()
	cache, _ := NewAccountCache()
	l := zzNewLedger(store, cache)
	addr := zzAddrs[0]
	model := map[string][]byte{}
	height := uint64(0)
	k := 3
	if zz.Thorough() {
		k = 4
	}
	// a flushed block whose Commit is still outstanding (the executor persists asynchronously: the
	// next block may already run while the previous one is being written)
	var pending *pendingCommit
	commitPending := func() {
		if pending != nil {
			if err := l.Commit(pending.h, pending.accounts, pending.root); err != nil {
				panic(err)
			}
			pending = nil
		}
	}
	for step := 0; step < k; step++ {
		switch zz.Choice("op", 5) {
		case 4: // end of block: flush now, commit later
			commitPending()
			height++
			acc, root := l.FlushDirtyData()
			pending = &pendingCommit{h: height, accounts: acc, root: root}
		case 0:
			key := zzKeys[zz.Choice("key", 3)]
			v := []byte{zz.U8("v")}
			l.SetState(addr, []byte(key), v, nil)
			model[key] = v
		case 1:
			key := zzKeys[zz.Choice("key", 3)]
			l.SetState(addr, []byte(key), nil, nil)
			delete(model, key)
		case 2:
			commitPending()
			height++
			zzCommit(l, height)
		case 3:
			commitPending()
			height++
			zzCommit(l, height)
			cache, _ = NewAccountCache()
			l = zzNewLedger(store, cache)
		}
	}
	ok, vals := l.QueryByPrefix(addr, "a")
	want := 0
	for _, key := range []string{"a", "ab"} {
		if v, has := model[key]; has {
			want++
			found := false
			for _, g := range vals {
				found = zz.Or(found, zz.EqBytes(g, v))
			}
			zz.Assert("C13.prefix.contains", found)
		}
	}
	zz.Assert("C13.prefix.count", len(vals) == want)
	zz.Assert("C13.prefix.flag", ok == (want != 0))
	// prefixes that end in the byte 0xff (binary keys): a key written now, read through the dirty set,
	// after the commit (cache) and on a reopened ledger (database range scan)
	bin := []byte{zz.U8("binValue")}
	l.SetState(addr, []byte("c\xffz"), bin, nil)
	l.SetState(addr, []byte("d"), []byte{1}, nil)
	check := func(tag string, x *SimpleLedger) {
		okb, vb := x.QueryByPrefix(addr, "c\xff")
		zz.Assert("C13.prefix.ff."+tag, okb && len(vb) == 1 && zz.EqBytes(vb[0], bin))
	}
	check("dirty", l)
	commitPending()
	height++
	zzCommit(l, height)
	check("committed", l)
	cache3, _ := NewAccountCache()
	check("reopened", zzNewLedger(store, cache3))
}
