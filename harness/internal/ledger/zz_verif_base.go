//go:build verif

package ledger

import (
	"github.com/meshplus/bitxhub-kit/types"
	zz "github.com/meshplus/bitxhub/internal/zzverif"
)

var (
	zzAddrs = []*types.Address{
		types.NewAddressByStr("0x1000000000000000000000000000000000000001"),
		types.NewAddressByStr("0x2000000000000000000000000000000000000002"),
	}
	zzKeys = []string{"a", "ab", "b"}
)

func zzNewLedger(store *zz.MemStore, cache *AccountCache) *SimpleLedger {
	l, err := NewSimpleLedger(nil, store, cache, zz.Logger())
	if err != nil {
		panic(err)
	}
	return l.(*SimpleLedger)
}

// zzValue: nil, empty or one symbolic byte.
func zzValue(name string) []byte {
	switch zz.Choice(name+".kind", 3) {
	case 0:
		return nil
	case 1:
		return []byte{}
	}
	return []byte{zz.U8(name)}
}

// zzValue2: one or two symbolic bytes (never nil/empty).
func zzValue12(name string) []byte {
	if zz.Choice(name+".len", 2) == 0 {
		return []byte{zz.U8(name)}
	}
	return []byte{zz.U8(name), zz.U8(name)}
}

// zzCommit flushes and commits block h.
func zzCommit(l *SimpleLedger, h uint64) *types.Hash {
	accounts, root := l.FlushDirtyData()
	if err := l.Commit(h, accounts, root); err != nil {
		panic(err)
	}
	return root
}


