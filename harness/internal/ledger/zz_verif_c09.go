//go:build verif

package ledger

import (
	"github.com/meshplus/bitxhub-kit/types"
	"github.com/meshplus/bitxhub-model/pb"
	zz "github.com/meshplus/bitxhub/internal/zzverif"
)

var zzTxHashes = []string{
	"0x1111111111111111111111111111111111111111111111111111111111111111",
	"0x2222222222222222222222222222222222222222222222222222222222222222",
	"0x3333333333333333333333333333333333333333333333333333333333333333",
	"0x4444444444444444444444444444444444444444444444444444444444444444",
}

var zzBlockHashes = []string{
	"0xa000000000000000000000000000000000000000000000000000000000000001",
	"0xa000000000000000000000000000000000000000000000000000000000000002",
	"0xa000000000000000000000000000000000000000000000000000000000000003",
}

type zzBlk struct {
	block    *pb.Block
	receipts []*pb.Receipt
	meta     *pb.InterchainMeta
	nonces   []uint64
	gas      []uint64
	hashes   []*types.Hash
	ic       uint64 // interchain tx count of this block
}

// zzMakeBlock builds block h with n transactions (hashes taken from a global pool starting at
// *next) whose nonce / receipt gas are symbolic.
func zzMakeBlock(h uint64, n int, next *int, parent *types.Hash) *zzBlk {
	b := &zzBlk{}
	var txs []pb.Transaction
	for i := 0; i < n; i++ {
		hash := types.NewHashByStr(zzTxHashes[*next])
		*next++
		nonce := zz.U64("nonce")
		gas := zz.U64("gas")
		txs = append(txs, &pb.BxhTransaction{TransactionHash: hash, Nonce: nonce, From: zzAddrs[0], To: zzAddrs[1]})
		b.receipts = append(b.receipts, &pb.Receipt{TxHash: hash, GasUsed: gas, Status: pb.Receipt_SUCCESS})
		b.nonces = append(b.nonces, nonce)
		b.gas = append(b.gas, gas)
		b.hashes = append(b.hashes, hash)
	}
	b.block = &pb.Block{
		BlockHeader:  &pb.BlockHeader{Number: h, ParentHash: parent, StateRoot: &types.Hash{}, TxRoot: &types.Hash{}, ReceiptRoot: &types.Hash{}, Timestamp: 1},
		Transactions: &pb.Transactions{Transactions: txs},
		BlockHash:    types.NewHashByStr(zzBlockHashes[h-1]),
		Signature:    []byte("sig"),
	}
	b.meta = &pb.InterchainMeta{Counter: map[string]*pb.VerifiedIndexSlice{}, L2Roots: nil}
	if n > 0 && zz.Choice("interchain", 2) == 1 {
		b.meta.Counter["chB"] = &pb.VerifiedIndexSlice{Slice: []*pb.VerifiedIndex{{Index: 0, Valid: true}}}
		b.ic = 1
	}
	return b
}

// ZZH_C09_persist_lookup: a chain of 1..2 blocks with 0..2 transactions each is persisted;
// every lookup (by height, block hash, tx hash; meta) agrees with what was persisted; after
// a rollback to t nothing above t is returned by any lookup and everything up to t is intact.
func ZZH_C09_persist_lookup() {
	store := zz.NewStore()
	bf := zz.NewBlockFile()
	cl, err := NewChainLedgerImpl(store, bf, nil, zz.Logger())
	zz.Assert("C09.open", err == nil)
	nb := 1 + zz.Choice("blocks", 2)
	next := 0
	var blks []*zzBlk
	parent := &types.Hash{}
	total := uint64(0)
	for h := 1; h <= nb; h++ {
		b := zzMakeBlock(uint64(h), zz.Choice("ntx", 3), &next, parent)
		zz.Assert("C09.persist", cl.PersistExecutionResult(b.block, b.receipts, b.meta) == nil)
		blks = append(blks, b)
		parent = b.block.BlockHash
		total += b.ic
	}
	check := func(c *ChainLedgerImpl, upto int, sum uint64) {
		m := c.GetChainMeta()
		zz.Assert("C09.meta.height", m.Height == uint64(upto))
		zz.Assert("C09.meta.count", m.InterchainTxCount == sum)
		if upto > 0 {
			zz.Assert("C09.meta.hash", m.BlockHash.String() == blks[upto-1].block.BlockHash.String())
		}
		for h := 1; h <= nb; h++ {
			b := blks[h-1]
			got, err := c.GetBlock(uint64(h), true)
			byHash, err2 := c.GetBlockByHash(b.block.BlockHash, false)
			hh := c.GetBlockHash(uint64(h))
			if h <= upto {
				zz.Assert("C09.block", err == nil && got.BlockHeader.Number == uint64(h) && got.BlockHash.String() == b.block.BlockHash.String())
				zz.Assert("C09.block.parent", got.BlockHeader.ParentHash.String() == b.block.BlockHeader.ParentHash.String())
				zz.Assert("C09.block.ntx", len(got.Transactions.Transactions) == len(b.hashes))
				zz.Assert("C09.byhash", err2 == nil && byHash.BlockHeader.Number == uint64(h))
				zz.Assert("C09.hash-of-height", hh.String() == b.block.BlockHash.String())
				n, err3 := c.GetTransactionCount(uint64(h))
				zz.Assert("C09.txcount", err3 == nil && n == uint64(len(b.hashes)))
				for i, th := range b.hashes {
					tx, e1 := c.GetTransaction(th)
					zz.Assert("C09.tx", e1 == nil && tx.GetNonce() == b.nonces[i] && tx.GetHash().String() == th.String())
					tm, e2 := c.GetTransactionMeta(th)
					zz.Assert("C09.txmeta", e2 == nil && tm.BlockHeight == uint64(h) && tm.Index == uint64(i))
					r, e3 := c.GetReceipt(th)
					zz.Assert("C09.receipt", e3 == nil && r.GasUsed == b.gas[i] && r.TxHash.String() == th.String())
				}
				im, e4 := c.GetInterchainMeta(uint64(h))
				zz.Assert("C09.interchain-meta", e4 == nil && uint64(len(im.Counter)) == b.ic)
			} else {
				zz.Assert("C09.gone.block", err != nil)
				zz.Assert("C09.gone.byhash", err2 != nil)
				zz.Assert("C09.gone.hash-of-height", hh.String() == (&types.Hash{}).String())
				for _, th := range b.hashes {
					_, e1 := c.GetTransaction(th)
					_, e2 := c.GetTransactionMeta(th)
					_, e3 := c.GetReceipt(th)
					zz.Assert("C09.gone.tx", e1 != nil && e2 != nil && e3 != nil)
				}
				_, e4 := c.GetInterchainMeta(uint64(h))
				zz.Assert("C09.gone.interchain-meta", e4 != nil)
			}
		}
	}
	check(cl, nb, total)
	// reopen over the same stores: chain meta is loaded from the index store
	cl2, err := NewChainLedgerImpl(store, bf, nil, zz.Logger())
	zz.Assert("C09.reopen", err == nil)
	check(cl2, nb, total)
	// rollback
	t := zz.Choice("target", nb+1)
	zz.Assert("C09.rollback", cl2.RollbackBlockChain(uint64(t)) == nil)
	sum := uint64(0)
	for h := 1; h <= t; h++ {
		sum += blks[h-1].ic
	}
	check(cl2, t, sum)
	zz.Cover("C09.rolled-back", t < nb)
}
