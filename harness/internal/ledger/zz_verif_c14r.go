//go:build verif

package ledger

import (
	"math/big"

	zz "github.com/meshplus/bitxhub/internal/zzverif"
)

// zzHookStore: the model store with one hook: the next Get, once armed, runs a callback after the
// value was read and before it is returned (another goroutine's work falling into that window).
type zzHookStore struct {
	*zz.MemStore
	armed bool
	onGet func()
}

func (s *zzHookStore) Get(key []byte) []byte {
	v := s.MemStore.Get(key)
	if s.armed && s.onGet != nil {
		s.armed = false
		s.onGet()
	}
	return v
}

// ZZH_C14_reader_during_block: two ledgers over one store and one account cache (the ledger's
// constructor takes the cache: an executing ledger and a query ledger may share it). After a restart
// (cold cache) the query ledger looks an account up; the executing ledger's next block - a transfer
// of a symbolic amount out of that account, flushed and committed - falls either after that lookup
// or exactly between the lookup's disk read and its return. The block after it reads the balances the
// transfer left: nothing a reader does brings the debited amount back.
// zz:also C13
func ZZH_C14_reader_during_block() {
	hs := &zzHookStore{MemStore: zz.NewStore()}
	alice, bob := zzAddrs[0], zzAddrs[1]
	c0, _ := NewAccountCache()
	boot, err := NewSimpleLedger(nil, hs, c0, zz.Logger())
	if err != nil {
		panic(err)
	}
	boot.SetBalance(alice, big.NewInt(100))
	zzCommit(boot.(*SimpleLedger), 1)
	// restart: both ledgers over the same store and a fresh, shared cache
	cache, _ := NewAccountCache()
	le, _ := NewSimpleLedger(nil, hs, cache, zz.Logger())
	lr, _ := NewSimpleLedger(nil, hs, cache, zz.Logger())
	exec, reader := le.(*SimpleLedger), lr.(*SimpleLedger)
	amt := zz.U64("amount")
	zz.Assume(amt >= 1)
	zz.Assume(amt <= 100)
	block2 := func() {
		exec.SetBalance(alice, new(big.Int).SetUint64(100-amt))
		exec.SetBalance(bob, new(big.Int).SetUint64(amt))
		zzCommit(exec, 2)
	}
	hs.onGet = block2
	interleaved := zz.Choice("blockFallsIntoTheLookup", 2) == 1
	hs.armed = interleaved
	_ = reader.GetBalance(alice)
	if !interleaved {
		block2()
	}
	a, b := exec.GetBalance(alice), exec.GetBalance(bob)
	zz.Assert("C14.reader.debit-stays", a.Cmp(new(big.Int).SetUint64(100-amt)) == 0)
	zz.Assert("C14.reader.credit-stays", b.Cmp(new(big.Int).SetUint64(amt)) == 0)
	zz.Assert("C14.reader.sum-unchanged", new(big.Int).Add(a, b).Cmp(big.NewInt(100)) == 0)
}
