//go:build verif

package ledger

import (
	"math/big"

	zz "github.com/meshplus/bitxhub/internal/zzverif"
)

// zzWrite is one state change of a block.
type zzWrite struct {
	kind  int // 0 SetState, 1 balance, 2 nonce, 3 code
	acct  int
	key   string
	val   []byte
	num   uint64
}

func zzApplyWrite(l *SimpleLedger, w zzWrite) {
	a := zzAddrs[w.acct]
	switch w.kind {
	case 0:
		l.SetState(a, []byte(w.key), w.val, nil)
	case 1:
		l.SetBalance(a, new(big.Int).SetUint64(w.num))
	case 2:
		l.SetNonce(a, w.num)
	case 3:
		l.SetCode(a, w.val)
	}
}

// zzTwoWrites: two symbolic writes to different locations.
func zzTwoWrites() []zzWrite {
	w1 := zzWrite{kind: 0, acct: 0, key: "a", val: zzValue12("v1")}
	var w2 zzWrite
	switch zz.Choice("second", 4) {
	case 0:
		w2 = zzWrite{kind: 0, acct: 0, key: "ab", val: zzValue12("v2")}
	case 1:
		w2 = zzWrite{kind: 0, acct: 1, key: "a", val: zzValue12("v2")}
	case 2:
		w2 = zzWrite{kind: 1, acct: 1, num: zz.U64i("bal")}
	case 3:
		w2 = zzWrite{kind: 2, acct: 0, num: zz.U64i("nonce")}
	}
	return []zzWrite{w1, w2}
}

// ZZH_C10_order: the same changes applied in a different order, with independent map
// iteration orders, give the same root (also C01: flush determinism).
// zz:also C01
func ZZH_C10_order() {
	ws := zzTwoWrites()
	run := func(order int) []byte {
		l := zzNewLedger(zz.NewStore(), nil)
		if order == 0 {
			zzApplyWrite(l, ws[0])
			zzApplyWrite(l, ws[1])
		} else {
			zzApplyWrite(l, ws[1])
			zzApplyWrite(l, ws[0])
		}
		_, root := l.FlushDirtyData()
		return root.Bytes()
	}
	zz.PermuteMaps(true)
	r1 := run(0)
	r2 := run(zz.Choice("order", 2))
	zz.PermuteMaps(false)
	zz.Assert("C10.order-independent", zz.EqBytes(r1, r2))
}

// ZZH_C10_sensitive: changing one written value, balance or nonce, or dropping one write,
// changes the root (SHA-256 assumed collision free).
func ZZH_C10_sensitive() {
	ws := zzTwoWrites()
	root := func(list []zzWrite) []byte {
		l := zzNewLedger(zz.NewStore(), nil)
		for _, w := range list {
			zzApplyWrite(l, w)
		}
		_, r := l.FlushDirtyData()
		return r.Bytes()
	}
	base := root(ws)
	switch zz.Choice("perturb", 3) {
	case 0: // change the first written value
		alt := ws[0]
		alt.val = zzValue12("alt")
		zz.Assume(zz.Not(zz.EqBytes(alt.val, ws[0].val)))
		zz.Assert("C10.value-changes-root", zz.Not(zz.EqBytes(base, root([]zzWrite{alt, ws[1]}))))
	case 1: // change the second write's content
		alt := ws[1]
		if alt.kind == 0 {
			alt.val = zzValue12("alt")
			zz.Assume(zz.Not(zz.EqBytes(alt.val, ws[1].val)))
		} else {
			alt.num = zz.U64i("altnum")
			zz.Assume(alt.num != ws[1].num)
		}
		zz.Tag("C10.F-zero-account", ws[1].kind != 0)
		zz.Assert("C10.second-changes-root", zz.Not(zz.EqBytes(base, root([]zzWrite{ws[0], alt}))))
	case 2: // drop the second write
		zz.Tag("C10.F-zero-account", ws[1].kind != 0)
		zz.Assert("C10.dropped-write-changes-root", zz.Not(zz.EqBytes(base, root([]zzWrite{ws[0]}))))
	}
}

// ZZH_C10_only_changes: rewriting a key with its committed value, or only reading, leaves
// the root a function of the real changes; reading a key before AddState must not matter (D20).
func ZZH_C10_only_changes() {
	store := zz.NewStore()
	l := zzNewLedger(store, nil)
	v := []byte{zz.U8("v")}
	l.SetState(zzAddrs[0], []byte("a"), v, nil)
	// a contract account (balance, nonce, code) committed in the same earlier block
	l.SetBalance(zzAddrs[1], big.NewInt(5))
	l.SetCode(zzAddrs[1], []byte{zz.U8("code")})
	zzCommit(l, 1)
	mode := zz.Choice("mode", 4)
	w := []byte{zz.U8("w")}
	run := func(variant int) []byte {
		s := store.Clone()
		x := zzNewLedger(s, nil)
		switch mode {
		case 0: // rewrite same value (variant 1) vs nothing (variant 0)
			if variant == 1 {
				x.SetState(zzAddrs[0], []byte("a"), v, nil)
			}
		case 1: // read before write vs write only (SetState)
			if variant == 1 {
				x.GetState(zzAddrs[0], []byte("a"))
			}
			x.SetState(zzAddrs[0], []byte("a"), w, nil)
		case 3: // the contract account is only read (code, balance, a storage key) on a cold ledger vs not touched
			if variant == 1 {
				_ = x.GetCode(zzAddrs[1])
				_ = x.GetBalance(zzAddrs[1])
				_, _ = x.GetState(zzAddrs[1], []byte("b"))
			}
			x.SetState(zzAddrs[0], []byte("a"), w, nil)
		case 2: // read before AddState vs AddState only
			if variant == 1 {
				x.GetState(zzAddrs[0], []byte("a"))
			}
			x.AddState(zzAddrs[0], []byte("a"), v)
		}
		_, r := x.FlushDirtyData()
		return r.Bytes()
	}
	zz.Assert("C10.root-ignores-read-history", zz.EqBytes(run(0), run(1)))
}

// ZZH_C10_cache_vs_db: the root of block N+1 is the same whether block N has already been
// committed and the ledger reopened (cold cache, database reads) or block N is still only in
// the account cache (flushed, commit outstanding).
func ZZH_C10_cache_vs_db() {
	v0 := []byte{zz.U8("v0")}
	w := []byte{zz.U8("w")}
	opN := zz.Choice("opN", 3) // block N: overwrite / delete / nothing
	v1 := []byte{zz.U8("v1")}
	run := func(deferCommit bool) []byte {
		store := zz.NewStore()
		cache, _ := NewAccountCache()
		l := zzNewLedger(store, cache)
		l.SetState(zzAddrs[0], []byte("a"), v0, nil)
		zzCommit(l, 1)
		switch opN {
		case 0:
			l.SetState(zzAddrs[0], []byte("a"), v1, nil)
		case 1:
			l.SetState(zzAddrs[0], []byte("a"), nil, nil)
		}
		acc, root := l.FlushDirtyData()
		if !deferCommit {
			if err := l.Commit(2, acc, root); err != nil {
				panic(err)
			}
			cache2, _ := NewAccountCache()
			l = zzNewLedger(store, cache2)
		}
		l.SetState(zzAddrs[0], []byte("a"), w, nil)
		_, r := l.FlushDirtyData()
		return r.Bytes()
	}
	zz.Assert("C10.root-same-through-cache-and-db", zz.EqBytes(run(true), run(false)))
}

// ZZH_C10_removal_sensitive: keys a, ab, b of one account are committed; the next block writes a
// new value to a and, in the variants, additionally removes ab, or removes b. The three
// resulting states differ, so the three roots must differ pairwise: dropping or adding one
// written key (here: a removal) changes the root.
func ZZH_C10_removal_sensitive() {
	store := zz.NewStore()
	l := zzNewLedger(store, nil)
	for _, k := range zzKeys {
		l.SetState(zzAddrs[0], []byte(k), []byte{zz.U8("v0")}, nil)
	}
	zzCommit(l, 1)
	x := []byte{zz.U8("x")}
	run := func(remove string) []byte {
		s := store.Clone()
		y := zzNewLedger(s, nil)
		y.SetState(zzAddrs[0], []byte("a"), x, nil)
		if remove != "" {
			y.SetState(zzAddrs[0], []byte(remove), nil, nil)
		}
		_, r := y.FlushDirtyData()
		return r.Bytes()
	}
	none, ab, b := run(""), run("ab"), run("b")
	zz.Assert("C10.removal-changes-root", zz.Not(zz.EqBytes(none, ab)))
	zz.Assert("C10.removal-changes-root", zz.Not(zz.EqBytes(none, b)))
	zz.Assert("C10.which-key-was-removed-changes-root", zz.Not(zz.EqBytes(ab, b)))
}

// ZZH_C10_field_sensitive: an account committed in an earlier block (balance, nonce, code set)
// gets exactly one of its record fields rewritten in the next block, with two different symbolic
// values in two runs (or written vs not written): the roots differ. A single changed nonce,
// balance or code is covered by the root also when nothing else of the account changes.
func ZZH_C10_field_sensitive() {
	store := zz.NewStore()
	l := zzNewLedger(store, nil)
	l.SetBalance(zzAddrs[1], big.NewInt(5))
	l.SetNonce(zzAddrs[1], 1)
	l.SetCode(zzAddrs[1], []byte{7})
	zzCommit(l, 1)
	field := zz.Choice("field", 3)
	x, y := zz.U64i("x"), zz.U64i("y")
	zz.Assume(x != y)
	zz.Assume(x < 200 && y < 200)
	cx, cy := zz.U8("codeX"), zz.U8("codeY")
	zz.Assume(cx != cy)
	run := func(v uint64, write bool) []byte {
		s := store.Clone()
		z := zzNewLedger(s, nil)
		cb := cx
		if v == y {
			cb = cy
		}
		// another account changes in every run, so that the block is never empty
		z.SetState(zzAddrs[0], []byte("a"), []byte{1}, nil)
		if write {
			switch field {
			case 0:
				z.SetNonce(zzAddrs[1], v)
			case 1:
				z.SetBalance(zzAddrs[1], new(big.Int).SetUint64(v))
			default:
				z.SetCode(zzAddrs[1], []byte{cb})
			}
		}
		_, r := z.FlushDirtyData()
		return r.Bytes()
	}
	rx, ry := run(x, true), run(y, true)
	zz.Assert("C10.field-value-changes-root", zz.Not(zz.EqBytes(rx, ry)))
	committed := []uint64{1, 5, 7}[field]
	if (field != 2 && x != committed) || (field == 2 && cx != 7) {
		zz.Assert("C10.field-write-changes-root", zz.Not(zz.EqBytes(rx, run(0, false))))
	}
}

// ZZH_C10_net_changes: two block histories that realise the same net set of changes give the same
// root. Key "a" of an account is committed (or not); the block's net effect on it is a delete, a
// new value, or nothing. The plain history makes just that change; the other history reaches it
// through detours that cancel out: an intermediate value overwritten by the final one, and after
// the final change a write / delete of the same key inside a snapshot that is reverted (a failing
// transaction later in the block). Both roots are equal, and the value read back at the end of the
// block is the net one in both.
// zz:also C07 C13
func ZZH_C10_net_changes() {
	store := zz.NewStore()
	l := zzNewLedger(store, nil)
	committed := zz.Choice("committed", 2) == 1
	if committed {
		l.SetState(zzAddrs[0], []byte("a"), []byte{zz.U8("v0")}, nil)
	}
	l.SetBalance(zzAddrs[0], big.NewInt(3))
	zzCommit(l, 1)
	net := zz.Choice("net", 3) // 0 delete, 1 new value, 2 untouched
	w := []byte{zz.U8("w")}
	detour := zz.Choice("detour", 8)
	zz.Tag("C10.F-touched-record-hashed", detour >= 4)
	run := func(plain bool) ([]byte, bool, []byte) {
		x := zzNewLedger(store.Clone(), nil)
		apply := func() {
			switch net {
			case 0:
				x.SetState(zzAddrs[0], []byte("a"), nil, nil)
			case 1:
				x.SetState(zzAddrs[0], []byte("a"), w, nil)
			}
		}
		if plain {
			apply()
		} else {
			switch detour {
			case 0: // an intermediate value first
				if net != 2 {
					x.SetState(zzAddrs[0], []byte("a"), []byte{zz.U8("mid")}, nil)
				}
				apply()
			case 1: // afterwards a reverted write
				apply()
				id := x.Snapshot()
				x.SetState(zzAddrs[0], []byte("a"), []byte{zz.U8("tv")}, nil)
				x.RevertToSnapshot(id)
			case 2: // afterwards a reverted delete
				apply()
				id := x.Snapshot()
				x.SetState(zzAddrs[0], []byte("a"), nil, nil)
				x.RevertToSnapshot(id)
			case 4: // the account's balance is credited and debited by the same amount (net: untouched)
				x.AddBalance(zzAddrs[0], big.NewInt(5))
				apply()
				x.SubBalance(zzAddrs[0], big.NewInt(5))
			case 5: // a balance write inside a snapshot that is reverted (a failing transfer to the account)
				apply()
				id := x.Snapshot()
				x.SetBalance(zzAddrs[0], big.NewInt(9))
				x.RevertToSnapshot(id)
			case 7: // a failing transfer to an address that has no account record (its object exists: it was read before)
				apply()
				_ = x.GetBalance(zzAddrs[1])
				id := x.Snapshot()
				x.SetBalance(zzAddrs[1], big.NewInt(9))
				x.RevertToSnapshot(id)
			case 6: // a contract deployment onto the account inside a snapshot that is reverted
				apply()
				hashBefore := x.GetCodeHash(zzAddrs[0]).String()
				id := x.Snapshot()
				x.SetCode(zzAddrs[0], []byte{0x60, 0x00})
				x.RevertToSnapshot(id)
				zz.Assert("C13.net.reverted-deployment-leaves-no-code", x.GetCode(zzAddrs[0]) == nil)
				zz.Assert("C13.net.reverted-deployment-restores-the-code-hash", x.GetCodeHash(zzAddrs[0]).String() == hashBefore)
			case 3: // a reverted write first, then the change
				id := x.Snapshot()
				x.SetState(zzAddrs[0], []byte("a"), []byte{zz.U8("tv")}, nil)
				x.RevertToSnapshot(id)
				apply()
			}
		}
		ok, got := x.GetState(zzAddrs[0], []byte("a"))
		_, r := x.FlushDirtyData()
		return r.Bytes(), ok, got
	}
	r0, ok0, v0 := run(true)
	r1, ok1, v1 := run(false)
	zz.Assert("C10.net.same-net-changes-same-root", zz.EqBytes(r0, r1))
	zz.Assert("C10.net.same-value-read-back", ok0 == ok1 && (!ok0 || zz.EqBytes(v0, v1)))
}

// ZZH_C10_selfdestruct: an account with balance, nonce, code and storage is committed; in the next
// block the contract destroys itself (the EVM's SELFDESTRUCT reaches the ledger as Suiside),
// possibly after a storage write in the same block. The root of that block commits to what was
// executed: a node that keeps running (account cache) and a node that reopens the database read the
// same balance, nonce, code and storage afterwards, and the same change in the following block
// gives both the same root.
// zz:also C13 C01
func ZZH_C10_selfdestruct() {
	store := zz.NewStore()
	cache, _ := NewAccountCache()
	l := zzNewLedger(store, cache)
	a := zzAddrs[0]
	l.SetBalance(a, big.NewInt(50))
	l.SetNonce(a, 3)
	l.SetCode(a, []byte{0x60, 0x00})
	l.SetState(a, []byte("k"), []byte{zz.U8("v1")}, nil)
	zzCommit(l, 1)
	if zz.Choice("writeBeforeDestruct", 2) == 1 {
		l.SetState(a, []byte("k"), []byte{zz.U8("v2")}, nil)
	}
	l.Suiside(a)
	zzCommit(l, 2)
	cache2, _ := NewAccountCache()
	l2 := zzNewLedger(store, cache2)
	zz.Assert("C10.destruct.balance-same-through-cache-and-reopen", l.GetBalance(a).Cmp(l2.GetBalance(a)) == 0)
	zz.Assert("C10.destruct.nonce-same-through-cache-and-reopen", l.GetNonce(a) == l2.GetNonce(a))
	zz.Assert("C10.destruct.code-same-through-cache-and-reopen", zz.EqBytes(l.GetCode(a), l2.GetCode(a)))
	ok1, s1 := l.GetState(a, []byte("k"))
	ok2, s2 := l2.GetState(a, []byte("k"))
	zz.Assert("C10.destruct.storage-same-through-cache-and-reopen", zz.And(ok1 == ok2, zz.EqBytes(s1, s2)))
	// the same change in block 3 on both nodes
	switch zz.Choice("next", 3) {
	case 0:
		l.SetBalance(a, big.NewInt(5))
		l2.SetBalance(a, big.NewInt(5))
	case 1:
		l.SetState(a, []byte("k2"), []byte("x"), nil)
		l2.SetState(a, []byte("k2"), []byte("x"), nil)
	case 2:
		l.SetNonce(a, 9)
		l2.SetNonce(a, 9)
	}
	_, r3 := l.FlushDirtyData()
	_, r3b := l2.FlushDirtyData()
	zz.Assert("C10.destruct.next-root-same-on-running-and-restarted-node", r3.String() == r3b.String())
}
