module symgo

go 1.23

require (
	golang.org/x/crypto v0.0.0-20220722155217-630584e8d5aa
	golang.org/x/tools v0.29.0
)

require (
	golang.org/x/mod v0.22.0 // indirect
	golang.org/x/sync v0.10.0 // indirect
)
