// Package solver drives a long-lived SMT solver process (z3 -in, z3-new -in,
// cvc5 --incremental) over SMT-LIB2 text.
package solver

import (
	"bufio"
	"fmt"
	"io"
	"math/big"
	"os"
	"os/exec"
	"strings"
	"sync/atomic"
	"time"

	"symgo/term"
)

type Result int

const (
	Unsat Result = iota
	Sat
	Unknown
)

func (r Result) String() string { return [...]string{"unsat", "sat", "unknown"}[r] }

// Stats are global counters (atomically updated).
type Stats struct {
	Queries, SatN, UnsatN, UnknownN, Errors int64
	NanosTotal, NanosMax                    int64
}

var Global Stats

type Solver struct {
	Kind     string
	cmd      *exec.Cmd
	in       io.WriteCloser
	out      *bufio.Reader
	declared []map[string]bool // per push level
	timeout  int
	Log      io.Writer
}

func New(kind string, timeoutMs int) (*Solver, error) {
	var cmd *exec.Cmd
	switch kind {
	case "z3":
		cmd = exec.Command("z3", "-in")
	case "z3-new":
		cmd = exec.Command("z3-new", "-in")
	case "cvc5":
		cmd = exec.Command("cvc5", "--incremental", "--produce-models", "--lang=smt2", fmt.Sprintf("--tlimit-per=%d", timeoutMs))
	default:
		return nil, fmt.Errorf("unknown solver %q", kind)
	}
	in, err := cmd.StdinPipe()
	if err != nil {
		return nil, err
	}
	out, err := cmd.StdoutPipe()
	if err != nil {
		return nil, err
	}
	cmd.Stderr = nil
	if err := cmd.Start(); err != nil {
		return nil, err
	}
	s := &Solver{Kind: kind, cmd: cmd, in: in, out: bufio.NewReaderSize(out, 1<<16), timeout: timeoutMs}
	s.declared = []map[string]bool{{}}
	if p := os.Getenv("SYMGO_SMTLOG"); p != "" {
		if f, err := os.Create(fmt.Sprintf("%s.%d", p, cmd.Process.Pid)); err == nil {
			s.Log = f
		}
	}
	s.preamble()
	return s, nil
}

func (s *Solver) preamble() {
	if s.Kind == "cvc5" {
		s.send("(set-logic ALL)")
	} else {
		s.send("(set-option :produce-models true)")
		s.send(fmt.Sprintf("(set-option :timeout %d)", s.timeout))
	}
}

func (s *Solver) send(line string) {
	if s.Log != nil {
		fmt.Fprintln(s.Log, line)
	}
	io.WriteString(s.in, line)
	io.WriteString(s.in, "\n")
}

func (s *Solver) Close() {
	if s.cmd != nil {
		s.in.Close()
		s.cmd.Process.Kill()
		s.cmd.Wait()
		s.cmd = nil
	}
}

// Reset clears all assertions and declarations.
func (s *Solver) Reset() {
	s.send("(reset)")
	s.declared = []map[string]bool{{}}
	s.preamble()
}

func (s *Solver) Push() {
	s.send("(push 1)")
	s.declared = append(s.declared, map[string]bool{})
}

func (s *Solver) Pop() {
	s.send("(pop 1)")
	s.declared = s.declared[:len(s.declared)-1]
}

func (s *Solver) Depth() int { return len(s.declared) - 1 }

func (s *Solver) isDeclared(n string) bool {
	for _, m := range s.declared {
		if m[n] {
			return true
		}
	}
	return false
}

func (s *Solver) declare(ts ...*term.Term) {
	for _, v := range term.Vars(ts...) {
		if !s.isDeclared(v.Name) {
			s.send(fmt.Sprintf("(declare-const |%s| %s)", v.Name, v.S))
			s.declared[len(s.declared)-1][v.Name] = true
		}
	}
}

func (s *Solver) Assert(t *term.Term) {
	if t.IsTrue() {
		return
	}
	s.declare(t)
	s.send("(assert " + t.String() + ")")
}

// readUntilMarker reads lines until the echo marker; returns the lines before.
func (s *Solver) readUntilMarker() ([]string, error) {
	var lines []string
	for {
		l, err := s.out.ReadString('\n')
		if err != nil {
			return lines, fmt.Errorf("solver %s died: %v (got %q)", s.Kind, err, lines)
		}
		l = strings.TrimSpace(l)
		if strings.Contains(l, "@@MARK@@") {
			return lines, nil
		}
		if l != "" {
			lines = append(lines, l)
		}
	}
}

// Check runs check-sat on the current assertions.
func (s *Solver) Check() (Result, error) {
	t0 := time.Now()
	s.send("(check-sat)")
	s.send(`(echo "@@MARK@@")`)
	lines, err := s.readUntilMarker()
	d := time.Since(t0).Nanoseconds()
	atomic.AddInt64(&Global.Queries, 1)
	atomic.AddInt64(&Global.NanosTotal, d)
	for {
		old := atomic.LoadInt64(&Global.NanosMax)
		if d <= old || atomic.CompareAndSwapInt64(&Global.NanosMax, old, d) {
			break
		}
	}
	if err != nil {
		atomic.AddInt64(&Global.Errors, 1)
		return Unknown, err
	}
	res := Unknown
	var bad string
	got := false
	for _, l := range lines {
		switch {
		case l == "sat":
			res, got = Sat, true
		case l == "unsat":
			res, got = Unsat, true
		case l == "unknown" || l == "timeout":
			res, got = Unknown, true
		case strings.HasPrefix(l, "(error"):
			bad = l
		}
	}
	if bad != "" || !got {
		atomic.AddInt64(&Global.Errors, 1)
		return Unknown, fmt.Errorf("solver %s: %s %v", s.Kind, bad, lines)
	}
	switch res {
	case Sat:
		atomic.AddInt64(&Global.SatN, 1)
	case Unsat:
		atomic.AddInt64(&Global.UnsatN, 1)
	default:
		atomic.AddInt64(&Global.UnknownN, 1)
	}
	return res, nil
}

// CheckWith checks current assertions plus extra (in a push/pop scope).
// If wantModel and sat, the values of vars are returned.
func (s *Solver) CheckWith(extra []*term.Term, vars []*term.Term) (Result, map[string]*big.Int, error) {
	s.Push()
	defer s.Pop()
	for _, e := range extra {
		s.Assert(e)
	}
	if len(vars) > 0 {
		s.declare(vars...)
	}
	r, err := s.Check()
	if err != nil || r != Sat || len(vars) == 0 {
		return r, nil, err
	}
	m, err := s.Model(vars)
	return r, m, err
}

// Model returns values for vars after a sat answer.
func (s *Solver) Model(vars []*term.Term) (map[string]*big.Int, error) {
	out := map[string]*big.Int{}
	if len(vars) == 0 {
		return out, nil
	}
	// chunk to keep lines reasonable
	for i := 0; i < len(vars); i += 50 {
		j := i + 50
		if j > len(vars) {
			j = len(vars)
		}
		var b strings.Builder
		b.WriteString("(get-value (")
		for _, v := range vars[i:j] {
			b.WriteString(v.String())
			b.WriteByte(' ')
		}
		b.WriteString("))")
		s.send(b.String())
		s.send(`(echo "@@MARK@@")`)
		lines, err := s.readUntilMarker()
		if err != nil {
			return nil, err
		}
		txt := strings.Join(lines, " ")
		if strings.Contains(txt, "(error") {
			return nil, fmt.Errorf("solver %s get-value: %s", s.Kind, txt)
		}
		if err := parseValues(txt, out); err != nil {
			return nil, err
		}
	}
	return out, nil
}

// parseValues parses "((|a| #x01) (|b| true) (|c| (- 5)))".
func parseValues(txt string, out map[string]*big.Int) error {
	toks := tokenize(txt)
	pos := 0
	var parse func() interface{}
	parse = func() interface{} {
		if pos >= len(toks) {
			return nil
		}
		t := toks[pos]
		pos++
		if t == "(" {
			var l []interface{}
			for pos < len(toks) && toks[pos] != ")" {
				l = append(l, parse())
			}
			pos++
			return l
		}
		return t
	}
	top, ok := parse().([]interface{})
	if !ok {
		return fmt.Errorf("bad get-value output: %s", txt)
	}
	for _, e := range top {
		pair, ok := e.([]interface{})
		if !ok || len(pair) != 2 {
			return fmt.Errorf("bad get-value pair in: %s", txt)
		}
		name, _ := pair[0].(string)
		name = strings.Trim(name, "|")
		v, err := valueOf(pair[1])
		if err != nil {
			return fmt.Errorf("%v in %s", err, txt)
		}
		out[name] = v
	}
	return nil
}

func valueOf(x interface{}) (*big.Int, error) {
	switch x := x.(type) {
	case string:
		switch {
		case x == "true":
			return big.NewInt(1), nil
		case x == "false":
			return big.NewInt(0), nil
		case strings.HasPrefix(x, "#x"):
			v, ok := new(big.Int).SetString(x[2:], 16)
			if !ok {
				return nil, fmt.Errorf("bad hex %s", x)
			}
			return v, nil
		case strings.HasPrefix(x, "#b"):
			v, ok := new(big.Int).SetString(x[2:], 2)
			if !ok {
				return nil, fmt.Errorf("bad bin %s", x)
			}
			return v, nil
		default:
			v, ok := new(big.Int).SetString(x, 10)
			if !ok {
				return nil, fmt.Errorf("bad value %s", x)
			}
			return v, nil
		}
	case []interface{}:
		if len(x) == 2 {
			if op, _ := x[0].(string); op == "-" {
				v, err := valueOf(x[1])
				if err != nil {
					return nil, err
				}
				return new(big.Int).Neg(v), nil
			}
		}
		// (_ bv5 32)
		if len(x) == 3 {
			if u, _ := x[0].(string); u == "_" {
				if bv, _ := x[1].(string); strings.HasPrefix(bv, "bv") {
					v, ok := new(big.Int).SetString(bv[2:], 10)
					if ok {
						return v, nil
					}
				}
			}
		}
	}
	return nil, fmt.Errorf("unparsable value %v", x)
}

func tokenize(s string) []string {
	var toks []string
	i := 0
	for i < len(s) {
		c := s[i]
		switch {
		case c == ' ' || c == '\t' || c == '\n' || c == '\r':
			i++
		case c == '(' || c == ')':
			toks = append(toks, string(c))
			i++
		case c == '|':
			j := strings.IndexByte(s[i+1:], '|')
			if j < 0 {
				j = len(s) - i - 2
			}
			toks = append(toks, s[i:i+j+2])
			i += j + 2
		default:
			j := i
			for j < len(s) && !strings.ContainsRune(" \t\n\r()", rune(s[j])) {
				j++
			}
			toks = append(toks, s[i:j])
			i = j
		}
	}
	return toks
}
