// Package term is the SMT term language used by symgo: Bool, fixed-width
// bit-vectors (Go machine integers, wrap-around by construction) and
// mathematical Int (math/big values). Terms are immutable trees with light
// constant folding; printing is to SMT-LIB2.
package term

import (
	"fmt"
	"math/big"
	"sort"
	"strings"
)

type Kind int

const (
	KBool Kind = iota
	KBV
	KInt
)

type Sort struct {
	K Kind
	W int // width for KBV
}

var BoolSort = Sort{K: KBool}
var IntSort = Sort{K: KInt}

func BV(w int) Sort { return Sort{K: KBV, W: w} }

func (s Sort) String() string {
	switch s.K {
	case KBool:
		return "Bool"
	case KInt:
		return "Int"
	}
	return fmt.Sprintf("(_ BitVec %d)", s.W)
}

// Term is an SMT term. Op "var" has Name; op "const" has Val (for Bool: 0/1).
type Term struct {
	Op   string
	Args []*Term
	S    Sort
	Val  *big.Int
	Name string
	P    int // extra parameter (extract hi / extend amount)
	P2   int // extract lo
	str  string
}

var True = &Term{Op: "const", S: BoolSort, Val: big.NewInt(1)}
var False = &Term{Op: "const", S: BoolSort, Val: big.NewInt(0)}

func Var(name string, s Sort) *Term { return &Term{Op: "var", Name: name, S: s} }

func BoolConst(b bool) *Term {
	if b {
		return True
	}
	return False
}

func mask(w int) *big.Int {
	m := new(big.Int).Lsh(big.NewInt(1), uint(w))
	return m.Sub(m, big.NewInt(1))
}

// BVConst builds a bit-vector constant; v is reduced mod 2^w (two's complement).
func BVConst(v *big.Int, w int) *Term {
	x := new(big.Int).And(v, mask(w)) // big.Int And on negatives uses two's complement semantics
	return &Term{Op: "const", S: BV(w), Val: x}
}

func BVConstU(v uint64, w int) *Term { return BVConst(new(big.Int).SetUint64(v), w) }
func BVConstI(v int64, w int) *Term  { return BVConst(big.NewInt(v), w) }
func IntConst(v *big.Int) *Term      { return &Term{Op: "const", S: IntSort, Val: new(big.Int).Set(v)} }
func IntConstI(v int64) *Term        { return IntConst(big.NewInt(v)) }

func (t *Term) IsConst() bool { return t.Op == "const" }
func (t *Term) IsTrue() bool  { return t.Op == "const" && t.S.K == KBool && t.Val.Sign() != 0 }
func (t *Term) IsFalse() bool { return t.Op == "const" && t.S.K == KBool && t.Val.Sign() == 0 }

// Signed value of a BV const.
func (t *Term) SignedVal() *big.Int {
	if t.S.K != KBV {
		return t.Val
	}
	if t.Val.Bit(t.S.W-1) == 1 {
		return new(big.Int).Sub(t.Val, new(big.Int).Lsh(big.NewInt(1), uint(t.S.W)))
	}
	return t.Val
}

func Not(a *Term) *Term {
	if a.IsConst() {
		return BoolConst(a.Val.Sign() == 0)
	}
	if a.Op == "not" {
		return a.Args[0]
	}
	return &Term{Op: "not", Args: []*Term{a}, S: BoolSort}
}

func And(xs ...*Term) *Term {
	var out []*Term
	for _, x := range xs {
		if x.IsFalse() {
			return False
		}
		if x.IsTrue() {
			continue
		}
		if x.Op == "and" {
			out = append(out, x.Args...)
		} else {
			out = append(out, x)
		}
	}
	if len(out) == 0 {
		return True
	}
	if len(out) == 1 {
		return out[0]
	}
	return &Term{Op: "and", Args: out, S: BoolSort}
}

func Or(xs ...*Term) *Term {
	var out []*Term
	for _, x := range xs {
		if x.IsTrue() {
			return True
		}
		if x.IsFalse() {
			continue
		}
		if x.Op == "or" {
			out = append(out, x.Args...)
		} else {
			out = append(out, x)
		}
	}
	if len(out) == 0 {
		return False
	}
	if len(out) == 1 {
		return out[0]
	}
	return &Term{Op: "or", Args: out, S: BoolSort}
}

func Implies(a, b *Term) *Term { return Or(Not(a), b) }

func Ite(c, a, b *Term) *Term {
	if c.IsTrue() {
		return a
	}
	if c.IsFalse() {
		return b
	}
	if a == b {
		return a
	}
	if a.S.K == KBool {
		if a.IsConst() && b.IsConst() {
			if a.IsTrue() && b.IsFalse() {
				return c
			}
			if a.IsFalse() && b.IsTrue() {
				return Not(c)
			}
		}
	}
	if a.IsConst() && b.IsConst() && a.Val.Cmp(b.Val) == 0 {
		return a
	}
	return &Term{Op: "ite", Args: []*Term{c, a, b}, S: a.S}
}

func Eq(a, b *Term) *Term {
	if a.S != b.S {
		panic(fmt.Sprintf("term.Eq: sort mismatch %v vs %v (%s , %s)", a.S, b.S, a, b))
	}
	if a == b {
		return True
	}
	if a.IsConst() && b.IsConst() {
		return BoolConst(a.Val.Cmp(b.Val) == 0)
	}
	if a.S.K == KBool {
		if a.IsConst() {
			a, b = b, a
		}
		if b.IsTrue() {
			return a
		}
		if b.IsFalse() {
			return Not(a)
		}
	}
	if a.Op == "var" && b.Op == "var" && a.Name == b.Name {
		return True
	}
	if a.Op != "const" && b.Op != "const" && a.Op == b.Op && a.String() == b.String() {
		return True
	}
	// bv2nat is injective: compare the bit-vectors instead (bv2nat is poison for the solvers)
	if a.Op == "bv2nat" && b.Op == "bv2nat" && a.Args[0].S == b.Args[0].S {
		return Eq(a.Args[0], b.Args[0])
	}
	if a.Op == "bv2nat" && b.IsConst() {
		return natVsConst("=", a.Args[0], b.Val)
	}
	if b.Op == "bv2nat" && a.IsConst() {
		return natVsConst("=", b.Args[0], a.Val)
	}
	// ite(c, k1, k2) == k  with constants: simplify
	if b.IsConst() && a.Op == "ite" && a.Args[1].IsConst() && a.Args[2].IsConst() {
		return Ite(a.Args[0], Eq(a.Args[1], b), Eq(a.Args[2], b))
	}
	if a.IsConst() && b.Op == "ite" && b.Args[1].IsConst() && b.Args[2].IsConst() {
		return Ite(b.Args[0], Eq(b.Args[1], a), Eq(b.Args[2], a))
	}
	return &Term{Op: "=", Args: []*Term{a, b}, S: BoolSort}
}

// ---- bit-vector operations ----

func toSigned(v *big.Int, w int) *big.Int {
	if v.Bit(w-1) == 1 {
		return new(big.Int).Sub(v, new(big.Int).Lsh(big.NewInt(1), uint(w)))
	}
	return v
}

// BVBin builds a binary BV op with constant folding. op is the SMT-LIB name.
func BVBin(op string, a, b *Term) *Term {
	if a.S != b.S || a.S.K != KBV {
		panic(fmt.Sprintf("term.BVBin %s: sort mismatch %v vs %v", op, a.S, b.S))
	}
	w := a.S.W
	if a.IsConst() && b.IsConst() {
		x, y := a.Val, b.Val
		r := new(big.Int)
		switch op {
		case "bvadd":
			return BVConst(r.Add(x, y), w)
		case "bvsub":
			return BVConst(r.Sub(x, y), w)
		case "bvmul":
			return BVConst(r.Mul(x, y), w)
		case "bvand":
			return BVConst(r.And(x, y), w)
		case "bvor":
			return BVConst(r.Or(x, y), w)
		case "bvxor":
			return BVConst(r.Xor(x, y), w)
		case "bvudiv":
			if y.Sign() != 0 {
				return BVConst(r.Quo(x, y), w)
			}
		case "bvurem":
			if y.Sign() != 0 {
				return BVConst(r.Rem(x, y), w)
			}
		case "bvsdiv":
			if y.Sign() != 0 {
				return BVConst(r.Quo(toSigned(x, w), toSigned(y, w)), w)
			}
		case "bvsrem":
			if y.Sign() != 0 {
				return BVConst(r.Rem(toSigned(x, w), toSigned(y, w)), w)
			}
		case "bvshl":
			if y.Cmp(big.NewInt(int64(w))) >= 0 {
				return BVConstU(0, w)
			}
			return BVConst(r.Lsh(x, uint(y.Uint64())), w)
		case "bvlshr":
			if y.Cmp(big.NewInt(int64(w))) >= 0 {
				return BVConstU(0, w)
			}
			return BVConst(r.Rsh(x, uint(y.Uint64())), w)
		case "bvashr":
			sh := uint(w)
			if y.Cmp(big.NewInt(int64(w))) < 0 {
				sh = uint(y.Uint64())
			}
			return BVConst(r.Rsh(toSigned(x, w), sh), w)
		}
	}
	// identities
	switch op {
	case "bvadd", "bvor", "bvxor":
		if a.IsConst() && a.Val.Sign() == 0 {
			return b
		}
		if b.IsConst() && b.Val.Sign() == 0 {
			return a
		}
	case "bvsub", "bvshl", "bvlshr", "bvashr":
		if b.IsConst() && b.Val.Sign() == 0 {
			return a
		}
	case "bvmul":
		if a.IsConst() && a.Val.Cmp(big.NewInt(1)) == 0 {
			return b
		}
		if b.IsConst() && b.Val.Cmp(big.NewInt(1)) == 0 {
			return a
		}
		if (a.IsConst() && a.Val.Sign() == 0) || (b.IsConst() && b.Val.Sign() == 0) {
			return BVConstU(0, w)
		}
	case "bvand":
		if (a.IsConst() && a.Val.Sign() == 0) || (b.IsConst() && b.Val.Sign() == 0) {
			return BVConstU(0, w)
		}
	case "bvudiv", "bvsdiv":
		if b.IsConst() && b.Val.Cmp(big.NewInt(1)) == 0 {
			return a
		}
	}
	return &Term{Op: op, Args: []*Term{a, b}, S: a.S}
}

func BVNot(a *Term) *Term {
	if a.IsConst() {
		return BVConst(new(big.Int).Xor(a.Val, mask(a.S.W)), a.S.W)
	}
	return &Term{Op: "bvnot", Args: []*Term{a}, S: a.S}
}

func BVNeg(a *Term) *Term {
	if a.IsConst() {
		return BVConst(new(big.Int).Neg(a.Val), a.S.W)
	}
	return &Term{Op: "bvneg", Args: []*Term{a}, S: a.S}
}

// BVCmp builds a comparison: bvult bvule bvugt bvuge bvslt bvsle bvsgt bvsge.
func BVCmp(op string, a, b *Term) *Term {
	if a.S != b.S || a.S.K != KBV {
		panic(fmt.Sprintf("term.BVCmp %s: sort mismatch %v vs %v", op, a.S, b.S))
	}
	if !a.IsConst() && !b.IsConst() && a.String() == b.String() {
		return BoolConst(op[3:] == "le" || op[3:] == "ge")
	}
	if a.IsConst() && b.IsConst() {
		x, y := a.Val, b.Val
		if op[2] == 's' {
			x, y = toSigned(x, a.S.W), toSigned(y, a.S.W)
		}
		c := x.Cmp(y)
		switch op[3:] {
		case "lt":
			return BoolConst(c < 0)
		case "le":
			return BoolConst(c <= 0)
		case "gt":
			return BoolConst(c > 0)
		case "ge":
			return BoolConst(c >= 0)
		}
	}
	return &Term{Op: op, Args: []*Term{a, b}, S: BoolSort}
}

func Extract(hi, lo int, a *Term) *Term {
	if lo == 0 && hi == a.S.W-1 {
		return a
	}
	if a.IsConst() {
		return BVConst(new(big.Int).Rsh(a.Val, uint(lo)), hi-lo+1)
	}
	if a.Op == "zero_extend" || a.Op == "sign_extend" {
		inner := a.Args[0]
		if lo == 0 && hi < inner.S.W {
			return Extract(hi, 0, inner)
		}
	}
	return &Term{Op: "extract", Args: []*Term{a}, S: BV(hi - lo + 1), P: hi, P2: lo}
}

func ZeroExt(n int, a *Term) *Term {
	if n == 0 {
		return a
	}
	if a.IsConst() {
		return BVConst(a.Val, a.S.W+n)
	}
	return &Term{Op: "zero_extend", Args: []*Term{a}, S: BV(a.S.W + n), P: n}
}

func SignExt(n int, a *Term) *Term {
	if n == 0 {
		return a
	}
	if a.IsConst() {
		return BVConst(toSigned(a.Val, a.S.W), a.S.W+n)
	}
	return &Term{Op: "sign_extend", Args: []*Term{a}, S: BV(a.S.W + n), P: n}
}

func Concat(a, b *Term) *Term {
	if a.IsConst() && b.IsConst() {
		v := new(big.Int).Lsh(a.Val, uint(b.S.W))
		v.Or(v, b.Val)
		return BVConst(v, a.S.W+b.S.W)
	}
	return &Term{Op: "concat", Args: []*Term{a, b}, S: BV(a.S.W + b.S.W)}
}

// Resize converts a to width w: truncation, or extension per signedness of source.
func Resize(a *Term, w int, srcSigned bool) *Term {
	switch {
	case a.S.W == w:
		return a
	case a.S.W > w:
		return Extract(w-1, 0, a)
	case srcSigned:
		return SignExt(w-a.S.W, a)
	}
	return ZeroExt(w-a.S.W, a)
}

// ---- Int operations ----

func IntBin(op string, a, b *Term) *Term {
	if a.S.K != KInt || b.S.K != KInt {
		panic("term.IntBin: not Int")
	}
	if a.IsConst() && b.IsConst() {
		r := new(big.Int)
		switch op {
		case "+":
			return IntConst(r.Add(a.Val, b.Val))
		case "-":
			return IntConst(r.Sub(a.Val, b.Val))
		case "*":
			return IntConst(r.Mul(a.Val, b.Val))
		case "div": // Euclidean
			if b.Val.Sign() != 0 {
				return IntConst(r.Div(a.Val, b.Val))
			}
		case "mod":
			if b.Val.Sign() != 0 {
				return IntConst(r.Mod(a.Val, b.Val))
			}
		}
	}
	switch op {
	case "+":
		if a.IsConst() && a.Val.Sign() == 0 {
			return b
		}
		if b.IsConst() && b.Val.Sign() == 0 {
			return a
		}
	case "-":
		if b.IsConst() && b.Val.Sign() == 0 {
			return a
		}
	case "*":
		if a.IsConst() && a.Val.Cmp(big.NewInt(1)) == 0 {
			return b
		}
		if b.IsConst() && b.Val.Cmp(big.NewInt(1)) == 0 {
			return a
		}
	}
	return &Term{Op: op, Args: []*Term{a, b}, S: IntSort}
}

func IntNeg(a *Term) *Term { return IntBin("-", IntConstI(0), a) }

// natVsConst compares bv2nat(x) with the integer constant k (op: = < <= > >=).
func natVsConst(op string, x *Term, k *big.Int) *Term {
	w := x.S.W
	max := mask(w)
	switch {
	case k.Sign() < 0:
		return BoolConst(op == ">" || op == ">=")
	case k.Cmp(max) > 0:
		return BoolConst(op == "<" || op == "<=")
	}
	c := BVConst(k, w)
	switch op {
	case "=":
		return Eq(x, c)
	case "<":
		return BVCmp("bvult", x, c)
	case "<=":
		return BVCmp("bvule", x, c)
	case ">":
		return BVCmp("bvugt", x, c)
	}
	return BVCmp("bvuge", x, c)
}

func flipCmp(op string) string {
	switch op {
	case "<":
		return ">"
	case "<=":
		return ">="
	case ">":
		return "<"
	}
	return "<="
}

// IntCmp: < <= > >=
func IntCmp(op string, a, b *Term) *Term {
	if a.Op == "bv2nat" && b.Op == "bv2nat" && a.Args[0].S == b.Args[0].S {
		return BVCmp(map[string]string{"<": "bvult", "<=": "bvule", ">": "bvugt", ">=": "bvuge"}[op], a.Args[0], b.Args[0])
	}
	if a.Op == "bv2nat" && b.IsConst() {
		return natVsConst(op, a.Args[0], b.Val)
	}
	if b.Op == "bv2nat" && a.IsConst() {
		return natVsConst(flipCmp(op), b.Args[0], a.Val)
	}
	if !a.IsConst() && !b.IsConst() && a.String() == b.String() {
		return BoolConst(op == "<=" || op == ">=")
	}
	if a.IsConst() && b.IsConst() {
		c := a.Val.Cmp(b.Val)
		switch op {
		case "<":
			return BoolConst(c < 0)
		case "<=":
			return BoolConst(c <= 0)
		case ">":
			return BoolConst(c > 0)
		case ">=":
			return BoolConst(c >= 0)
		}
	}
	return &Term{Op: op, Args: []*Term{a, b}, S: BoolSort}
}

// BV2Nat: unsigned value of a as Int.
func BV2Nat(a *Term) *Term {
	if a.IsConst() {
		return IntConst(a.Val)
	}
	return &Term{Op: "bv2nat", Args: []*Term{a}, S: IntSort}
}

// BV2Int: signed value of a as Int.
func BV2Int(a *Term) *Term {
	if a.IsConst() {
		return IntConst(toSigned(a.Val, a.S.W))
	}
	w := a.S.W
	n := BV2Nat(a)
	return Ite(BVCmp("bvslt", a, BVConstU(0, w)), IntBin("-", n, IntConst(new(big.Int).Lsh(big.NewInt(1), uint(w)))), n)
}

// Int2BV: a mod 2^w.
func Int2BV(a *Term, w int) *Term {
	if a.IsConst() {
		return BVConst(a.Val, w)
	}
	if a.Op == "bv2nat" && a.Args[0].S.W == w {
		return a.Args[0]
	}
	return &Term{Op: "int2bv", Args: []*Term{a}, S: BV(w), P: w}
}

// ---- printing ----

func (t *Term) String() string {
	if t.str != "" {
		return t.str
	}
	var s string
	switch t.Op {
	case "var":
		s = "|" + t.Name + "|"
	case "const":
		switch t.S.K {
		case KBool:
			if t.Val.Sign() != 0 {
				s = "true"
			} else {
				s = "false"
			}
		case KInt:
			if t.Val.Sign() < 0 {
				s = "(- " + new(big.Int).Neg(t.Val).String() + ")"
			} else {
				s = t.Val.String()
			}
		case KBV:
			if t.S.W%4 == 0 {
				s = fmt.Sprintf("#x%0*s", t.S.W/4, t.Val.Text(16))
			} else {
				s = fmt.Sprintf("#b%0*s", t.S.W, t.Val.Text(2))
			}
		}
	case "extract":
		s = fmt.Sprintf("((_ extract %d %d) %s)", t.P, t.P2, t.Args[0])
	case "zero_extend", "sign_extend":
		s = fmt.Sprintf("((_ %s %d) %s)", t.Op, t.P, t.Args[0])
	case "int2bv":
		s = fmt.Sprintf("((_ int2bv %d) %s)", t.P, t.Args[0])
	default:
		var b strings.Builder
		b.WriteByte('(')
		b.WriteString(t.Op)
		for _, a := range t.Args {
			b.WriteByte(' ')
			b.WriteString(a.String())
		}
		b.WriteByte(')')
		s = b.String()
	}
	t.str = s
	return s
}

// Vars collects the free variables of the terms, sorted by name.
func Vars(ts ...*Term) []*Term {
	seen := map[string]*Term{}
	visited := map[*Term]bool{}
	var walk func(t *Term)
	walk = func(t *Term) {
		if visited[t] {
			return
		}
		visited[t] = true
		if t.Op == "var" {
			seen[t.Name] = t
			return
		}
		for _, a := range t.Args {
			walk(a)
		}
	}
	for _, t := range ts {
		walk(t)
	}
	names := make([]string, 0, len(seen))
	for n := range seen {
		names = append(names, n)
	}
	sort.Strings(names)
	out := make([]*Term, len(names))
	for i, n := range names {
		out[i] = seen[n]
	}
	return out
}

// Eval evaluates t under the model (variable name -> value; BV values unsigned,
// Bool 0/1). Missing variables default to zero.
func Eval(t *Term, m map[string]*big.Int) *big.Int {
	switch t.Op {
	case "const":
		return t.Val
	case "var":
		if v, ok := m[t.Name]; ok {
			return v
		}
		return new(big.Int)
	}
	ev := func(i int) *big.Int { return Eval(t.Args[i], m) }
	cst := func(i int) *Term {
		a := t.Args[i]
		return &Term{Op: "const", S: a.S, Val: Eval(a, m)}
	}
	var r *Term
	switch t.Op {
	case "not":
		r = Not(cst(0))
	case "and":
		for i := range t.Args {
			if ev(i).Sign() == 0 {
				return big.NewInt(0)
			}
		}
		return big.NewInt(1)
	case "or":
		for i := range t.Args {
			if ev(i).Sign() != 0 {
				return big.NewInt(1)
			}
		}
		return big.NewInt(0)
	case "ite":
		if ev(0).Sign() != 0 {
			return ev(1)
		}
		return ev(2)
	case "=":
		r = Eq(cst(0), cst(1))
	case "bvnot":
		r = BVNot(cst(0))
	case "bvneg":
		r = BVNeg(cst(0))
	case "extract":
		r = Extract(t.P, t.P2, cst(0))
	case "zero_extend":
		r = ZeroExt(t.P, cst(0))
	case "sign_extend":
		r = SignExt(t.P, cst(0))
	case "concat":
		r = Concat(cst(0), cst(1))
	case "bv2nat":
		r = BV2Nat(cst(0))
	case "int2bv":
		r = Int2BV(cst(0), t.P)
	case "+", "-", "*", "div", "mod":
		r = IntBin(t.Op, cst(0), cst(1))
	case "<", "<=", ">", ">=":
		r = IntCmp(t.Op, cst(0), cst(1))
	default:
		if strings.HasPrefix(t.Op, "bv") {
			if t.S.K == KBool {
				r = BVCmp(t.Op, cst(0), cst(1))
			} else {
				r = BVBin(t.Op, cst(0), cst(1))
			}
		}
	}
	if r == nil || !r.IsConst() {
		// division by zero etc: SMT-LIB total semantics not modelled; return 0
		return new(big.Int)
	}
	return r.Val
}
