// symgo: bounded symbolic checking of Go functions from their SSA form.
package main

import (
	"encoding/json"
	"flag"
	"fmt"
	"math/big"
	"os"
	"os/exec"
	"path/filepath"
	"regexp"
	"sort"
	"strings"
	"sync"
	"time"

	"golang.org/x/tools/go/ssa"

	"symgo/interp"
	"symgo/solver"
)

type knownFile struct {
	Known []struct {
		ID       string   `json:"id"`
		Property string   `json:"property"`
		What     string   `json:"what"`
		Labels   []string `json:"labels,omitempty"`
	} `json:"known"`
	Fixed []struct {
		ID       string `json:"id"`
		Property string `json:"property"`
		Commit   string `json:"commit"`
		What     string `json:"what"`
	} `json:"fixed"`
}

type harnessStat struct {
	Name        string
	Paths       int
	Status      map[string]int
	Reached     map[string]int
	Covered     map[string]bool
	Violations  []interp.Violation
	Cuts        map[string]int
	Unsupported map[string]int
	SymBranch   int
	Nontrivial  int
	Decisions   int
	Steps       int64
	Unknowns    int
	Samples     []map[string]interface{}
	Agree       []agreeSample // completed paths without any violation, to be re-run natively
	okSeen      int
	Funcs       map[string]bool
	Wall        float64
	BoundHit    bool
}

type job struct {
	h      *ssa.Function
	prefix []interp.Decision
}

var knownLabels map[string][]string

var (
	repo       = flag.String("repo", "/repo", "repository under test")
	harnessDir = flag.String("harness-dir", "/verif/harness", "harness sources (overlaid into the repo)")
	prop       = flag.String("prop", "", "property id (selects harnesses ZZH_<prop>_*)")
	runRe      = flag.String("run", "", "regexp on harness names")
	tier       = flag.String("tier", "quick", "quick|thorough")
	seed       = flag.Int("seed", 0, "seed")
	nworkers   = flag.Int("j", 16, "workers")
	knownPath  = flag.String("known", "/verif/known_findings.json", "known findings file")
	evidence   = flag.String("evidence", "", "evidence output file")
	replayDir  = flag.String("replay-dir", "/verif/replays", "where replay files go")
	trace      = flag.Bool("trace", false, "trace first path")
	maxPaths   = flag.Int("max-paths", 0, "path budget per harness (0 = 200000 in the quick tier, 2000000 in the thorough tier)")
	maxSteps   = flag.Int("max-steps", 5000000, "max SSA instructions per path")
	timeoutMs  = flag.Int("query-timeout", 60000, "solver timeout per query (ms)")
	noReplay   = flag.Bool("no-replay", false, "skip native replay (debug)")
	agree      = flag.Int("agree", 2, "completed violation-free paths per harness whose inputs are re-run natively (translator validation); 0 = off")
	replayFile = flag.String("replay", "", "replay a stored counterexample file natively")
	solverKind = flag.String("solver", "z3", "z3|z3-new|cvc5")
	verbose    = flag.Bool("v", false, "verbose")
	listOnly   = flag.Bool("list", false, "list harnesses")
	budget     = flag.Duration("budget", 0, "wall budget per harness (0 = none)")
)

func main() {
	flag.Parse()
	os.Exit(run())
}

func fail(format string, a ...interface{}) int {
	fmt.Printf("INCONCLUSIVE "+format+"\n", a...)
	return 2
}

// overlayFor maps every file under harnessDir to the same relative path in the repo.
func overlayFor() (map[string][]byte, map[string]string, error) {
	ov := map[string][]byte{}
	paths := map[string]string{}
	err := filepath.Walk(*harnessDir, func(p string, info os.FileInfo, err error) error {
		if err != nil || info.IsDir() || !strings.HasSuffix(p, ".go") {
			return err
		}
		rel, _ := filepath.Rel(*harnessDir, p)
		b, err := os.ReadFile(p)
		if err != nil {
			return err
		}
		dst := filepath.Join(*repo, rel)
		ov[dst] = b
		paths[dst] = p
		return nil
	})
	return ov, paths, err
}

var funcRe = regexp.MustCompile(`(?m)^func (ZZH_[A-Za-z0-9_]+)\(`)

// a harness may also serve other properties: "// zz:also C03 C19" on the line before func
var alsoRe = regexp.MustCompile(`(?m)^// zz:also ([A-Z0-9 ]+)\n(?:.*\n)?func (ZZH_[A-Za-z0-9_]+)\(`)

// selectHarnesses finds the harness names for the property and the packages (repo-relative dirs) that hold them.
func selectHarnesses(ov map[string][]byte) (map[string]string, []string) {
	names := map[string]string{} // harness -> dir (relative)
	dirs := map[string]bool{}
	var re *regexp.Regexp
	if *runRe != "" {
		re = regexp.MustCompile(*runRe)
	}
	for p, b := range ov {
		if strings.HasSuffix(p, "_test.go") {
			continue
		}
		also := map[string]string{}
		for _, m := range alsoRe.FindAllStringSubmatch(string(b), -1) {
			also[m[2]] = " " + m[1] + " "
		}
		for _, m := range funcRe.FindAllStringSubmatch(string(b), -1) {
			n := m[1]
			if *prop != "" && !strings.HasPrefix(n, "ZZH_"+*prop+"_") && !strings.Contains(also[n], " "+*prop+" ") {
				continue
			}
			if re != nil && !re.MatchString(n) {
				continue
			}
			rel, _ := filepath.Rel(*repo, filepath.Dir(p))
			names[n] = rel
			dirs[rel] = true
		}
	}
	var ds []string
	for d := range dirs {
		ds = append(ds, "./"+d)
	}
	sort.Strings(ds)
	return names, ds
}

func run() int {
	t0 := time.Now()
	if *maxPaths == 0 {
		*maxPaths = 200000
		if *tier == "thorough" {
			*maxPaths = 2000000
		}
	}
	os.Setenv("VERIF_TIER", *tier)
	ov, ovPaths, err := overlayFor()
	if err != nil {
		return fail("reason=overlay %v", err)
	}
	if *replayFile != "" {
		if abs, err := filepath.Abs(*replayFile); err == nil {
			*replayFile = abs
		}
		return replayOnly(ovPaths)
	}
	env := []string{"GOFLAGS=-mod=mod", "GOPROXY=off", "GOSUMDB=off", "GOTOOLCHAIN=local"}
	var names map[string]string
	var sh *interp.Shared
	// A harness file that no longer compiles against the current tree (an internal function it
	// calls changed its signature) is dropped and reported as inconclusive; the remaining
	// harnesses of the package still run.
	var dropped []string
	for attempt := 0; ; attempt++ {
		var dirs []string
		names, dirs = selectHarnesses(ov)
		if len(names) == 0 {
			return fail("reason=no-harness prop=%s dropped=%v", *prop, dropped)
		}
		sh, err = interp.Load(*repo, dirs, ov, "verif", env)
		if err == nil {
			break
		}
		bad := map[string]bool{}
		for _, m := range regexp.MustCompile(`(/[^\s:]*/zz_verif_[A-Za-z0-9_]+\.go):\d+`).FindAllStringSubmatch(err.Error(), -1) {
			if _, ok := ov[m[1]]; ok && !strings.HasSuffix(m[1], "zz_verif_base.go") && !strings.Contains(m[1], "/zzverif/") {
				bad[m[1]] = true
			}
		}
		if len(bad) == 0 || attempt >= 5 {
			return fail("reason=load-failed %v", err)
		}
		for f := range bad {
			delete(ov, f)
			delete(ovPaths, f)
			dropped = append(dropped, f)
			for _, l := range strings.Split(err.Error(), "\n") {
				if strings.HasPrefix(l, f+":") {
					fmt.Println("  does not compile: " + l)
				}
			}
		}
	}
	sort.Strings(dropped)
	loadS := time.Since(t0).Seconds()
	var hs []*ssa.Function
	for _, h := range sh.Harnesses() {
		if _, ok := names[h.Name()]; ok {
			hs = append(hs, h)
		}
	}
	if *listOnly {
		for _, h := range hs {
			fmt.Println(h.Name(), names[h.Name()])
		}
		return 0
	}
	if len(hs) != len(names) {
		return fail("reason=harness-mismatch found=%d expected=%d", len(hs), len(names))
	}

	known := map[string]bool{}
	knownWhat := map[string]string{}
	knownProp := map[string]string{}
	knownLabels = map[string][]string{}
	var kf knownFile
	if b, err := os.ReadFile(*knownPath); err == nil {
		if err := json.Unmarshal(b, &kf); err != nil {
			return fail("reason=bad-known-findings %v", err)
		}
		for _, k := range kf.Known {
			known[k.ID] = true
			knownWhat[k.ID] = k.What
			knownProp[k.ID] = k.Property
			knownLabels[k.ID] = k.Labels
		}
	}

	stats := map[string]*harnessStat{}
	exit := 0
	var lines []string
	for _, h := range hs {
		st := explore(sh, h, known)
		stats[h.Name()] = st
		if *verbose {
			fmt.Printf("harness %s: paths=%d status=%v reached=%v covered=%v wall=%.1fs\n", h.Name(), st.Paths, st.Status, st.Reached, st.Covered, st.Wall)
		}
	}

	// verdicts
	totalReplays := 0
	reproducedKnown := map[string]bool{}
	for _, f := range dropped {
		lines = append(lines, fmt.Sprintf("INCONCLUSIVE harness-file=%s reason=does-not-compile-against-the-current-tree (its harnesses were not run)", f))
		if exit == 0 {
			exit = 2
		}
	}
	for _, h := range hs {
		st := stats[h.Name()]
		// inconclusive conditions
		for k, n := range st.Status {
			switch k {
			case "ok", "cut", "infeasible", "assert-end", "crash", "wedge":
			default:
				reasons := []string{}
				for r := range st.Unsupported {
					reasons = append(reasons, r)
				}
				sort.Strings(reasons)
				if len(reasons) > 3 {
					reasons = reasons[:3]
				}
				lines = append(lines, fmt.Sprintf("INCONCLUSIVE harness=%s status=%s paths=%d reasons=%q", h.Name(), k, n, reasons))
				if exit == 0 {
					exit = 2
				}
			}
		}
		if st.BoundHit {
			lines = append(lines, fmt.Sprintf("INCONCLUSIVE harness=%s reason=path-budget-exceeded", h.Name()))
			if exit == 0 {
				exit = 2
			}
		}
		if len(st.Reached) == 0 {
			lines = append(lines, fmt.Sprintf("VACUOUS harness=%s reason=no-assertion-reached", h.Name()))
			if exit == 0 {
				exit = 2
			}
		}
		for l, ok := range st.Covered {
			if !ok {
				lines = append(lines, fmt.Sprintf("VACUOUS harness=%s cover=%s", h.Name(), l))
				if exit == 0 {
					exit = 2
				}
			}
		}
		// violations: one replay per (label, tag)
		seen := map[string]bool{}
		for _, v := range st.Violations {
			key := v.Label + "|" + v.KnownTag
			if seen[key] {
				continue
			}
			if strings.HasPrefix(v.Msg, "UNKNOWN") {
				seen[key] = true
				lines = append(lines, fmt.Sprintf("INCONCLUSIVE harness=%s label=%s reason=solver-unknown", h.Name(), v.Label))
				if exit == 0 {
					exit = 2
				}
				continue
			}
			seen[key] = true
			rp := writeReplay(h.Name(), v)
			ok, out := true, ""
			if !*noReplay {
				ok, out = nativeReplay(names[h.Name()], rp, ovPaths, needsRepeat(st, v))
				totalReplays++
			}
			switch {
			case !ok:
				lines = append(lines, fmt.Sprintf("ENGINE-MISMATCH harness=%s label=%s replay=%s (counterexample did not reproduce natively)", h.Name(), v.Label, rp))
				if *verbose {
					fmt.Println(out)
				}
				if exit == 0 {
					exit = 2
				}
			case v.KnownTag != "":
				reproducedKnown[v.KnownTag] = true
				lines = append(lines, fmt.Sprintf("KNOWN-FINDING: property=%s %s [%s label=%s replay=%s]", knownProp[v.KnownTag], knownWhat[v.KnownTag], v.KnownTag, v.Label, rp))
			default:
				pid := propOf(h.Name())
				if *prop != "" {
					pid = *prop
				}
				lines = append(lines, fmt.Sprintf("VIOLATION property=%s replay=%s", pid, rp))
				lines = append(lines, fmt.Sprintf("  harness=%s label=%s", h.Name(), v.Label))
				exit = 1
			}
		}
	}
	// translator validation: inputs of completed, violation-free paths are re-run natively; the
	// real build must pass every assertion the symbolic run passed
	agreed := 0
	if exit == 0 && !*noReplay && *agree > 0 {
		byPkg := map[string][]string{}
		tmpA, _ := os.MkdirTemp("", "symgo-agree-")
		defer os.RemoveAll(tmpA)
		for _, h := range hs {
			st := stats[h.Name()]
			for k, a := range st.Agree {
				if k >= *agree {
					break
				}
				r := replayJSON{Harness: h.Name(), Property: propOf(h.Name()), Label: "", Nondet: map[string]string{}, Choices: a.Choices, Prefix: a.Prefix}
				for name, val := range a.Model {
					r.Nondet[name] = val.String()
				}
				f := filepath.Join(tmpA, fmt.Sprintf("%s-%d.json", h.Name(), k))
				b, _ := json.Marshal(r)
				os.WriteFile(f, b, 0o644)
				byPkg[names[h.Name()]] = append(byPkg[names[h.Name()]], f)
			}
		}
		var pkgs []string
		for k := range byPkg {
			pkgs = append(pkgs, k)
		}
		sort.Strings(pkgs)
		for _, rel := range pkgs {
			n, bad, out := nativeAgree(rel, byPkg[rel], ovPaths)
			agreed += n
			for _, b := range bad {
				lines = append(lines, fmt.Sprintf("ENGINE-MISMATCH %s (a path the symbolic run completed without violation fails natively)", b))
				exit = 2
			}
			if len(bad) > 0 {
				// keep the sample inputs for inspection
				dir := filepath.Join(*replayDir, "agreement-mismatch")
				os.MkdirAll(dir, 0o755)
				for _, f := range byPkg[rel] {
					if b, err := os.ReadFile(f); err == nil {
						os.WriteFile(filepath.Join(dir, filepath.Base(f)), b, 0o644)
					}
				}
			}
			if n == 0 && len(bad) == 0 {
				lines = append(lines, fmt.Sprintf("INCONCLUSIVE reason=native-agreement-run-failed pkg=%s", rel))
				if *verbose {
					fmt.Println(out)
				}
				exit = 2
			}
		}
	}
	totalReplays += agreed
	sort.SliceStable(lines, func(i, j int) bool { return false })
	for _, l := range lines {
		fmt.Println(l)
	}
	wall := time.Since(t0).Seconds()
	if *evidence != "" {
		if err := writeEvidence(sh, hs, stats, wall, loadS, totalReplays, exit, reproducedKnown); err != nil {
			fmt.Println("INCONCLUSIVE reason=evidence-write", err)
			if exit == 0 {
				exit = 2
			}
		}
	}
	tp, tq := 0, solver.Global.Queries
	for _, s := range stats {
		tp += s.Paths
	}
	fmt.Printf("symgo: prop=%s tier=%s harnesses=%d paths=%d queries=%d solver=%.1fs wall=%.1fs exit=%d\n", *prop, *tier, len(hs), tp, tq, float64(solver.Global.NanosTotal)/1e9, wall, exit)
	return exit
}

func propOf(h string) string {
	parts := strings.SplitN(h, "_", 3)
	if len(parts) >= 2 {
		return parts[1]
	}
	return *prop
}

func needsRepeat(st *harnessStat, v interp.Violation) int {
	for _, d := range v.Decs {
		if d.Kind == 'c' {
			return 300 // free choices (map order / schedule) cannot be forced natively
		}
	}
	if strings.Contains(v.Label, "no-address") {
		return 3 // compared between consecutive native runs
	}
	return 1
}

func explore(sh *interp.Shared, h *ssa.Function, known map[string]bool) *harnessStat {
	t0 := time.Now()
	st := &harnessStat{Name: h.Name(), Status: map[string]int{}, Reached: map[string]int{}, Covered: map[string]bool{}, Cuts: map[string]int{}, Unsupported: map[string]int{}, Funcs: map[string]bool{}}
	var mu sync.Mutex
	cond := sync.NewCond(&mu)
	work := []job{{h: h}}
	active := 0
	done := false
	var wg sync.WaitGroup
	firstTrace := *trace
	for w := 0; w < *nworkers; w++ {
		wg.Add(1)
		go func(w int) {
			defer wg.Done()
			s, err := solver.New(*solverKind, *timeoutMs)
			if err != nil {
				mu.Lock()
				st.Status["solver-start-failed"]++
				done = true
				cond.Broadcast()
				mu.Unlock()
				return
			}
			defer s.Close()
			for {
				mu.Lock()
				for len(work) == 0 && active > 0 && !done {
					cond.Wait()
				}
				if done || (len(work) == 0 && active == 0) {
					done = true
					cond.Broadcast()
					mu.Unlock()
					return
				}
				j := work[len(work)-1]
				work = work[:len(work)-1]
				active++
				tr := firstTrace
				firstTrace = false
				mu.Unlock()

				res := sh.RunPath(h, j.prefix, s, known, interp.RunOpts{MaxSteps: *maxSteps, WantWit: true, Trace: tr, KnownLabels: knownLabels})

				mu.Lock()
				active--
				st.Paths++
				st.Status[res.Status]++
				st.Steps += int64(res.Steps)
				st.Decisions += len(res.Decs)
				st.SymBranch += res.SymBranch
				st.Unknowns += res.Unknowns
				if res.SymBranch > 0 {
					st.Nontrivial++
				}
				for l, n := range res.Reached {
					st.Reached[l] += n
				}
				for l, ok := range res.Covered {
					st.Covered[l] = st.Covered[l] || ok
				}
				for f := range res.Funcs {
					st.Funcs[f] = true
				}
				switch res.Status {
				case "cut":
					st.Cuts[res.Reason]++
				case "crash", "wedge":
					if *verbose {
						fmt.Printf("  path %s ended: %s: %s\n", interp.DecString(res.Decs), res.Status, res.Reason)
					}
				case "ok", "infeasible", "assert-end":
				default:
					st.Unsupported[res.Status+": "+res.Reason]++
					if *verbose && st.Unsupported[res.Status+": "+res.Reason] == 1 {
						fmt.Printf("  path %s ended: %s: %s\n", interp.DecString(res.Decs), res.Status, res.Reason)
					}
				}
				if *verbose && len(res.Violations) > 0 && len(res.Observed) > 0 {
					fmt.Printf("  violation path %s labels=%s observed=%v\n", interp.DecString(res.Decs), res.Violations[0].Label, res.Observed)
				}
				st.Violations = append(st.Violations, res.Violations...)
				if res.Status == "ok" && len(res.Violations) == 0 && res.Witness != nil {
					st.okSeen++
					// keep the first completed path and the two latest ones at power-of-two positions
					if st.okSeen&(st.okSeen-1) == 0 {
						a := agreeSample{Model: res.Witness, Choices: append([]int{}, res.Choices...), Prefix: interp.DecString(res.Decs)}
						if len(st.Agree) < 3 {
							st.Agree = append(st.Agree, a)
						} else {
							st.Agree[1], st.Agree[2] = st.Agree[2], a
						}
					}
				}
				if len(st.Samples) < 4 && res.Status == "ok" {
					st.Samples = append(st.Samples, sample(h.Name(), res))
				}
				for _, f := range res.Forks {
					work = append(work, job{h: h, prefix: f})
				}
				if st.Paths >= *maxPaths || (*budget > 0 && time.Since(t0) > *budget) {
					if len(work) > 0 || active > 0 {
						st.BoundHit = len(work) > 0
					}
					work = nil
					done = true
				}
				cond.Broadcast()
				mu.Unlock()
			}
		}(w)
	}
	wg.Wait()
	st.Wall = time.Since(t0).Seconds()
	return st
}

func sample(h string, res *interp.PathResult) map[string]interface{} {
	m := map[string]interface{}{"harness": h, "decisions": interp.DecString(res.Decs), "status": res.Status, "ssa_steps": res.Steps}
	if res.Witness != nil {
		w := map[string]string{}
		for k, v := range res.Witness {
			w[k] = v.String()
		}
		m["witness"] = w
	}
	if len(res.Observed) > 0 {
		m["observed"] = res.Observed
	}
	var labels []string
	for l := range res.Reached {
		labels = append(labels, l)
	}
	sort.Strings(labels)
	m["assertions_checked"] = labels
	return m
}

type agreeSample struct {
	Model   map[string]*big.Int
	Choices []int
	Prefix  string
}

// nativeAgree runs the listed sample inputs natively in one go test process of the package.
func nativeAgree(relDir string, files []string, ovPaths map[string]string) (int, []string, string) {
	ok, out := nativeReplayEnv(relDir, ovPaths, []string{"ZZVERIF_REPLAY_LIST=" + strings.Join(files, ":")})
	_ = ok
	n := strings.Count(out, "AGREE-OK ")
	var bad []string
	for _, l := range strings.Split(out, "\n") {
		if strings.HasPrefix(l, "AGREE-MISMATCH ") {
			bad = append(bad, strings.TrimPrefix(l, "AGREE-MISMATCH "))
		}
	}
	if strings.Contains(out, "panic:") && !strings.Contains(out, "AGREE-DONE") {
		bad = append(bad, "native process died: "+firstLine(out, "panic:"))
	}
	return n, bad, out
}

func firstLine(out, needle string) string {
	for _, l := range strings.Split(out, "\n") {
		if strings.Contains(l, needle) {
			return l
		}
	}
	return ""
}

type replayJSON struct {
	Harness  string            `json:"harness"`
	Property string            `json:"property"`
	Label    string            `json:"label"`
	Tag      string            `json:"known_tag,omitempty"`
	Nondet   map[string]string `json:"nondet"`
	Choices  []int             `json:"choices"`
	Prefix   string            `json:"prefix"`
}

func writeReplay(h string, v interp.Violation) string {
	r := replayJSON{Harness: h, Property: propOf(h), Label: v.Label, Tag: v.KnownTag, Nondet: map[string]string{}, Choices: v.Choices, Prefix: interp.DecString(v.Decs)}
	for k, val := range v.Model {
		r.Nondet[k] = signedString(k, val)
	}
	dir := filepath.Join(*replayDir, propOf(h))
	os.MkdirAll(dir, 0o755)
	name := fmt.Sprintf("%s-%s", h, sanitize(v.Label))
	if v.KnownTag != "" {
		name += "-" + sanitize(v.KnownTag)
	}
	p := filepath.Join(dir, name+".json")
	b, _ := json.MarshalIndent(r, "", " ")
	os.WriteFile(p, b, 0o644)
	return p
}

func signedString(name string, v *big.Int) string { return v.String() }

func sanitize(s string) string {
	return regexp.MustCompile(`[^A-Za-z0-9_.-]`).ReplaceAllString(s, "_")
}

// nativeReplayEnv compiles the harnessed package with the overlay and runs TestZZReplay with the given environment.
func nativeReplayEnv(relDir string, ovPaths map[string]string, env []string) (bool, string) {
	tmp, err := os.MkdirTemp("", "symgo-replay-")
	if err != nil {
		return false, err.Error()
	}
	defer os.RemoveAll(tmp)
	// generated test file listing the package's harnesses
	pkgDir := filepath.Join(*repo, relDir)
	var hnames []string
	pkgName := ""
	for dst, src := range ovPaths {
		if filepath.Dir(dst) != pkgDir || strings.HasSuffix(dst, "_test.go") {
			continue
		}
		b, _ := os.ReadFile(src)
		for _, m := range funcRe.FindAllStringSubmatch(string(b), -1) {
			hnames = append(hnames, m[1])
		}
		if m := regexp.MustCompile(`(?m)^package (\w+)`).FindSubmatch(b); m != nil {
			pkgName = string(m[1])
		}
	}
	sort.Strings(hnames)
	var sb strings.Builder
	fmt.Fprintf(&sb, "//go:build verif\n\npackage %s\n\nimport (\n\t\"testing\"\n\n\t\"github.com/meshplus/bitxhub/internal/zzverif\"\n)\n\nfunc TestZZReplay(t *testing.T) {\n\tzzverif.RunReplay(t, map[string]func(){\n", pkgName)
	for _, n := range hnames {
		fmt.Fprintf(&sb, "\t\t%q: %s,\n", n, n)
	}
	sb.WriteString("\t})\n}\n")
	gen := filepath.Join(tmp, "zz_verif_replay_test.go")
	os.WriteFile(gen, []byte(sb.String()), 0o644)
	repl := map[string]string{filepath.Join(pkgDir, "zz_verif_replay_test.go"): gen}
	for dst, src := range ovPaths {
		repl[dst] = src
	}
	ovJSON, _ := json.Marshal(map[string]interface{}{"Replace": repl})
	ovFile := filepath.Join(tmp, "overlay.json")
	os.WriteFile(ovFile, ovJSON, 0o644)
	// a counterexample of the wedge assertion blocks the native run forever: it is given two minutes
	timeout := "20m"
	for _, e := range env {
		if strings.HasPrefix(e, "ZZVERIF_REPLAY=") && strings.Contains(replayLabel(strings.TrimPrefix(e, "ZZVERIF_REPLAY=")), "wedge.") {
			timeout = "120s"
		}
	}
	cmd := exec.Command("go", "test", "-tags", "verif", "-vet=off", "-count=1", "-timeout", timeout, "-overlay", ovFile, "-ldflags=-checklinkname=0", "-run", "^TestZZReplay$", "-v", "./"+relDir)
	cmd.Dir = *repo
	cmd.Env = append(append(os.Environ(), "GOFLAGS=-mod=mod", "GOPROXY=off", "GOSUMDB=off", "GOTOOLCHAIN=local"), env...)
	out, err := cmd.CombinedOutput()
	return err == nil, string(out)
}

// nativeReplay compiles the harnessed package with the overlay and runs the counterexample.
func nativeReplay(relDir, replayPath string, ovPaths map[string]string, repeat int) (bool, string) {
	_, s := nativeReplayEnv(relDir, ovPaths, []string{"ZZVERIF_REPLAY=" + replayPath, fmt.Sprintf("ZZVERIF_REPEAT=%d", repeat)})
	if strings.Contains(s, "REPLAY-REPRODUCED") {
		return true, s
	}
	if lbl := replayLabel(replayPath); lbl != "" && strings.Contains(s, "REPLAY-VIOLATION "+lbl+"\n") {
		return true, s // assertion failed natively; the process died later
	}
	// a crash of the test process caused by a panic in a goroutine
	var rj replayJSON
	if b, err := os.ReadFile(replayPath); err == nil {
		json.Unmarshal(b, &rj)
	}
	if strings.Contains(rj.Label, "wedge.") && (strings.Contains(s, "test timed out after") || strings.Contains(s, "all goroutines are asleep")) && !strings.Contains(s, "REPLAY-NOT-REPRODUCED") {
		return true, s // the native run never came back
	}
	if strings.Contains(rj.Label, "crash") && strings.Contains(s, "panic:") && strings.Contains(s, "goroutine ") && !strings.Contains(s, "REPLAY-NOT-REPRODUCED") {
		return true, s
	}
	return false, s
}

func replayLabel(path string) string {
	var rj replayJSON
	if b, err := os.ReadFile(path); err == nil {
		json.Unmarshal(b, &rj)
	}
	return rj.Label
}

func replayOnly(ovPaths map[string]string) int {
	var rj replayJSON
	b, err := os.ReadFile(*replayFile)
	if err != nil {
		return fail("reason=replay-file %v", err)
	}
	if err := json.Unmarshal(b, &rj); err != nil {
		return fail("reason=replay-file %v", err)
	}
	ov := map[string][]byte{}
	for dst, src := range ovPaths {
		bb, _ := os.ReadFile(src)
		ov[dst] = bb
	}
	*prop = ""
	*runRe = "^" + rj.Harness + "$"
	names, _ := selectHarnesses(ov)
	rel, ok := names[rj.Harness]
	if !ok {
		return fail("reason=unknown-harness %s", rj.Harness)
	}
	rep := 1
	if strings.ContainsAny(rj.Prefix, "0123456789") {
		rep = 300
	}
	ok, out := nativeReplay(rel, *replayFile, ovPaths, rep)
	fmt.Println(out)
	if ok {
		fmt.Printf("VIOLATION property=%s replay=%s\n", rj.Property, *replayFile)
		return 1
	}
	fmt.Println("replay: not reproduced")
	return 0
}

func writeEvidence(sh *interp.Shared, hs []*ssa.Function, stats map[string]*harnessStat, wall, loadS float64, replays int, exit int, reproducedKnown map[string]bool) error {
	paths, trans, nontrivial := 0, 0, 0
	funcs := map[string]bool{}
	var samples []interface{}
	perH := map[string]interface{}{}
	var cuts []string
	violations := 0
	for _, h := range hs {
		st := stats[h.Name()]
		paths += st.Paths
		trans += st.Decisions
		nontrivial += st.Nontrivial
		for f := range st.Funcs {
			funcs[f] = true
		}
		for _, s := range st.Samples {
			if len(samples) < 8 {
				samples = append(samples, s)
			}
		}
		for c, n := range st.Cuts {
			cuts = append(cuts, fmt.Sprintf("%s: %s (%d paths)", h.Name(), c, n))
		}
		for _, v := range st.Violations {
			if v.KnownTag == "" {
				violations++
			}
		}
		perH[h.Name()] = map[string]interface{}{"paths": st.Paths, "status": st.Status, "assertions_reached": st.Reached, "covers": st.Covered, "ssa_instructions": st.Steps, "solver_decided_branches": st.Decisions, "nontrivial_paths": st.Nontrivial, "wall_s": st.Wall}
	}
	if len(samples) == 0 {
		samples = append(samples, map[string]interface{}{"note": "no completed path"})
	}
	var fl []string
	for f := range funcs {
		if strings.Contains(f, "meshplus") {
			fl = append(fl, f)
		}
	}
	sort.Strings(fl)
	sort.Strings(cuts)
	var rk []string
	for k := range reproducedKnown {
		rk = append(rk, k)
	}
	sort.Strings(rk)
	if trans == 0 {
		trans = 1
	}
	ev := map[string]interface{}{
		"property_id": *prop,
		"tier":        *tier,
		"seed":        *seed,
		"level":       "model_checking",
		"wall_s":      wall,
		"violations":  violations,
		"coverage": map[string]interface{}{
			"states":                        paths,
			"transitions":                   trans,
			"traces_validated_against_impl": replays,
			"samples":                       samples,
			"evaluations":                   paths,
			"distinct_nontrivial":           nontrivial,
			"rule":                          "one case = one symbolic execution path of a harness over the real SSA (distinct decision prefix, so distinct by construction); non-trivial = the path took at least one solver-decided branch inside non-harness code",
			"functions_encoded":             fl,
			"functions_encoded_total":       len(funcs),
			"source_hashes":                 sh.SourceHashes(funcs),
			"harnesses":                     perH,
			"cuts":                          cuts,
			"queries": map[string]interface{}{
				"count": solver.Global.Queries, "sat": solver.Global.SatN, "unsat": solver.Global.UnsatN, "unknown": solver.Global.UnknownN, "errors": solver.Global.Errors,
				"solver_time_s": float64(solver.Global.NanosTotal) / 1e9, "max_query_s": float64(solver.Global.NanosMax) / 1e9, "backend": *solverKind,
			},
			"bounds": map[string]interface{}{"max_ssa_instructions_per_path": *maxSteps, "max_paths_per_harness": *maxPaths, "query_timeout_ms": *timeoutMs, "widths": "real Go widths (bit-vectors); math/big as mathematical Int"},
			"known_findings_reproduced": rk,
			"load_s":                    loadS,
			"exit":                      exit,
		},
		"assumptions": assumptions(),
	}
	b, err := json.MarshalIndent(ev, "", " ")
	if err != nil {
		return err
	}
	os.MkdirAll(filepath.Dir(*evidence), 0o755)
	return os.WriteFile(*evidence, b, 0o644)
}

func assumptions() []string {
	return []string{
		"go/packages + go/ssa (x/tools v0.29.0) give the meaning of the source; symgo's instruction semantics and intrinsics are trusted for unsat verdicts (violations are replayed natively)",
		"json/protobuf Marshal is an opaque blob: round trip is the identity on encoded fields, encoding deterministic and injective per type",
		"sha256 of symbolic data is a function and collision free (pseudo digests, equality decided on inputs)",
		"logging and metrics have no effect on state; logger.Fatal* = process exit, Panic* = panic",
		"goroutines run under deterministic cooperative schedules (S1 child-first, S2 parent-first) only; data races are outside the claim",
		"time.Now is an arbitrary non-decreasing instant",
		"bounds are those stated in each harness (sizes, choices, assumptions); outside them nothing is claimed",
	}
}
