package interp

// Symbolic scalar values: a term plus the Go basic kind it stands for.

import (
	"fmt"
	"go/token"
	"go/types"
	"math/big"

	"symgo/term"
)

// symv is a symbolic bool / integer / byte.
type symv struct {
	t *term.Term
	k types.BasicKind
}

func kindWidth(k types.BasicKind) int {
	switch k {
	case types.Int8, types.Uint8:
		return 8
	case types.Int16, types.Uint16:
		return 16
	case types.Int32, types.Uint32:
		return 32
	case types.Int, types.Uint, types.Int64, types.Uint64, types.Uintptr:
		return 64
	}
	return 0
}

func kindSigned(k types.BasicKind) bool {
	switch k {
	case types.Int, types.Int8, types.Int16, types.Int32, types.Int64:
		return true
	}
	return false
}

func isSym(v value) bool {
	_, ok := v.(symv)
	return ok
}

// concKind returns the basic kind of a concrete scalar value.
func concKind(v value) (types.BasicKind, bool) {
	switch v.(type) {
	case bool:
		return types.Bool, true
	case int:
		return types.Int, true
	case int8:
		return types.Int8, true
	case int16:
		return types.Int16, true
	case int32:
		return types.Int32, true
	case int64:
		return types.Int64, true
	case uint:
		return types.Uint, true
	case uint8:
		return types.Uint8, true
	case uint16:
		return types.Uint16, true
	case uint32:
		return types.Uint32, true
	case uint64:
		return types.Uint64, true
	case uintptr:
		return types.Uintptr, true
	}
	return 0, false
}

// toSym lifts a concrete scalar to a constant term; symv passes through.
func toSym(v value) symv {
	if s, ok := v.(symv); ok {
		return s
	}
	k, ok := concKind(v)
	if !ok {
		panic(unsupported(fmt.Sprintf("toSym: %T is not a scalar", v)))
	}
	if k == types.Bool {
		return symv{term.BoolConst(v.(bool)), k}
	}
	w := kindWidth(k)
	if kindSigned(k) {
		return symv{term.BVConstI(asInt64(v), w), k}
	}
	return symv{term.BVConstU(uint64(asInt64(v)), w), k}
}

// fromConstTerm converts a constant term back to a concrete value of kind k.
func fromConstTerm(t *term.Term, k types.BasicKind) value {
	if k == types.Bool {
		return t.Val.Sign() != 0
	}
	u := t.Val.Uint64()
	switch k {
	case types.Int:
		return int(u)
	case types.Int8:
		return int8(u)
	case types.Int16:
		return int16(u)
	case types.Int32:
		return int32(u)
	case types.Int64:
		return int64(u)
	case types.Uint:
		return uint(u)
	case types.Uint8:
		return uint8(u)
	case types.Uint16:
		return uint16(u)
	case types.Uint32:
		return uint32(u)
	case types.Uint64:
		return u
	case types.Uintptr:
		return uintptr(u)
	}
	panic(fmt.Sprintf("fromConstTerm: kind %v", k))
}

// mkSym wraps a term; constants are turned back into concrete values.
func mkSym(t *term.Term, k types.BasicKind) value {
	if t.IsConst() {
		return fromConstTerm(t, k)
	}
	return symv{t, k}
}

func symBinop(fr *frame, op token.Token, x, y value) value {
	sx := toSym(x)
	k := sx.k
	if sx.t.S.K == term.KInt || (isSym(y) && y.(symv).t.S.K == term.KInt) {
		return symBinopInt(fr, op, sx, toSym(y))
	}
	// shifts: y may be of another integer kind
	if op == token.SHL || op == token.SHR {
		sy := toSym(y)
		w := kindWidth(k)
		cnt := sy.t
		if kindSigned(sy.k) {
			// negative shift count panics
			if fr.decide(term.BVCmp("bvslt", cnt, term.BVConstU(0, cnt.S.W))) {
				panic("runtime error: negative shift amount")
			}
		}
		if cnt.S.W > w {
			big := term.BVCmp("bvuge", cnt, term.BVConstU(uint64(w), cnt.S.W))
			cnt = term.Ite(big, term.BVConstU(uint64(w), w), term.Extract(w-1, 0, cnt))
		} else if cnt.S.W < w {
			cnt = term.ZeroExt(w-cnt.S.W, cnt)
		}
		var r *term.Term
		switch {
		case op == token.SHL:
			r = term.BVBin("bvshl", sx.t, cnt)
		case kindSigned(k):
			r = term.BVBin("bvashr", sx.t, cnt)
		default:
			r = term.BVBin("bvlshr", sx.t, cnt)
		}
		return mkSym(r, k)
	}
	sy := toSym(y)
	if sy.k != k && !(k == types.Bool) {
		// e.g. int vs untyped; widths must agree
		if kindWidth(sy.k) != kindWidth(k) {
			panic(unsupported(fmt.Sprintf("symBinop %s: kind mismatch %v vs %v", op, k, sy.k)))
		}
	}
	if k == types.Bool {
		switch op {
		case token.EQL:
			return mkSym(term.Eq(sx.t, sy.t), types.Bool)
		case token.NEQ:
			return mkSym(term.Not(term.Eq(sx.t, sy.t)), types.Bool)
		case token.LAND, token.AND:
			return mkSym(term.And(sx.t, sy.t), types.Bool)
		case token.LOR, token.OR:
			return mkSym(term.Or(sx.t, sy.t), types.Bool)
		}
		panic(unsupported(fmt.Sprintf("symBinop bool %s", op)))
	}
	signed := kindSigned(k)
	a, b := sx.t, sy.t
	w := kindWidth(k)
	bin := func(u, s string) value {
		if signed {
			return mkSym(term.BVBin(s, a, b), k)
		}
		return mkSym(term.BVBin(u, a, b), k)
	}
	cmp := func(u, s string) value {
		if signed {
			return mkSym(term.BVCmp(s, a, b), types.Bool)
		}
		return mkSym(term.BVCmp(u, a, b), types.Bool)
	}
	switch op {
	case token.ADD:
		return bin("bvadd", "bvadd")
	case token.SUB:
		return bin("bvsub", "bvsub")
	case token.MUL:
		return bin("bvmul", "bvmul")
	case token.QUO, token.REM:
		if fr.decide(term.Eq(b, term.BVConstU(0, w))) {
			panic("runtime error: integer divide by zero")
		}
		if op == token.QUO {
			return bin("bvudiv", "bvsdiv")
		}
		return bin("bvurem", "bvsrem")
	case token.AND:
		return bin("bvand", "bvand")
	case token.OR:
		return bin("bvor", "bvor")
	case token.XOR:
		return bin("bvxor", "bvxor")
	case token.AND_NOT:
		return mkSym(term.BVBin("bvand", a, term.BVNot(b)), k)
	case token.EQL:
		return mkSym(term.Eq(a, b), types.Bool)
	case token.NEQ:
		return mkSym(term.Not(term.Eq(a, b)), types.Bool)
	case token.LSS:
		return cmp("bvult", "bvslt")
	case token.LEQ:
		return cmp("bvule", "bvsle")
	case token.GTR:
		return cmp("bvugt", "bvsgt")
	case token.GEQ:
		return cmp("bvuge", "bvsge")
	}
	panic(unsupported(fmt.Sprintf("symBinop %s on %v", op, k)))
}

func symUnop(op token.Token, x symv) value {
	if x.t.S.K == term.KInt {
		w := kindWidth(x.k)
		switch op {
		case token.SUB:
			return mkSym(term.Ite(term.Eq(x.t, term.IntConstI(0)), x.t, term.IntBin("-", pow2(w), x.t)), x.k)
		case token.XOR:
			return mkSym(term.IntBin("-", term.IntBin("-", pow2(w), term.IntConstI(1)), x.t), x.k)
		}
		panic(unsupported(fmt.Sprintf("symUnop %s in Int mode", op)))
	}
	switch op {
	case token.NOT:
		return mkSym(term.Not(x.t), types.Bool)
	case token.SUB:
		return mkSym(term.BVNeg(x.t), x.k)
	case token.XOR:
		return mkSym(term.BVNot(x.t), x.k)
	}
	panic(unsupported(fmt.Sprintf("symUnop %s", op)))
}

// symConv converts symbolic scalar x to basic kind dst.
func symConv(x symv, dst types.BasicKind) value {
	if dst == types.Bool || x.k == types.Bool {
		if dst == x.k {
			return x
		}
		panic(unsupported("symConv bool<->int"))
	}
	w := kindWidth(dst)
	if w == 0 {
		panic(unsupported(fmt.Sprintf("symConv to kind %v", dst)))
	}
	if x.t.S.K == term.KInt {
		sw := kindWidth(x.k)
		switch {
		case w == sw:
			return symv{x.t, dst}
		case w < sw:
			return mkSym(term.IntBin("mod", x.t, pow2(w)), dst)
		case !kindSigned(x.k):
			return symv{x.t, dst}
		default: // sign extension of the unsigned representation
			neg := term.IntCmp(">=", x.t, pow2(sw-1))
			return mkSym(term.Ite(neg, term.IntBin("+", x.t, term.IntBin("-", pow2(w), pow2(sw))), x.t), dst)
		}
	}
	return mkSym(term.Resize(x.t, w, kindSigned(x.k)), dst)
}

// boolTerm returns the term of a bool value (concrete or symbolic).
func boolTerm(v value) *term.Term {
	switch v := v.(type) {
	case bool:
		return term.BoolConst(v)
	case symv:
		return v.t
	}
	panic(unsupported(fmt.Sprintf("boolTerm of %T", v)))
}

// asIntTerm returns the mathematical value of integer v as an Int term.
func asIntTerm(v value) *term.Term {
	s := toSym(v)
	if s.t.S.K == term.KInt {
		if kindSigned(s.k) {
			return intSigned(s.t, kindWidth(s.k))
		}
		return s.t
	}
	if kindSigned(s.k) {
		return term.BV2Int(s.t)
	}
	return term.BV2Nat(s.t)
}

// concretize forces a scalar to a concrete value by forking over the solver's
// choice: it asks for a model value v, decides (x == v), and if the decision is
// "no" the path continues with x != v on another candidate. Used for symbolic
// indexes and lengths over small ranges.
func (fr *frame) concretizeInt(v value, lo, hi int64) int64 {
	s, ok := v.(symv)
	if !ok {
		return asInt64(v)
	}
	for c := lo; c <= hi; c++ {
		if fr.decide(boolTerm(symBinop(fr, token.EQL, s, fromInt64(c, s.k)))) {
			return c
		}
	}
	return hi + 1 // out of [lo,hi]
}

var _ = big.NewInt

// ---- Int ("bv-as-int") mode: machine integers as mathematical Ints in [0,2^w) ----

func pow2(w int) *term.Term { return term.IntConst(new(big.Int).Lsh(big.NewInt(1), uint(w))) }

func intSigned(t *term.Term, w int) *term.Term {
	return term.Ite(term.IntCmp(">=", t, pow2(w-1)), term.IntBin("-", t, pow2(w)), t)
}

// intOf converts a symv (BV const or Int term) into the unsigned Int representation.
func intOf(s symv) *term.Term {
	if s.t.S.K == term.KInt {
		return s.t
	}
	if s.t.IsConst() {
		return term.IntConst(s.t.Val)
	}
	return term.BV2Nat(s.t)
}

func symBinopInt(fr *frame, op token.Token, sx, sy symv) value {
	k := sx.k
	w := kindWidth(k)
	a, b := intOf(sx), intOf(sy)
	signed := kindSigned(k)
	m := pow2(w)
	zero := term.IntConstI(0)
	wrapAdd := func(t *term.Term) *term.Term { return term.Ite(term.IntCmp(">=", t, m), term.IntBin("-", t, m), t) }
	wrapSub := func(t *term.Term) *term.Term { return term.Ite(term.IntCmp("<", t, zero), term.IntBin("+", t, m), t) }
	sa, sb := a, b
	if signed {
		sa, sb = intSigned(a, w), intSigned(b, w)
	}
	switch op {
	case token.ADD:
		return mkSym(wrapAdd(term.IntBin("+", a, b)), k)
	case token.SUB:
		return mkSym(wrapSub(term.IntBin("-", a, b)), k)
	case token.MUL:
		return mkSym(term.IntBin("mod", term.IntBin("*", a, b), m), k)
	case token.QUO, token.REM:
		if fr.decide(term.Eq(b, zero)) {
			panic("runtime error: integer divide by zero")
		}
		if signed {
			panic(unsupported("signed division in Int mode"))
		}
		if op == token.QUO {
			return mkSym(term.IntBin("div", a, b), k)
		}
		return mkSym(term.IntBin("mod", a, b), k)
	case token.EQL:
		return mkSym(term.Eq(a, b), types.Bool)
	case token.NEQ:
		return mkSym(term.Not(term.Eq(a, b)), types.Bool)
	case token.LSS:
		return mkSym(term.IntCmp("<", sa, sb), types.Bool)
	case token.LEQ:
		return mkSym(term.IntCmp("<=", sa, sb), types.Bool)
	case token.GTR:
		return mkSym(term.IntCmp(">", sa, sb), types.Bool)
	case token.GEQ:
		return mkSym(term.IntCmp(">=", sa, sb), types.Bool)
	case token.SHL:
		if sy.t.IsConst() {
			n := sy.t.Val.Uint64()
			if n >= uint64(w) {
				return mkSym(zero, k)
			}
			return mkSym(term.IntBin("mod", term.IntBin("*", a, pow2(int(n))), m), k)
		}
	case token.SHR:
		if sy.t.IsConst() && !signed {
			n := sy.t.Val.Uint64()
			if n >= uint64(w) {
				return mkSym(zero, k)
			}
			return mkSym(term.IntBin("div", a, pow2(int(n))), k)
		}
	case token.AND:
		// mask 2^n-1
		if sy.t.IsConst() {
			v := new(big.Int).Add(sy.t.Val, big.NewInt(1))
			if v.BitLen() > 0 && new(big.Int).And(v, sy.t.Val).Sign() == 0 {
				return mkSym(term.IntBin("mod", a, term.IntConst(v)), k)
			}
		}
	}
	panic(unsupported(fmt.Sprintf("operator %s in Int mode", op)))
}
