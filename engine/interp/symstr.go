package interp

// Strings and byte slices with symbolic parts: segment lists.

import (
	"fmt"
	"go/types"
	"math/big"
	"os"
	"reflect"
	"strconv"
	"strings"

	"symgo/term"
)

const (
	sLit  = iota // literal bytes
	sByte        // one symbolic byte (BV8 term)
	sDec         // canonical decimal rendering of a non-negative Int term
	sBlob        // opaque codec output (json / protobuf Marshal)
)

type seg struct {
	kind int
	lit  string
	t    *term.Term
	blob *blobCell
}

// symStr is a string value with at least one non-literal segment.
type symStr struct{ segs []seg }

// byte-slice cells for non-byte segments
type decCell struct{ t *term.Term }

// blobCell is the opaque result of Marshal: a type-directed deep copy of the value.
type blobCell struct {
	codec string
	typ   types.Type
	snap  value
	id    int
}

func segsOf(v value) []seg {
	switch v := v.(type) {
	case string:
		if v == "" {
			return nil
		}
		return []seg{{kind: sLit, lit: v}}
	case *symStr:
		return v.segs
	}
	panic(unsupported(fmt.Sprintf("segsOf %T", v)))
}

func isStr(v value) bool {
	switch v.(type) {
	case string, *symStr:
		return true
	}
	return false
}

// mkStr normalises a segment list into a string value.
func mkStr(in []seg) value {
	var out []seg
	for _, s := range in {
		if s.kind == sByte && s.t.IsConst() {
			s = seg{kind: sLit, lit: string([]byte{byte(s.t.Val.Uint64())})}
		}
		if s.kind == sDec && s.t.IsConst() {
			s = seg{kind: sLit, lit: s.t.Val.String()}
		}
		if s.kind == sLit {
			if s.lit == "" {
				continue
			}
			if n := len(out); n > 0 && out[n-1].kind == sLit {
				out[n-1].lit += s.lit
				continue
			}
		}
		out = append(out, s)
	}
	if len(out) == 0 {
		return ""
	}
	if len(out) == 1 && out[0].kind == sLit {
		return out[0].lit
	}
	return &symStr{segs: out}
}

func strConcat(x, y value) value {
	return mkStr(append(append([]seg{}, segsOf(x)...), segsOf(y)...))
}

// fixedLen returns the byte length if every segment has a fixed length.
func fixedLen(segs []seg) (int, bool) {
	n := 0
	for _, s := range segs {
		switch s.kind {
		case sLit:
			n += len(s.lit)
		case sByte:
			n++
		default:
			return 0, false
		}
	}
	return n, true
}

var pow10 [21]*big.Int

func init() {
	p := big.NewInt(1)
	for i := range pow10 {
		pow10[i] = new(big.Int).Set(p)
		p.Mul(p, big.NewInt(10))
	}
}

// decLenTerm is the number of decimal digits of non-negative Int term t (as BV64 term).
func decLenTerm(t *term.Term) *term.Term {
	r := term.BVConstU(21, 64)
	for d := 20; d >= 1; d-- {
		r = term.Ite(term.IntCmp("<", t, term.IntConst(pow10[d])), term.BVConstU(uint64(d), 64), r)
	}
	return r
}

func strLen(v value) value {
	switch v := v.(type) {
	case string:
		return len(v)
	case *symStr:
		n := 0
		var sym *term.Term
		for _, s := range v.segs {
			switch s.kind {
			case sLit:
				n += len(s.lit)
			case sByte:
				n++
			case sDec:
				l := decLenTerm(s.t)
				if sym == nil {
					sym = l
				} else {
					sym = term.BVBin("bvadd", sym, l)
				}
			case sBlob:
				n++
			}
		}
		if sym == nil {
			return n
		}
		return mkSym(term.BVBin("bvadd", sym, term.BVConstU(uint64(n), 64)), types.Int)
	}
	panic(fmt.Sprintf("strLen %T", v))
}

// byteAt returns the byte value at fixed offset i, if the prefix up to i is fixed-length.
func byteAt(segs []seg, i int) (value, bool) {
	for _, s := range segs {
		switch s.kind {
		case sLit:
			if i < len(s.lit) {
				return s.lit[i], true
			}
			i -= len(s.lit)
		case sByte:
			if i == 0 {
				return symv{s.t, types.Uint8}, true
			}
			i--
		default:
			return nil, false
		}
	}
	return nil, false
}

func strIndex(fr *frame, s *symStr, idx value) value {
	n, fixed := fixedLen(s.segs)
	if fixed {
		i := fr.indexCheck(idx, n)
		b, _ := byteAt(s.segs, i)
		return b
	}
	if isSym(idx) {
		panic(unsupported("symbolic index into variable-length symbolic string"))
	}
	i := int(asInt64(idx))
	if b, ok := byteAt(s.segs, i); ok {
		return b
	}
	panic(unsupported("index into variable-length part of symbolic string"))
}

// splitAt cuts a fixed-length prefix [0:i) off segs.
func splitAt(segs []seg, i int) (a, b []seg, ok bool) {
	for k, s := range segs {
		if i == 0 {
			return a, segs[k:], true
		}
		switch s.kind {
		case sLit:
			if i < len(s.lit) {
				a = append(a, seg{kind: sLit, lit: s.lit[:i]})
				b = append([]seg{{kind: sLit, lit: s.lit[i:]}}, segs[k+1:]...)
				return a, b, true
			}
			a = append(a, s)
			i -= len(s.lit)
		case sByte:
			a = append(a, s)
			i--
		default:
			return nil, nil, false
		}
	}
	if i == 0 {
		return a, nil, true
	}
	return nil, nil, false
}

func strSlice(fr *frame, s *symStr, lo, hi value) value {
	segs := s.segs
	n, fixed := fixedLen(segs)
	l := 0
	if lo != nil {
		l = int(fr.concretizeInt(lo, 0, int64(maxInt(n, 64))))
	}
	if hi == nil {
		_, rest, ok := splitAt(segs, l)
		if !ok {
			panic(unsupported("slice of symbolic string at variable offset"))
		}
		return mkStr(rest)
	}
	if !fixed {
		// hi given: supported when the cut falls into the fixed prefix
		h := int(fr.concretizeInt(hi, 0, 1<<20))
		pre, _, ok := splitAt(segs, h)
		if !ok {
			panic(unsupported("slice of variable-length symbolic string"))
		}
		_, rest, ok := splitAt(pre, l)
		if !ok {
			panic("runtime error: slice bounds out of range")
		}
		return mkStr(rest)
	}
	h := int(fr.concretizeInt(hi, 0, int64(n)))
	if l < 0 || h > n || l > h {
		panic(fmt.Sprintf("runtime error: slice bounds out of range [%d:%d] with length %d", l, h, n))
	}
	pre, _, _ := splitAt(segs, h)
	_, rest, _ := splitAt(pre, l)
	return mkStr(rest)
}

func maxInt(a, b int) int {
	if a > b {
		return a
	}
	return b
}

// ---- tokens for alignment ----

type tok struct {
	kind int // sLit => one const byte c; sByte; sDec; sBlob
	c    byte
	t    *term.Term
	blob *blobCell
}

func toks(segs []seg) []tok {
	var out []tok
	for _, s := range segs {
		switch s.kind {
		case sLit:
			for i := 0; i < len(s.lit); i++ {
				out = append(out, tok{kind: sLit, c: s.lit[i]})
			}
		case sByte:
			out = append(out, tok{kind: sByte, t: s.t})
		case sDec:
			out = append(out, tok{kind: sDec, t: s.t})
		case sBlob:
			out = append(out, tok{kind: sBlob, blob: s.blob})
		}
	}
	return out
}

func isDigit(c byte) bool { return c >= '0' && c <= '9' }

// strEqTerm builds the Bool term for string equality.
func strEqTerm(fr *frame, x, y value) *term.Term {
	a, b := toks(segsOf(x)), toks(segsOf(y))
	var cs []*term.Term
	i, j := 0, 0
	digitFollows := func(ts []tok, k int) bool {
		if k >= len(ts) {
			return false
		}
		switch ts[k].kind {
		case sLit:
			return isDigit(ts[k].c)
		case sBlob:
			return false
		}
		return true // symbolic byte or another Dec may start with a digit
	}
	for i < len(a) && j < len(b) {
		p, q := a[i], b[j]
		switch {
		case p.kind == sLit && q.kind == sLit:
			if p.c != q.c {
				return term.False
			}
			i, j = i+1, j+1
		case (p.kind == sLit || p.kind == sByte) && (q.kind == sLit || q.kind == sByte):
			pt, qt := p.t, q.t
			if p.kind == sLit {
				pt = term.BVConstU(uint64(p.c), 8)
			}
			if q.kind == sLit {
				qt = term.BVConstU(uint64(q.c), 8)
			}
			cs = append(cs, term.Eq(pt, qt))
			i, j = i+1, j+1
		case p.kind == sDec && q.kind == sDec:
			if digitFollows(a, i+1) || digitFollows(b, j+1) {
				panic(unsupported("string equality: decimal hole followed by a possible digit"))
			}
			cs = append(cs, term.Eq(p.t, q.t))
			i, j = i+1, j+1
		case p.kind == sDec || q.kind == sDec:
			// Dec against literal digits
			dec, other, k := p, b, j
			swapped := false
			if q.kind == sDec {
				dec, other, k = q, a, i
				swapped = true
			}
			if digitFollows(map[bool][]tok{false: a, true: b}[swapped], map[bool]int{false: i, true: j}[swapped]+1) {
				panic(unsupported("string equality: decimal hole followed by a possible digit"))
			}
			if other[k].kind != sLit {
				panic(unsupported("string equality: decimal hole against symbolic byte/blob"))
			}
			e := k
			for e < len(other) && other[e].kind == sLit && isDigit(other[e].c) {
				e++
			}
			if e < len(other) && other[e].kind != sLit && other[e].kind != sBlob {
				panic(unsupported("string equality: literal digits followed by symbolic byte"))
			}
			if e == k {
				return term.False // non-digit where a number must start
			}
			ds := make([]byte, 0, e-k)
			for _, t := range other[k:e] {
				ds = append(ds, t.c)
			}
			if len(ds) > 1 && ds[0] == '0' {
				return term.False // not canonical
			}
			n, _ := new(big.Int).SetString(string(ds), 10)
			cs = append(cs, term.Eq(dec.t, term.IntConst(n)))
			if swapped {
				i, j = e, j+1
			} else {
				i, j = i+1, e
			}
		case p.kind == sBlob && q.kind == sBlob:
			cs = append(cs, blobEqTerm(fr, p.blob, q.blob))
			i, j = i+1, j+1
		default:
			// blob against literal/symbolic bytes: decided only where the encoding's first
			// byte already rules the literal out (JSON of a struct never equals "begin_failure")
			bl, other, k := p, b, j
			if q.kind == sBlob {
				bl, other, k = q, a, i
			}
			if bl.kind == sBlob && other[k].kind == sLit {
				if fc := jsonFirstChars(fr, bl.blob); fc != "" && !strings.ContainsRune(fc, rune(other[k].c)) {
					return term.False
				}
				if fb := protoFirstBytes(bl.blob); fb != nil && !fb[other[k].c] {
					return term.False
				}
				if os.Getenv("SYMGO_DEBUG") == "blob" {
					fmt.Fprintf(os.Stderr, "blob-vs-literal undecided: codec=%s typ=%v first=%q set=%v\n", bl.blob.codec, bl.blob.typ, other[k].c, protoFirstBytes(bl.blob))
				}
			}
			panic(unsupported("string equality: opaque codec output against other bytes"))
		}
		if len(cs) > 0 && cs[len(cs)-1].IsFalse() {
			return term.False
		}
	}
	if i != len(a) || j != len(b) {
		// leftover: a Dec has >= 1 digit, bytes have length 1: lengths differ
		return term.False
	}
	return term.And(cs...)
}

func blobEqTerm(fr *frame, a, b *blobCell) *term.Term {
	if a == b {
		return term.True
	}
	if a.codec != b.codec || !types.Identical(a.typ, b.typ) {
		return term.False
	}
	return deepEqTerm(fr, a.typ, a.snap, b.snap, 0)
}

// strLessTerm: lexicographic x < y for fixed-length strings.
func strLessTerm(fr *frame, x, y value) *term.Term {
	a, b := toks(segsOf(x)), toks(segsOf(y))
	// opaque codec output: the byte order of two encodings is unknown to the engine. A stated
	// approximation (it only fixes the ORDER in which equal-ranked data is listed, e.g. the result
	// list of a prefix query): encodings are ordered by creation, literals come before them.
	if len(a) == 1 && len(b) == 1 && a[0].kind == sBlob && b[0].kind == sBlob {
		return term.BoolConst(a[0].blob.id < b[0].blob.id)
	}
	if len(a) == 1 && a[0].kind == sBlob && allLit(b) {
		return term.False
	}
	if len(b) == 1 && b[0].kind == sBlob && allLit(a) {
		return term.True
	}
	for _, t := range append(append([]tok{}, a...), b...) {
		if t.kind == sDec || t.kind == sBlob {
			panic(unsupported("ordering comparison of variable-length symbolic strings"))
		}
	}
	bt := func(t tok) *term.Term {
		if t.kind == sLit {
			return term.BVConstU(uint64(t.c), 8)
		}
		return t.t
	}
	// build from the end
	n := len(a)
	if len(b) < n {
		n = len(b)
	}
	res := term.BoolConst(len(a) < len(b))
	for k := n - 1; k >= 0; k-- {
		p, q := bt(a[k]), bt(b[k])
		res = term.Ite(term.BVCmp("bvult", p, q), term.True, term.Ite(term.Eq(p, q), res, term.False))
	}
	return res
}

// strToBytes converts a string value to a []byte slice value.
func strToBytes(v value) []value {
	segs := segsOf(v)
	res := []value{}
	for _, s := range segs {
		switch s.kind {
		case sLit:
			for i := 0; i < len(s.lit); i++ {
				res = append(res, s.lit[i])
			}
		case sByte:
			res = append(res, symv{s.t, types.Uint8})
		case sDec:
			res = append(res, decCell{s.t})
		case sBlob:
			res = append(res, s.blob)
		}
	}
	return res
}

// bytesToStr converts a []byte slice value to a string value.
func bytesToStr(x []value) value {
	var segs []seg
	var lit []byte
	flush := func() {
		if len(lit) > 0 {
			segs = append(segs, seg{kind: sLit, lit: string(lit)})
			lit = nil
		}
	}
	for _, e := range x {
		switch e := e.(type) {
		case uint8:
			lit = append(lit, e)
		case symv:
			flush()
			segs = append(segs, seg{kind: sByte, t: e.t})
		case decCell:
			flush()
			segs = append(segs, seg{kind: sDec, t: e.t})
		case *blobCell:
			flush()
			segs = append(segs, seg{kind: sBlob, blob: e})
		default:
			panic(unsupported(fmt.Sprintf("bytesToStr: element %T", e)))
		}
	}
	flush()
	return mkStr(segs)
}

// concBytes extracts concrete bytes from a []byte value; ok=false if any symbolic.
func concBytes(x []value) ([]byte, bool) {
	out := make([]byte, len(x))
	for i, e := range x {
		b, ok := e.(uint8)
		if !ok {
			return nil, false
		}
		out[i] = b
	}
	return out, true
}

func bytesValue(b []byte) []value {
	if b == nil {
		return []value(nil)
	}
	out := make([]value, len(b))
	for i, c := range b {
		out[i] = c
	}
	return out
}

// decSeg renders integer value v (concrete or symbolic) in base 10 as segments.
func decSegs(fr *frame, v value) []seg {
	if s, ok := v.(symv); ok {
		it := asIntTerm(s)
		if kindSigned(s.k) {
			if fr.decide(term.BVCmp("bvslt", s.t, term.BVConstU(0, kindWidth(s.k)))) {
				return []seg{{kind: sLit, lit: "-"}, {kind: sDec, t: term.IntNeg(it)}}
			}
		}
		return []seg{{kind: sDec, t: it}}
	}
	if bv, ok := v.(bigval); ok {
		if bv.t.IsConst() {
			return []seg{{kind: sLit, lit: bv.t.Val.String()}}
		}
		if fr.decide(term.IntCmp("<", bv.t, term.IntConstI(0))) {
			return []seg{{kind: sLit, lit: "-"}, {kind: sDec, t: term.IntNeg(bv.t)}}
		}
		return []seg{{kind: sDec, t: bv.t}}
	}
	return []seg{{kind: sLit, lit: fmt.Sprintf("%d", v)}}
}

// parseDec parses a string value as a decimal integer: returns the Int term.
// ok=false means "not a number" (concrete); symbolic shapes other than a
// single (optionally negated) Dec are unsupported.
func parseDec(v value) (*term.Term, bool) {
	switch v := v.(type) {
	case string:
		n, ok := new(big.Int).SetString(v, 10)
		if !ok || strings.HasPrefix(v, "+") && false {
			return nil, false
		}
		return term.IntConst(n), true
	case *symStr:
		if len(v.segs) == 1 && v.segs[0].kind == sDec {
			return v.segs[0].t, true
		}
		if len(v.segs) == 2 && v.segs[0].kind == sLit && v.segs[0].lit == "-" && v.segs[1].kind == sDec {
			return term.IntNeg(v.segs[1].t), true
		}
		// literal around a symbolic byte etc.
		hasDec := false
		for _, s := range v.segs {
			if s.kind == sDec {
				hasDec = true
			}
			if s.kind == sLit {
				for i := 0; i < len(s.lit); i++ {
					if !isDigit(s.lit[i]) && !(i == 0 && s.lit[i] == '-') {
						if !hasDec || true {
							// contains a definite non-digit: not a number
							return nil, false
						}
					}
				}
			}
		}
		panic(unsupported("parse of symbolic string as number"))
	}
	panic(unsupported(fmt.Sprintf("parseDec %T", v)))
}

// strSplit splits on a separator that contains no digit and no symbolic part.
func strSplit(fr *frame, v value, sep string, n int) []value {
	if s, ok := v.(string); ok {
		parts := strings.SplitN(s, sep, n)
		out := make([]value, len(parts))
		for i, p := range parts {
			out[i] = p
		}
		return out
	}
	if sep == "" {
		panic(unsupported("split of symbolic string on empty separator"))
	}
	for i := 0; i < len(sep); i++ {
		if isDigit(sep[i]) {
			panic(unsupported("split of symbolic string on separator containing a digit"))
		}
	}
	ss := v.(*symStr)
	var out []value
	var cur []seg
	segs := ss.segs
	for k := 0; k < len(segs); k++ {
		s := segs[k]
		switch s.kind {
		case sLit:
			rest := s.lit
			for {
				if n > 0 && len(out) == n-1 {
					cur = append(cur, seg{kind: sLit, lit: rest})
					break
				}
				idx := strings.Index(rest, sep)
				if idx < 0 {
					cur = append(cur, seg{kind: sLit, lit: rest})
					break
				}
				cur = append(cur, seg{kind: sLit, lit: rest[:idx]})
				out = append(out, mkStr(cur))
				cur = nil
				rest = rest[idx+len(sep):]
			}
		case sByte:
			if len(sep) == 1 && !(n > 0 && len(out) == n-1) {
				if fr.decide(term.Eq(s.t, term.BVConstU(uint64(sep[0]), 8))) {
					out = append(out, mkStr(cur))
					cur = nil
					continue
				}
			} else if len(sep) > 1 {
				// a symbolic byte could take part in a multi-byte separator: exclude by decision
				for i := 0; i < len(sep); i++ {
					if fr.decide(term.Eq(s.t, term.BVConstU(uint64(sep[i]), 8))) {
						panic(unsupported("symbolic byte equal to part of a multi-byte separator"))
					}
				}
			}
			cur = append(cur, s)
		default:
			cur = append(cur, s)
		}
	}
	out = append(out, mkStr(cur))
	return out
}

// jsonFirstChars returns the bytes a JSON blob of this type can start with ("" = unknown).
// protoFirstBytes: the bytes a (non-empty) protobuf encoding of the blob's message type can start
// with - the first byte of the tag of any of its fields (nil = not known).
func protoFirstBytes(b *blobCell) map[byte]bool {
	if b.codec != "proto" || b.typ == nil {
		return nil
	}
	t := b.typ
	if p, ok := t.Underlying().(*types.Pointer); ok {
		t = p.Elem()
	}
	st, ok := t.Underlying().(*types.Struct)
	if !ok {
		return nil
	}
	out := map[byte]bool{}
	for i := 0; i < st.NumFields(); i++ {
		tag := reflect.StructTag(st.Tag(i)).Get("protobuf")
		if tag == "" {
			if strings.HasPrefix(st.Field(i).Name(), "XXX_") {
				continue
			}
			return nil
		}
		parts := strings.Split(tag, ",")
		if len(parts) < 2 {
			return nil
		}
		num, err := strconv.Atoi(parts[1])
		if err != nil {
			return nil
		}
		wt := map[string]int{"varint": 0, "zigzag32": 0, "zigzag64": 0, "fixed64": 1, "bytes": 2, "group": 3, "fixed32": 5}
		w, ok := wt[parts[0]]
		if !ok {
			return nil
		}
		key := num<<3 | w
		if key < 128 {
			out[byte(key)] = true
		} else {
			out[byte(key&0x7f)|0x80] = true
		}
		// a packed repeated scalar field is written with wire type 2
		if sl, ok := st.Field(i).Type().Underlying().(*types.Slice); ok && w != 2 {
			if _, isBasic := sl.Elem().Underlying().(*types.Basic); isBasic {
				out[byte((num<<3|2)&0x7f)|map[bool]byte{true: 0x80, false: 0}[num<<3|2 >= 128]] = true
			}
		}
	}
	return out
}

func jsonFirstChars(fr *frame, b *blobCell) string {
	if b.codec != "json" || b.typ == nil {
		return ""
	}
	t := b.typ
	for depth := 0; depth < 4; depth++ {
		for _, m := range []string{"MarshalJSON", "MarshalText"} {
			if fr.i.prog.MethodSets.MethodSet(t).Lookup(nil, m) != nil || fr.i.prog.MethodSets.MethodSet(types.NewPointer(t)).Lookup(nil, m) != nil {
				return ""
			}
		}
		switch u := t.Underlying().(type) {
		case *types.Pointer:
			t = u.Elem()
			continue
		case *types.Struct, *types.Map:
			return "{n"
		case *types.Slice:
			if bt, ok := u.Elem().Underlying().(*types.Basic); ok && bt.Kind() == types.Uint8 {
				return "\"n"
			}
			return "[n"
		case *types.Array:
			return "["
		case *types.Basic:
			switch {
			case u.Info()&types.IsString != 0:
				return "\""
			case u.Info()&types.IsBoolean != 0:
				return "tf"
			case u.Info()&types.IsNumeric != 0:
				return "-0123456789"
			}
		}
		return ""
	}
	return ""
}

func allLit(ts []tok) bool {
	for _, t := range ts {
		if t.kind != sLit {
			return false
		}
	}
	return true
}
