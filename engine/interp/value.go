// Copyright 2013 The Go Authors. All rights reserved.
// Use of this source code is governed by a BSD-style
// license that can be found in the LICENSE file.

package interp

// Values
//
// All interpreter values are "boxed" in the empty interface, value.
// The range of possible dynamic types within value are:
//
// - bool, numbers, string (concrete)
// - symv (symbolic scalar), *symStr (string with symbolic parts), bigval (math/big.Int)
// - *omap --- maps
// - *chanv --- channels
// - []value --- slices; byte slices may hold uint8, symv, decCell, *blobCell
// - iface --- interfaces.
// - structure --- structs.  Fields are ordered and accessed by numeric indices.
// - array --- arrays.
// - *value --- pointers.  Careful: *value is a distinct type from *array etc.
// - *ssa.Function, *ssa.Builtin, *closure --- functions.
// - tuple --- as returned by Return, Next, "value,ok" modes, etc.
// - iter --- iterators from 'range' over map or string.
// - rtype -- the interpreter's concrete implementation of reflect.Type
// - **deferred -- the address of a frame's defer stack for a Defer._Stack.

import (
	"bytes"
	"fmt"
	"go/types"
	"io"
	"strings"

	"golang.org/x/tools/go/ssa"
)

type value interface{}

type tuple []value

type array []value

type iface struct {
	t types.Type // never an "untyped" type
	v value
}

type structure []value

// For map, array, *array, slice, string or channel.
type iter interface {
	// next returns a Tuple (key, value, ok).
	// key and value are unaliased, e.g. copies of the sequence element.
	next() tuple
}

type closure struct {
	Fn  *ssa.Function
	Env []value
}

type bad struct{}

type rtype struct {
	t types.Type
}

// nil-tolerant variant of types.Identical.
func sameType(x, y types.Type) bool {
	if x == nil {
		return y == nil
	}
	return y != nil && types.Identical(x, y)
}

// load returns the value of type T in *addr.
func load(T types.Type, addr *value) value {
	switch T := T.Underlying().(type) {
	case *types.Struct:
		v, ok := (*addr).(structure)
		if !ok {
			return *addr // opaque replacement (bigval etc.)
		}
		a := make(structure, len(v))
		for i := range a {
			a[i] = load(T.Field(i).Type(), &v[i])
		}
		return a
	case *types.Array:
		v := (*addr).(array)
		a := make(array, len(v))
		for i := range a {
			a[i] = load(T.Elem(), &v[i])
		}
		return a
	default:
		return *addr
	}
}

// store stores value v of type T into *addr.
func store(T types.Type, addr *value, v value) {
	if addr == nil {
		panic("runtime error: invalid memory address or nil pointer dereference")
	}
	switch T := T.Underlying().(type) {
	case *types.Struct:
		lhs, ok1 := (*addr).(structure)
		rhs, ok2 := v.(structure)
		if !ok1 || !ok2 || len(lhs) != len(rhs) {
			*addr = v
			return
		}
		for i := range lhs {
			store(T.Field(i).Type(), &lhs[i], rhs[i])
		}
	case *types.Array:
		lhs, ok1 := (*addr).(array)
		rhs, ok2 := v.(array)
		if !ok1 || !ok2 {
			*addr = v
			return
		}
		for i := range lhs {
			store(T.Elem(), &lhs[i], rhs[i])
		}
	default:
		*addr = v
	}
}

// Prints in the style of built-in println.
func writeValue(buf *bytes.Buffer, v value) {
	switch v := v.(type) {
	case nil, bool, int, int8, int16, int32, int64, uint, uint8, uint16, uint32, uint64, uintptr, float32, float64, complex64, complex128, string:
		fmt.Fprintf(buf, "%v", v)

	case symv:
		fmt.Fprintf(buf, "<sym %s>", v.t)
	case *symStr:
		buf.WriteString("<symstr")
		for _, s := range v.segs {
			switch s.kind {
			case sLit:
				fmt.Fprintf(buf, " %q", s.lit)
			case sByte:
				fmt.Fprintf(buf, " byte(%s)", s.t)
			case sDec:
				fmt.Fprintf(buf, " dec(%s)", s.t)
			case sBlob:
				fmt.Fprintf(buf, " blob(%s ", s.blob.typ)
				writeValue(buf, s.blob.snap)
				buf.WriteString(")")
			}
		}
		buf.WriteString(">")
	case bigval:
		fmt.Fprintf(buf, "<big %s>", v.t)
	case *blobCell:
		fmt.Fprintf(buf, "<blob %s %s ", v.codec, v.typ)
		writeValue(buf, v.snap)
		buf.WriteString(">")
	case decCell:
		fmt.Fprintf(buf, "<dec %s>", v.t)

	case *omap:
		buf.WriteString("map[")
		if v != nil {
			for i := range v.keys {
				if i > 0 {
					buf.WriteString(" ")
				}
				writeValue(buf, v.keys[i])
				buf.WriteString(":")
				writeValue(buf, v.vals[i])
			}
		}
		buf.WriteString("]")

	case *chanv:
		fmt.Fprintf(buf, "%p", v) // (an address)

	case *value:
		if v == nil {
			buf.WriteString("<nil>")
		} else {
			fmt.Fprintf(buf, "%p", v)
		}

	case iface:
		fmt.Fprintf(buf, "(%s, ", v.t)
		writeValue(buf, v.v)
		buf.WriteString(")")

	case structure:
		buf.WriteString("{")
		for i, e := range v {
			if i > 0 {
				buf.WriteString(" ")
			}
			writeValue(buf, e)
		}
		buf.WriteString("}")

	case array:
		buf.WriteString("[")
		for i, e := range v {
			if i > 0 {
				buf.WriteString(" ")
			}
			writeValue(buf, e)
		}
		buf.WriteString("]")

	case []value:
		buf.WriteString("[")
		for i, e := range v {
			if i > 0 {
				buf.WriteString(" ")
			}
			writeValue(buf, e)
		}
		buf.WriteString("]")

	case *ssa.Function, *ssa.Builtin, *closure:
		fmt.Fprintf(buf, "%p", v) // (an address)

	case rtype:
		buf.WriteString(v.t.String())

	case tuple:
		// Unreachable in well-formed Go programs
		buf.WriteString("(")
		for i, e := range v {
			if i > 0 {
				buf.WriteString(", ")
			}
			writeValue(buf, e)
		}
		buf.WriteString(")")

	default:
		fmt.Fprintf(buf, "<%T>", v)
	}
}

// Implements printing of Go values in the style of built-in println.
func toString(v value) string {
	var b bytes.Buffer
	writeValue(&b, v)
	return b.String()
}

// ------------------------------------------------------------------------
// Iterators

type stringIter struct {
	*strings.Reader
	i int
}

func (it *stringIter) next() tuple {
	okv := make(tuple, 3)
	ch, n, err := it.ReadRune()
	ok := err != io.EOF
	okv[0] = ok
	if ok {
		okv[1] = it.i
		okv[2] = ch
	}
	it.i += n
	return okv
}
