package interp

// Program loading (regenerated from the repository's working tree on every run)
// and the per-path entry point.

import (
	"symgo/term"
	"runtime"
	"crypto/sha256"
	"encoding/hex"
	"fmt"
	"go/types"
	"io"
	"os"
	"sort"
	"strings"
	"sync"

	"golang.org/x/tools/go/packages"
	"golang.org/x/tools/go/ssa"
	"golang.org/x/tools/go/ssa/ssautil"

	"symgo/solver"
)

var tracew io.Writer = os.Stderr

type Shared struct {
	Prog           *ssa.Program
	Pkgs           []*packages.Package
	SSAPkgs        []*ssa.Package
	reflectPackage *ssa.Package
	rtypeMethods   methodSet
	errorMethods   methodSet
	sizes          types.Sizes
	buildMu        sync.Mutex
	built          map[*ssa.Package]bool
	builtFast      sync.Map
	runtimeErrStr  types.Type
}

// Load type-checks the requested packages of the module at dir (with the overlay
// files injected) and creates SSA for the whole dependency closure; function
// bodies are built lazily per package.
func Load(dir string, patterns []string, overlay map[string][]byte, tags string, env []string) (*Shared, error) {
	cfg := &packages.Config{
		Mode:    packages.LoadAllSyntax,
		Dir:     dir,
		Overlay: overlay,
		Env:     append(os.Environ(), env...),
	}
	if tags != "" {
		cfg.BuildFlags = []string{"-tags=" + tags}
	}
	pkgs, err := packages.Load(cfg, patterns...)
	if err != nil {
		return nil, err
	}
	var errs []string
	packages.Visit(pkgs, nil, func(p *packages.Package) {
		for _, e := range p.Errors {
			if strings.HasPrefix(p.PkgPath, "github.com/meshplus/bitxhub") {
				errs = append(errs, e.Error())
			}
		}
	})
	if len(errs) > 0 {
		return nil, fmt.Errorf("load errors:\n%s", strings.Join(errs, "\n"))
	}
	prog, ssaPkgs := ssautil.AllPackages(pkgs, ssa.InstantiateGenerics|ssa.SanityCheckFunctions&0)
	sh := &Shared{Prog: prog, Pkgs: pkgs, SSAPkgs: ssaPkgs, built: map[*ssa.Package]bool{}}
	sh.sizes = types.SizesFor("gc", "amd64")
	initReflect(sh)
	if rt := prog.ImportedPackage("runtime"); rt != nil {
		sh.runtimeErrStr = rt.Type("errorString").Object().Type()
	}
	return sh, nil
}

func (sh *Shared) buildPkg(p *ssa.Package) {
	if _, ok := sh.builtFast.Load(p); ok {
		return
	}
	sh.buildMu.Lock()
	defer sh.buildMu.Unlock()
	if !sh.built[p] {
		p.Build()
		sh.built[p] = true
	}
	sh.builtFast.Store(p, true)
}

// Harnesses returns the functions named ZZH_* in the initial packages, sorted by name.
func (sh *Shared) Harnesses() []*ssa.Function {
	var out []*ssa.Function
	for _, p := range sh.SSAPkgs {
		if p == nil {
			continue
		}
		for name, m := range p.Members {
			if f, ok := m.(*ssa.Function); ok && strings.HasPrefix(name, "ZZH_") {
				out = append(out, f)
			}
		}
	}
	sort.Slice(out, func(i, j int) bool { return out[i].Name() < out[j].Name() })
	return out
}

func isHarnessFn(fn *ssa.Function) bool {
	for f := fn; f != nil; f = f.Parent() {
		if strings.HasPrefix(f.Name(), "ZZH_") || strings.HasPrefix(f.Name(), "zz") {
			return true
		}
		if f.Pkg != nil && strings.HasSuffix(f.Pkg.Pkg.Path(), "/zzverif") {
			return true
		}
		if pos := f.Pos(); pos.IsValid() && f.Prog != nil {
			if strings.Contains(f.Prog.Fset.Position(pos).Filename, "zz_verif") {
				return true
			}
		}
	}
	return false
}

// SourceHashes returns sha256 of each source file that contributed an executed function.
func (sh *Shared) SourceHashes(funcs map[string]bool) map[string]string {
	files := map[string]bool{}
	for _, p := range sh.SSAPkgs {
		if p == nil {
			continue
		}
		for _, m := range p.Members {
			if f, ok := m.(*ssa.Function); ok && funcs[f.String()] {
				files[sh.Prog.Fset.Position(f.Pos()).Filename] = true
			}
			if t, ok := m.(*ssa.Type); ok {
				ms := sh.Prog.MethodSets.MethodSet(types.NewPointer(t.Type()))
				for i := 0; i < ms.Len(); i++ {
					if f := sh.Prog.MethodValue(ms.At(i)); f != nil && funcs[f.String()] {
						files[sh.Prog.Fset.Position(f.Pos()).Filename] = true
					}
				}
			}
		}
	}
	out := map[string]string{}
	for f := range files {
		if f == "" {
			continue
		}
		b, err := os.ReadFile(f)
		if err != nil {
			continue
		}
		h := sha256.Sum256(b)
		out[f] = hex.EncodeToString(h[:8])
	}
	return out
}

type RunOpts struct {
	KnownLabels map[string][]string
	MaxSteps int
	WantWit  bool
	Trace    bool
	MaxPerm  int
}

// RunPath executes harness h along the decision prefix and returns what happened.
func (sh *Shared) RunPath(h *ssa.Function, prefix []Decision, s *solver.Solver, known map[string]bool, o RunOpts) (res *PathResult) {
	ps := NewPathState(prefix, s, known)
	if o.MaxSteps > 0 {
		ps.MaxSteps = o.MaxSteps
	}
	ps.WantWit = o.WantWit
	ps.KnownLabels = o.KnownLabels
	i := &interpreter{
		prog:     sh.Prog,
		globals:  make(map[*ssa.Global]*value),
		pkgInit:  make(map[*ssa.Package]bool),
		shared:   sh,
		sizes:    sh.sizes,
		ps:       ps,
		maxPerm:  4,
		syncMaps: map[*value]*omap{},
	}
	if o.MaxPerm > 0 {
		i.maxPerm = o.MaxPerm
	}
	if o.Trace {
		i.mode |= EnableTracing
	}
	i.runtimeErrorString = sh.runtimeErrStr
	i.sched = newScheduler(i)
	res = &ps.Res
	defer func() {
		r := recover()
		i.sched.shutdown()
		switch r := r.(type) {
		case nil:
			if res.Status == "" {
				res.Status = "ok"
			}
		case *abortPath:
			res.Status, res.Reason = r.Kind, r.Reason
			if r.Kind == "goroutine-panic" {
				res.Status = "crash"
				recordCrash(i, "goroutine: "+r.Reason)
			}
			if r.Kind == "block" {
				// every goroutine of the code under test waits for something nobody will ever do:
				// in the node this is a wedge (the second implicit assertion of every harness)
				res.Status = "wedge"
				recordImplicit(i, WedgeLabel, r.Reason)
			}
			if os.Getenv("SYMGO_DEBUG") != "" && r.Kind == "goroutine-panic" {
				buf := make([]byte, 6000)
				buf = buf[:runtime.Stack(buf, false)]
				fmt.Fprintf(os.Stderr, "abort at path end: %v\n%s\n", r, buf)
			}
		default:
			// an unrecovered panic of the code under test: in the node the process dies. This
			// is the implicit assertion of every harness (label crash.unrecovered-panic).
			if !isTargetPanic(r) {
				// a failure of the engine itself (not of the code under test): never a verdict
				res.Status, res.Reason = "engine-error", panicString(r)
				break
			}
			res.Status, res.Reason = "crash", panicString(r)
			recordCrash(i, res.Reason)
		}
		func() {
			defer func() {
				if r := recover(); r != nil {
					res.Unknowns++
				}
			}()
			ps.finish()
		}()
	}()
	sh.buildPkg(h.Pkg)
	root := &frame{i: i, g: i.sched.main}
	call(i, root, h.Pos(), h, nil)
	i.sched.quiesce()
	if len(i.sched.crashed) > 0 {
		res.Status = "crash"
		res.Reason = "goroutine: " + panicString(i.sched.crashed[0].panicv)
		recordCrash(i, res.Reason)
	}
	return res
}

// isTargetPanic tells panics of the interpreted program (explicit panic(...), Go run-time errors
// the interpreter raises on its behalf) from failures of the engine's own code.
func isTargetPanic(r interface{}) bool {
	switch r := r.(type) {
	case targetPanic:
		return true
	case string:
		for _, p := range []string{"runtime error:", "interface conversion:", "send on closed channel", "close of ", "sync:", "assignment to entry in nil map",
			"comparing uncomparable", "reflect:", "reflect.", "all goroutines are asleep", "makeslice", "slice bounds", "index out of range", "integer divide by zero", "negative shift"} {
			if strings.HasPrefix(r, p) {
				return true
			}
		}
		return false
	case runtime.Error:
		// raised by the Go run time inside the engine while it evaluates a target operation with
		// concrete operands (index, conversion, nil map): these mirror the target's own run-time errors
		msg := r.Error()
		return strings.Contains(msg, "index out of range") || strings.Contains(msg, "slice bounds out of range") ||
			strings.Contains(msg, "nil map") || strings.Contains(msg, "divide by zero")
	}
	return false
}

// CrashLabel is the implicit assertion of every harness.
const CrashLabel = "crash.unrecovered-panic"

// WedgeLabel: the code under test must not block forever (deadlock, a wait nobody ends).
const WedgeLabel = "wedge.blocks-forever"

func recordCrash(i *interpreter, reason string) { recordImplicit(i, CrashLabel, reason) }

func recordImplicit(i *interpreter, label string, reason string) {
	defer func() {
		if r := recover(); r != nil {
			if ap, ok := r.(*abortPath); ok && ap.Kind == "assert-end" {
				return
			}
			i.ps.Res.Unknowns++
		}
	}()
	(&frame{i: i, g: i.sched.main}).assertProp(label, term.False, reason)
}

// globalAddr returns the address of global g, initialising its package on first use.
func (i *interpreter) globalAddr(fr *frame, g *ssa.Global) *value {
	if a, ok := i.globals[g]; ok {
		return a
	}
	i.ensurePkg(fr, g.Pkg)
	if a, ok := i.globals[g]; ok {
		return a
	}
	panic(unsupported("global without storage: " + g.String()))
}

func (i *interpreter) ensurePkg(fr *frame, pkg *ssa.Package) {
	if i.pkgInit[pkg] {
		return
	}
	i.pkgInit[pkg] = true
	for _, m := range pkg.Members {
		if g, ok := m.(*ssa.Global); ok {
			cell := zero(mustDeref(g.Type()))
			i.globals[g] = &cell
		}
	}
	i.shared.buildPkg(pkg)
	if skipInit(pkg.Pkg.Path()) {
		return
	}
	initFn := pkg.Func("init")
	if initFn == nil || initFn.Blocks == nil {
		return
	}
	// run the synthesized initialiser tolerantly, outside step accounting of the path
	savedSteps := 0
	if i.ps != nil {
		savedSteps = i.ps.Res.Steps
	}
	ifr := &frame{i: i, caller: nil, fn: initFn, tolerant: true}
	if fr != nil {
		ifr.g = fr.g
	}
	ifr.env = make(map[ssa.Value]value)
	ifr.block = initFn.Blocks[0]
	ifr.locals = make([]value, len(initFn.Locals))
	for k, l := range initFn.Locals {
		ifr.locals[k] = zero(mustDeref(l.Type()))
		ifr.env[l] = &ifr.locals[k]
	}
	func() {
		defer func() {
			if r := recover(); r != nil {
				if ap, ok := r.(*abortPath); ok && ap.Kind != "unsupported" {
					panic(r)
				}
				if _, dead := r.(killedT); dead {
					panic(r)
				}
			}
		}()
		for ifr.block != nil {
			runFrame(ifr)
		}
	}()
	if i.ps != nil {
		i.ps.Res.Steps = savedSteps
	}
}

// skipInit lists packages whose initialisers are never executed (globals stay zero).
func skipInit(path string) bool {
	switch path {
	case "runtime", "os", "syscall", "time", "reflect", "sync", "unsafe", "internal/poll", "net", "crypto/rand", "math/rand",
		"github.com/sirupsen/logrus", "github.com/prometheus/client_golang/prometheus", "testing":
		return true
	}
	return strings.HasPrefix(path, "internal/") || strings.HasPrefix(path, "runtime/") ||
		strings.HasPrefix(path, "github.com/prometheus/") || strings.HasPrefix(path, "google.golang.org/") ||
		strings.HasPrefix(path, "github.com/ethereum/go-ethereum/") || strings.HasPrefix(path, "github.com/libp2p/") ||
		strings.HasPrefix(path, "github.com/gogo/protobuf") || strings.HasPrefix(path, "github.com/golang/protobuf") ||
		strings.HasPrefix(path, "golang.org/x/sys") || strings.HasPrefix(path, "golang.org/x/net")
}
