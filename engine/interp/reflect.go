// Copyright 2013 The Go Authors. All rights reserved.
// Use of this source code is governed by a BSD-style
// license that can be found in the LICENSE file.

package interp

// Emulated "reflect" package (subset): reflect.Value is the 3-field structure
// {rtype, value, *value(settable address or nil)}.

import (
	"fmt"
	"go/token"
	"go/types"
	"reflect"

	"golang.org/x/tools/go/ssa"
)

type opaqueType struct {
	types.Type
	name string
}

func (t *opaqueType) String() string { return t.name }

// A bogus "reflect" type-checker package.  Shared across interpreters.
var reflectTypesPackage = types.NewPackage("reflect", "reflect")

var rtypeType = makeNamedType("rtype", &opaqueType{nil, "rtype"})

var errorType = makeNamedType("error", &opaqueType{nil, "error"})

func makeNamedType(name string, underlying types.Type) *types.Named {
	obj := types.NewTypeName(token.NoPos, reflectTypesPackage, name, nil)
	return types.NewNamed(obj, underlying, nil)
}

// boundMethod is the value inside a reflect.Value obtained from MethodByName.
type boundMethod struct {
	recv value
	fn   *ssa.Function
	sig  *types.Signature
}

func makeReflectValue(t types.Type, v value) value {
	return structure{rtype{t}, v, (*value)(nil)}
}

func makeReflectValueAddr(t types.Type, addr *value) value {
	return structure{rtype{t}, load(t, addr), addr}
}

var invalidReflectValue = structure{rtype{nil}, nil, (*value)(nil)}

func rV2T(v value) rtype {
	s := v.(structure)
	if rt, ok := s[0].(rtype); ok {
		return rt
	}
	return rtype{nil} // zero reflect.Value (fields are nil interfaces)
}

func rV2V(v value) value { return v.(structure)[1] }

func rV2A(v value) *value {
	a, _ := v.(structure)[2].(*value)
	return a
}

func makeReflectType(rt rtype) value {
	return iface{rtypeType, rt}
}

func reflectKind(t types.Type) reflect.Kind {
	switch t := t.(type) {
	case nil:
		return reflect.Invalid
	case *types.Named, *types.Alias:
		return reflectKind(t.Underlying())
	case *types.Basic:
		switch t.Kind() {
		case types.Bool:
			return reflect.Bool
		case types.Int:
			return reflect.Int
		case types.Int8:
			return reflect.Int8
		case types.Int16:
			return reflect.Int16
		case types.Int32:
			return reflect.Int32
		case types.Int64:
			return reflect.Int64
		case types.Uint:
			return reflect.Uint
		case types.Uint8:
			return reflect.Uint8
		case types.Uint16:
			return reflect.Uint16
		case types.Uint32:
			return reflect.Uint32
		case types.Uint64:
			return reflect.Uint64
		case types.Uintptr:
			return reflect.Uintptr
		case types.Float32:
			return reflect.Float32
		case types.Float64:
			return reflect.Float64
		case types.Complex64:
			return reflect.Complex64
		case types.Complex128:
			return reflect.Complex128
		case types.String:
			return reflect.String
		case types.UnsafePointer:
			return reflect.UnsafePointer
		}
	case *types.Array:
		return reflect.Array
	case *types.Chan:
		return reflect.Chan
	case *types.Signature:
		return reflect.Func
	case *types.Interface:
		return reflect.Interface
	case *types.Map:
		return reflect.Map
	case *types.Pointer:
		return reflect.Ptr
	case *types.Slice:
		return reflect.Slice
	case *types.Struct:
		return reflect.Struct
	}
	panic(fmt.Sprint("unexpected type: ", t))
}

func newMethod(pkg *ssa.Package, recvType types.Type, name string) *ssa.Function {
	sig := types.NewSignature(types.NewVar(token.NoPos, nil, "recv", recvType), nil, nil, false)
	fn := pkg.Prog.NewFunction(name, sig, "fake reflect method")
	fn.Pkg = pkg
	return fn
}

// initReflect patches the program once (shared by all interpreters).
func initReflect(sh *Shared) {
	sh.reflectPackage = &ssa.Package{
		Prog:    sh.Prog,
		Pkg:     reflectTypesPackage,
		Members: make(map[string]ssa.Member),
	}
	if r := sh.Prog.ImportedPackage("reflect"); r != nil {
		rV := r.Pkg.Scope().Lookup("Value").Type().(*types.Named)
		mset := sh.Prog.MethodSets.MethodSet(rV)
		for j := 0; j < mset.Len(); j++ {
			sh.Prog.MethodValue(mset.At(j)).Blocks = nil
		}
		tEface := types.NewInterface(nil, nil).Complete()
		rV.SetUnderlying(types.NewStruct([]*types.Var{
			types.NewField(token.NoPos, r.Pkg, "t", tEface, false), // a lie
			types.NewField(token.NoPos, r.Pkg, "v", tEface, false),
			types.NewField(token.NoPos, r.Pkg, "a", tEface, false),
		}, nil))
	}
	sh.rtypeMethods = methodSet{}
	for _, n := range []string{"Bits", "Elem", "Field", "In", "Kind", "NumField", "NumIn", "NumMethod", "NumOut", "Out", "Size", "String", "Name", "PkgPath", "Key", "Len", "Implements", "AssignableTo", "ConvertibleTo", "Comparable", "Method", "MethodByName", "FieldByName"} {
		sh.rtypeMethods[n] = newMethod(sh.reflectPackage, rtypeType, n)
	}
	sh.errorMethods = methodSet{
		"Error": newMethod(sh.reflectPackage, errorType, "Error"),
	}
}

func init() {
	reg := func(name string, f func(fr *frame, args []value) value) {
		intrinsics[name] = func(fr *frame, args []value) (value, bool) { return f(fr, args), true }
	}
	reg("(reflect.rtype).String", func(fr *frame, args []value) value {
		return types.TypeString(args[0].(rtype).t, func(p *types.Package) string { return p.Name() })
	})
	reg("(reflect.rtype).Kind", func(fr *frame, args []value) value { return uint(reflectKind(args[0].(rtype).t)) })
	reg("(reflect.rtype).Name", func(fr *frame, args []value) value {
		if n, ok := args[0].(rtype).t.(*types.Named); ok {
			return n.Obj().Name()
		}
		if b, ok := args[0].(rtype).t.(*types.Basic); ok {
			return b.Name()
		}
		return ""
	})
	reg("(reflect.rtype).Elem", func(fr *frame, args []value) value {
		return makeReflectType(rtype{args[0].(rtype).t.Underlying().(interface{ Elem() types.Type }).Elem()})
	})
	reg("(reflect.rtype).NumField", func(fr *frame, args []value) value {
		return args[0].(rtype).t.Underlying().(*types.Struct).NumFields()
	})
	reg("(reflect.rtype).NumMethod", func(fr *frame, args []value) value {
		return fr.i.prog.MethodSets.MethodSet(args[0].(rtype).t).Len()
	})
	// Type.MethodByName: (Method, found). Only the name and the found flag are modelled (the method's
	// Type / Func / Index stay zero); the method set is go/types' (exported methods of interfaces and
	// of concrete types alike).
	regPrefix("(reflect.rtype).MethodByName", func(fr *frame, fn *ssa.Function, fname string, args []value) (value, bool) {
		name, ok := args[1].(string)
		if !ok {
			panic(unsupported("reflect.Type.MethodByName of a symbolic name"))
		}
		rp := fr.i.prog.ImportedPackage("reflect")
		if rp == nil || rp.Type("Method") == nil {
			panic(unsupported("reflect.Method type not loaded"))
		}
		m := zero(rp.Type("Method").Type()).(structure)
		ms := fr.i.prog.MethodSets.MethodSet(args[0].(rtype).t)
		for i := 0; i < ms.Len(); i++ {
			if obj := ms.At(i).Obj(); obj.Name() == name && obj.Exported() {
				m[0] = name
				return tuple{m, true}, true
			}
		}
		return tuple{m, false}, true
	})
	reg("(reflect.rtype).NumIn", func(fr *frame, args []value) value {
		return args[0].(rtype).t.Underlying().(*types.Signature).Params().Len()
	})
	reg("(reflect.rtype).NumOut", func(fr *frame, args []value) value {
		return args[0].(rtype).t.Underlying().(*types.Signature).Results().Len()
	})
	reg("(reflect.rtype).In", func(fr *frame, args []value) value {
		return makeReflectType(rtype{args[0].(rtype).t.Underlying().(*types.Signature).Params().At(args[1].(int)).Type()})
	})
	reg("(reflect.rtype).Out", func(fr *frame, args []value) value {
		return makeReflectType(rtype{args[0].(rtype).t.Underlying().(*types.Signature).Results().At(args[1].(int)).Type()})
	})
	reg("(reflect.error).Error", func(fr *frame, args []value) value { return args[0] })
	reg("reflect.TypeOf", func(fr *frame, args []value) value {
		it := args[0].(iface)
		if it.t == nil {
			return iface{}
		}
		return makeReflectType(rtype{it.t})
	})
	reg("reflect.ValueOf", func(fr *frame, args []value) value {
		itf := args[0].(iface)
		if itf.t == nil {
			return invalidReflectValue
		}
		return makeReflectValue(itf.t, itf.v)
	})
	reg("reflect.Zero", func(fr *frame, args []value) value {
		t := args[0].(iface).v.(rtype).t
		return makeReflectValue(t, zero(t))
	})
	reg("reflect.New", func(fr *frame, args []value) value {
		t := args[0].(iface).v.(rtype).t
		alloc := zero(t)
		return makeReflectValue(types.NewPointer(t), &alloc)
	})
	reg("reflect.DeepEqual", func(fr *frame, args []value) value {
		a, b := args[0].(iface), args[1].(iface)
		if a.t == nil || b.t == nil {
			return a.t == nil && b.t == nil
		}
		if !types.Identical(a.t, b.t) {
			return false
		}
		return mkSym(deepEqTerm(fr, a.t, a.v, b.v, 0), types.Bool)
	})
	reg("(reflect.Value).Kind", func(fr *frame, args []value) value { return uint(reflectKind(rV2T(args[0]).t)) })
	reg("(reflect.Value).Type", func(fr *frame, args []value) value { return makeReflectType(rV2T(args[0])) })
	reg("(reflect.Value).IsValid", func(fr *frame, args []value) value { return rV2T(args[0]).t != nil })
	reg("(reflect.Value).CanSet", func(fr *frame, args []value) value { return rV2A(args[0]) != nil })
	reg("(reflect.Value).CanAddr", func(fr *frame, args []value) value { return rV2A(args[0]) != nil })
	reg("(reflect.Value).CanInterface", func(fr *frame, args []value) value { return true })
	reg("(reflect.Value).Interface", func(fr *frame, args []value) value {
		t := rV2T(args[0]).t
		if t == nil {
			panic("reflect: call of reflect.Value.Interface on zero Value")
		}
		if _, ok := t.Underlying().(*types.Interface); ok {
			return rV2V(args[0])
		}
		return iface{t, rV2V(args[0])}
	})
	reg("(reflect.Value).Elem", func(fr *frame, args []value) value {
		t := rV2T(args[0]).t
		switch x := rV2V(args[0]).(type) {
		case iface:
			if x.t == nil {
				return invalidReflectValue
			}
			return makeReflectValue(x.t, x.v)
		case *value:
			if x == nil {
				return invalidReflectValue
			}
			return makeReflectValueAddr(t.Underlying().(*types.Pointer).Elem(), x)
		}
		panic(fmt.Sprintf("reflect: call of reflect.Value.Elem on %v Value", reflectKind(t)))
	})
	reg("(reflect.Value).Field", func(fr *frame, args []value) value {
		t := rV2T(args[0]).t
		st, ok := t.Underlying().(*types.Struct)
		if !ok {
			panic(fmt.Sprintf("reflect: call of reflect.Value.Field on %v Value", reflectKind(t)))
		}
		i := args[1].(int)
		if i < 0 || i >= st.NumFields() {
			panic("reflect: Field index out of range")
		}
		f := st.Field(i)
		if a := rV2A(args[0]); a != nil {
			s := (*a).(structure)
			r := makeReflectValueAddr(f.Type(), &s[i]).(structure)
			if !f.Exported() && !f.Embedded() {
				r[2] = (*value)(nil)
			}
			return r
		}
		return makeReflectValue(f.Type(), rV2V(args[0]).(structure)[i])
	})
	reg("(reflect.Value).NumField", func(fr *frame, args []value) value {
		return rV2T(args[0]).t.Underlying().(*types.Struct).NumFields()
	})
	reg("(reflect.Value).Set", func(fr *frame, args []value) value {
		a := rV2A(args[0])
		if a == nil {
			panic("reflect: reflect.Value.Set using unaddressable value")
		}
		dt := rV2T(args[0]).t
		st := rV2T(args[1]).t
		v := rV2V(args[1])
		if _, isI := dt.Underlying().(*types.Interface); isI {
			if _, srcI := st.Underlying().(*types.Interface); !srcI {
				if !types.AssignableTo(st, dt) {
					panic(fmt.Sprintf("reflect.Set: value of type %s is not assignable to type %s", st, dt))
				}
				v = iface{st, v}
			}
		} else if !types.AssignableTo(st, dt) {
			panic(fmt.Sprintf("reflect.Set: value of type %s is not assignable to type %s", st, dt))
		}
		store(dt, a, v)
		return nil
	})
	reg("(reflect.Value).IsNil", func(fr *frame, args []value) value {
		switch x := rV2V(args[0]).(type) {
		case *value:
			return x == nil
		case *omap:
			return x == nil
		case *chanv:
			return x == nil
		case []value:
			return x == nil
		case iface:
			return x.t == nil
		case *ssa.Function:
			return x == nil
		case *closure:
			return x == nil
		}
		panic(fmt.Sprintf("reflect.(Value).IsNil(%T)", rV2V(args[0])))
	})
	reg("(reflect.Value).Len", func(fr *frame, args []value) value {
		switch v := rV2V(args[0]).(type) {
		case string, *symStr:
			return strLen(v)
		case array:
			return len(v)
		case []value:
			return len(v)
		case *omap:
			return v.len()
		}
		panic("reflect.(Value).Len")
	})
	reg("(reflect.Value).Index", func(fr *frame, args []value) value {
		i := args[1].(int)
		t := rV2T(args[0]).t.Underlying()
		switch v := rV2V(args[0]).(type) {
		case array:
			return makeReflectValue(t.(*types.Array).Elem(), v[i])
		case []value:
			return makeReflectValueAddr(t.(*types.Slice).Elem(), &v[i])
		}
		panic("reflect.(Value).Index")
	})
	reg("(reflect.Value).Bool", func(fr *frame, args []value) value { return rV2V(args[0]) })
	reg("(reflect.Value).String", func(fr *frame, args []value) value {
		v := rV2V(args[0])
		if isStr(v) {
			return v
		}
		return "<" + rV2T(args[0]).t.String() + " Value>"
	})
	reg("(reflect.Value).Int", func(fr *frame, args []value) value {
		v := rV2V(args[0])
		if s, ok := v.(symv); ok {
			return symConv(s, types.Int64)
		}
		return asInt64(v)
	})
	reg("(reflect.Value).Uint", func(fr *frame, args []value) value {
		v := rV2V(args[0])
		if s, ok := v.(symv); ok {
			return symConv(s, types.Uint64)
		}
		return uint64(asInt64(v))
	})
	reg("(reflect.Value).Float", func(fr *frame, args []value) value {
		switch v := rV2V(args[0]).(type) {
		case float32:
			return float64(v)
		case float64:
			return v
		}
		panic("reflect.(Value).Float")
	})
	reg("(reflect.Value).NumMethod", func(fr *frame, args []value) value {
		return fr.i.prog.MethodSets.MethodSet(rV2T(args[0]).t).Len()
	})
	reg("(reflect.Value).MethodByName", func(fr *frame, args []value) value {
		t := rV2T(args[0]).t
		name, ok := args[1].(string)
		if !ok {
			panic(unsupported("reflect MethodByName with symbolic name"))
		}
		if t == nil {
			panic("reflect: call of reflect.Value.MethodByName on zero Value")
		}
		if !token.IsExported(name) {
			return invalidReflectValue
		}
		mset := fr.i.prog.MethodSets.MethodSet(t)
		sel := mset.Lookup(nil, name)
		if sel == nil {
			return invalidReflectValue
		}
		fn := fr.i.prog.MethodValue(sel)
		if fn == nil {
			return invalidReflectValue
		}
		sig := sel.Type().(*types.Signature)
		return makeReflectValue(sig, &boundMethod{recv: rV2V(args[0]), fn: fn, sig: sig})
	})
	reg("(reflect.Value).Call", func(fr *frame, args []value) value {
		bm, ok := rV2V(args[0]).(*boundMethod)
		in := args[1].([]value)
		var fn value
		var sig *types.Signature
		var cargs []value
		if ok {
			fn, sig = bm.fn, bm.sig
			cargs = append(cargs, bm.recv)
		} else {
			switch f := rV2V(args[0]).(type) {
			case *ssa.Function:
				fn, sig = f, f.Signature
			case *closure:
				fn, sig = f, f.Fn.Signature
			default:
				panic("reflect: call of reflect.Value.Call on non-function Value")
			}
		}
		np := sig.Params().Len()
		var variadic []value
		variadicCall := sig.Variadic()
		if variadicCall {
			// reflect.Value.Call of a variadic function: the arguments beyond the fixed parameters
			// are checked against the element type and packed into the final slice
			np--
			if len(in) < np {
				panic("reflect: Call with too few input arguments")
			}
			et := sig.Params().At(np).Type().(*types.Slice).Elem()
			for i := np; i < len(in); i++ {
				at := rV2T(in[i]).t
				if at == nil {
					panic("reflect: Call using zero Value argument")
				}
				if !types.AssignableTo(at, et) {
					panic(fmt.Sprintf("reflect: cannot use %s as type %s in Call", at, et))
				}
				v := rV2V(in[i])
				if _, isI := et.Underlying().(*types.Interface); isI {
					if _, srcI := at.Underlying().(*types.Interface); !srcI {
						v = iface{at, v}
					}
				}
				variadic = append(variadic, v)
			}
			in = in[:np]
		}
		if len(in) < np {
			panic("reflect: Call with too few input arguments")
		}
		if len(in) > np {
			panic("reflect: Call with too many input arguments")
		}
		for i := 0; i < np; i++ {
			at := rV2T(in[i]).t
			pt := sig.Params().At(i).Type()
			if at == nil {
				panic("reflect: Call using zero Value argument")
			}
			if !types.AssignableTo(at, pt) {
				panic(fmt.Sprintf("reflect: Call using %s as type %s", at, pt))
			}
			v := rV2V(in[i])
			if _, isI := pt.Underlying().(*types.Interface); isI {
				if _, srcI := at.Underlying().(*types.Interface); !srcI {
					v = iface{at, v}
				}
			}
			cargs = append(cargs, v)
		}
		if variadicCall {
			cargs = append(cargs, variadic)
		}
		res := call(fr.i, fr, token.NoPos, fn, cargs)
		nr := sig.Results().Len()
		out := make([]value, 0, nr)
		switch nr {
		case 0:
		case 1:
			out = append(out, makeReflectValue(sig.Results().At(0).Type(), res))
		default:
			tup := res.(tuple)
			for i := 0; i < nr; i++ {
				out = append(out, makeReflectValue(sig.Results().At(i).Type(), tup[i]))
			}
		}
		return out
	})
}
