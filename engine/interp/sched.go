package interp

// Deterministic cooperative goroutines (baton passing over real Go
// goroutines), channels and select.

import (
	"fmt"
	"go/token"
	"go/types"

	"golang.org/x/tools/go/ssa"
)

type chanv struct {
	buf    []value
	cap    int
	closed bool
	// rendezvous for unbuffered channels
	recvWaiting int
}

type gor struct {
	id      int
	resume  chan struct{}
	done    bool
	blocked func() bool // non-nil while blocked: returns true when it may run again
	panicv  interface{} // unrecovered target panic
	started bool
	stuck   bool // blocked forever (deadlock after a crash): never scheduled again
	fn      value
	args    []value
	pos     token.Pos
}

type scheduler struct {
	i       *interpreter
	all     []*gor
	cur     *gor
	main    *gor
	policy  int // 0 = S1 child first; 1 = S2 parent first, children LIFO
	abort   interface{}
	crashed []*gor // goroutines that died from an unrecovered panic
	dead    bool
}

func newScheduler(i *interpreter) *scheduler {
	s := &scheduler{i: i}
	s.main = &gor{id: 0, resume: make(chan struct{}), started: true}
	s.all = []*gor{s.main}
	s.cur = s.main
	return s
}

func (s *scheduler) spawn(fr *frame, pos token.Pos, fn value, args []value) {
	g := &gor{id: len(s.all), resume: make(chan struct{}), fn: fn, args: args, pos: pos}
	s.all = append(s.all, g)
	go s.body(g)
	if s.policy == 0 {
		// child first: switch to it now; parent resumes when the child blocks or ends
		s.switchTo(g)
	}
}

func (s *scheduler) body(g *gor) {
	<-g.resume
	if s.dead {
		return
	}
	g.started = true
	defer func() {
		r := recover()
		g.done = true
		if r != nil {
			if _, k := r.(killedT); k {
				return // path is over
			}
			if isControl(r) {
				s.abort = r
			} else {
				g.panicv = r
				s.crashed = append(s.crashed, g)
			}
		}
		// hand the baton on
		nxt := s.pick(g)
		if s.abort != nil || nxt == nil {
			nxt = s.main
		}
		s.cur = nxt
		nxt.resume <- struct{}{}
	}()
	call(s.i, &frame{i: s.i, g: g}, g.pos, g.fn, g.args)
}

// runnable reports whether g can run now.
func (g *gor) runnable() bool {
	if g.done || g.stuck {
		return false
	}
	if g.blocked != nil {
		return g.blocked()
	}
	return true
}

// pick selects the next goroutine to run (other than self if possible).
func (s *scheduler) pick(self *gor) *gor {
	if s.policy == 0 {
		// prefer the most recently blocked parent chain: lowest id first gives parent-resume semantics
		for _, g := range s.all {
			if g != self && g.runnable() {
				return g
			}
		}
	} else {
		for i := len(s.all) - 1; i >= 0; i-- {
			g := s.all[i]
			if g != self && g.runnable() {
				return g
			}
		}
	}
	return nil
}

func (s *scheduler) switchTo(nxt *gor) {
	me := s.cur
	if nxt == me {
		return
	}
	s.cur = nxt
	nxt.resume <- struct{}{}
	<-me.resume
	if s.dead {
		panic(killedT{})
	}
	if s.abort != nil && me == s.main {
		a := s.abort
		s.abort = nil
		panic(a)
	}
}

// block parks the current goroutine until cond() holds.
func (s *scheduler) block(fr *frame, what string, cond func() bool) {
	me := s.cur
	for !cond() {
		me.blocked = cond
		nxt := s.pick(me)
		if nxt == nil {
			me.blocked = nil
			if len(s.crashed) > 0 {
				// a goroutine died from an unrecovered panic: in Go the whole process is gone
				r := &abortPath{Kind: "goroutine-panic", Reason: panicString(s.crashed[0].panicv)}
				if me != s.main {
					s.abort = r
					me.stuck = true
					s.switchTo(s.main)
				}
				panic(r)
			}
			if me != s.main {
				// nobody can make progress: give the baton to main which reports
				s.abort = &abortPath{Kind: "block", Reason: "deadlock: goroutine blocked on " + what}
				me.stuck = true
				s.switchTo(s.main)
			}
			panic(&abortPath{Kind: "block", Reason: "would block forever on " + what})
		}
		s.switchTo(nxt)
		me.blocked = nil
	}
}

// yield lets other runnable goroutines run (used at join points and harness end).
func (s *scheduler) quiesce() {
	me := s.cur
	for {
		nxt := s.pick(me)
		if nxt == nil {
			return
		}
		s.switchTo(nxt)
	}
}

// shutdown unwinds all parked goroutines.
func (s *scheduler) shutdown() {
	s.dead = true
	for _, g := range s.all {
		if g != s.main && !g.done {
			select {
			case g.resume <- struct{}{}:
			default:
				// goroutine is not parked on resume (cannot happen: baton discipline)
			}
		}
	}
}

// ---- channels ----

func chanSend(fr *frame, c *chanv, v value) {
	if c == nil {
		fr.i.sched.block(fr, "send on nil channel", func() bool { return false })
	}
	if c.closed {
		panic("send on closed channel")
	}
	s := fr.i.sched
	if c.cap == 0 {
		// unbuffered: hand over through a one-slot buffer, then wait until taken
		s.block(fr, "send on unbuffered channel", func() bool { return len(c.buf) == 0 || c.closed })
		if c.closed {
			panic("send on closed channel")
		}
		c.buf = append(c.buf, v)
		s.block(fr, "send on unbuffered channel (no receiver)", func() bool { return len(c.buf) == 0 || c.closed })
		return
	}
	s.block(fr, "send on full channel", func() bool { return len(c.buf) < c.cap || c.closed })
	if c.closed {
		panic("send on closed channel")
	}
	c.buf = append(c.buf, v)
}

func chanRecv(fr *frame, c *chanv, elem types.Type) (value, bool) {
	if c == nil {
		fr.i.sched.block(fr, "receive on nil channel", func() bool { return false })
	}
	fr.i.sched.block(fr, "receive on empty channel", func() bool { return len(c.buf) > 0 || c.closed })
	if len(c.buf) > 0 {
		v := c.buf[0]
		c.buf = c.buf[1:]
		return v, true
	}
	return zero(elem), false
}

func chanClose(c *chanv) {
	if c == nil {
		panic("close of nil channel")
	}
	if c.closed {
		panic("close of closed channel")
	}
	c.closed = true
}

func doSelect(fr *frame, instr *ssa.Select) value {
	type st struct {
		c    *chanv
		send bool
		v    value
	}
	var states []st
	for _, s := range instr.States {
		c, _ := fr.get(s.Chan).(*chanv)
		x := st{c: c, send: s.Dir == types.SendOnly}
		if x.send {
			x.v = fr.get(s.Send)
		}
		states = append(states, x)
	}
	ready := func(x st) bool {
		if x.c == nil {
			return false
		}
		if x.send {
			if x.c.closed {
				return true
			}
			if x.c.cap == 0 {
				return false // no rendezvous partner tracking: unbuffered sends in select are never ready
			}
			return len(x.c.buf) < x.c.cap
		}
		return len(x.c.buf) > 0 || x.c.closed
	}
	pickReady := func() int {
		if fr.i.sched.policy == 0 {
			for i, x := range states {
				if ready(x) {
					return i
				}
			}
		} else {
			for i := len(states) - 1; i >= 0; i-- {
				if ready(states[i]) {
					return i
				}
			}
		}
		return -1
	}
	chosen := pickReady()
	if chosen < 0 && instr.Blocking {
		fr.i.sched.block(fr, "select", func() bool { return pickReady() >= 0 })
		chosen = pickReady()
	}
	r := tuple{chosen, false}
	recvOk := false
	var recv value
	if chosen >= 0 {
		x := states[chosen]
		if x.send {
			if x.c.closed {
				panic("send on closed channel")
			}
			x.c.buf = append(x.c.buf, x.v)
		} else {
			recv, recvOk = chanRecv(fr, x.c, instr.States[chosen].Chan.Type().Underlying().(*types.Chan).Elem())
		}
	}
	r[1] = recvOk
	for i, s := range instr.States {
		if s.Dir == types.RecvOnly {
			var v value
			if i == chosen && recvOk {
				v = recv
			} else {
				v = zero(s.Chan.Type().Underlying().(*types.Chan).Elem())
			}
			r = append(r, v)
		}
	}
	return r
}

var _ = fmt.Sprintf
