package interp

// Models at the boundary of go-ethereum's RLP encoder (reflection-driven, sync.Pool-backed), which
// the engine does not execute. Everything above it - eth-kit's EthTransaction, state transition and
// EVM interpreter - is interpreted from SSA.

import (
	"fmt"
	"math/big"

	"symgo/term"
)

func init() {
	// eth-kit/types.RlpHash / PrefixedRlpHash: the transaction hash. Model: a fresh pseudo digest per
	// call (EthTransaction caches its hash, so one transaction object keeps one hash; two distinct
	// objects never share one - stated assumption of the harnesses that build eth transactions).
	fresh := func(fr *frame, args []value) value {
		ps := fr.i.ps
		ps.ethHashes++
		d := realHash("keccak256", []byte(fmt.Sprintf("symgo-eth-tx-hash#%d", ps.ethHashes)))
		var cell value = array(bytesValue(d))
		return &cell
	}
	reg("github.com/meshplus/eth-kit/types.RlpHash", fresh)
	reg("github.com/meshplus/eth-kit/types.PrefixedRlpHash", fresh)
	// go-ethereum crypto.CreateAddress(b, nonce) = keccak256(rlp([b, nonce]))[12:], computed exactly.
	reg("github.com/ethereum/go-ethereum/crypto.CreateAddress", func(fr *frame, args []value) value {
		addr, ok := concBytes([]value(args[0].(array)))
		if !ok {
			panic(unsupported("CreateAddress of a symbolic address"))
		}
		nonce, ok := args[1].(uint64)
		if !ok {
			panic(unsupported("CreateAddress with a symbolic nonce"))
		}
		payload := append([]byte{0x94}, addr...)
		switch {
		case nonce == 0:
			payload = append(payload, 0x80)
		case nonce < 128:
			payload = append(payload, byte(nonce))
		default:
			var be []byte
			for n := nonce; n > 0; n >>= 8 {
				be = append([]byte{byte(n)}, be...)
			}
			payload = append(append(payload, 0x80+byte(len(be))), be...)
		}
		enc := append([]byte{0xc0 + byte(len(payload))}, payload...)
		return array(bytesValue(realHash("keccak256", enc)[12:]))
	})
	// math/big Bits / SetBits on concrete values (holiman/uint256 converts through them)
	reg("(*math/big.Int).Bits", func(fr *frame, args []value) value {
		a := bigOf(args[0])
		if !a.IsConst() {
			panic(unsupported("big.Int.Bits symbolic"))
		}
		var out []value
		for _, w := range new(big.Int).Abs(a.Val).Bits() {
			out = append(out, uint(w))
		}
		return out
	})
	reg("(*math/big.Int).SetBits", func(fr *frame, args []value) value {
		ws := make([]big.Word, 0, 4)
		for _, w := range args[1].([]value) {
			u, ok := w.(uint)
			if !ok {
				panic(unsupported("big.Int.SetBits symbolic"))
			}
			ws = append(ws, big.Word(u))
		}
		return bigSet(args[0], term.IntConst(new(big.Int).SetBits(ws)))
	})
}
