package interp

// Path state for stateless (re-execution based) symbolic exploration.

import (
	"fmt"
	"math/big"
	"sort"
	"strings"

	"symgo/solver"
	"symgo/term"
)

// Decision is one recorded branch outcome: Kind 'b' (solver-decided bool,
// Out 0/1) or 'c' (free choice among N, Out index).
type Decision struct {
	Kind byte
	Out  int
	N    int
}

func DecString(ds []Decision) string {
	var b strings.Builder
	for _, d := range ds {
		if d.Kind == 'b' {
			if d.Out == 1 {
				b.WriteByte('T')
			} else {
				b.WriteByte('F')
			}
		} else {
			fmt.Fprintf(&b, "%d", d.Out)
		}
	}
	return b.String()
}

// abortPath is the panic value used to end a path from inside the engine. It
// is never visible to the target program's recover().
type abortPath struct {
	Kind   string // "cut" "infeasible" "unsupported" "bound" "block" "assert-end" "exit"
	Reason string
}

func (a *abortPath) Error() string { return a.Kind + ": " + a.Reason }

func unsupported(msg string) *abortPath { return &abortPath{Kind: "unsupported", Reason: msg} }

type Violation struct {
	Label    string
	Model    map[string]*big.Int
	Decs     []Decision
	Choices  []int
	KnownTag string // non-empty if inside a known-finding region
	Msg      string
}

type PathResult struct {
	Status     string // ok cut infeasible unsupported bound block panic assert-end
	Reason     string
	Decs       []Decision
	Forks      [][]Decision
	Violations []Violation
	Reached    map[string]int
	Covered    map[string]bool
	Observed   []string
	Cuts       []string
	Assumes    []string
	Funcs      map[string]bool
	SymBranch  int // solver-decided branch points inside non-harness code
	Steps      int
	Unknowns   int
	Witness    map[string]*big.Int // model of the PC at path end (if requested)
	Choices    []int
}

type tagRec struct {
	id string
	t  *term.Term
}

// PathState is the per-run mutable state.
type PathState struct {
	Prefix   []Decision
	pos      int
	Decs     []Decision
	PC       []*term.Term
	S        *solver.Solver
	asserted int
	Forks    [][]Decision
	names    map[string]int
	Vars     []*term.Term
	Choices  []int // harness-level Choice outcomes, in order (for replay)
	tags     []tagRec
	Known    map[string]bool // known-finding tag ids
	KnownLabels map[string][]string // tag id -> assertion labels it explains (empty: any)
	Res      PathResult
	MaxSteps int
	Unwind   int
	WantWit  bool
	PermMaps bool
	NoHashFork bool
	hashLog  []hashRec
	ethHashes int
	objCount int
	clock    int
	lastClock *term.Term
	clockConcrete uint64 // >0: time.Now returns concrete instants this far apart (zz.ConcreteClock)
	clockNow      uint64
	blobSeq      int // creation counter of opaque codec outputs (orders them)
	clockMaxStep uint64 // >0: consecutive clock readings differ by at most this (zz.PacedClock)
	inHarnessDepth int
}

type hashRec struct {
	fn     string
	in     value // *symStr or string
	digest []byte
}

func NewPathState(prefix []Decision, s *solver.Solver, known map[string]bool) *PathState {
	ps := &PathState{Prefix: prefix, S: s, names: map[string]int{}, Known: known, MaxSteps: 5_000_000, Unwind: 0}
	ps.Res.Reached = map[string]int{}
	ps.Res.Covered = map[string]bool{}
	ps.Res.Funcs = map[string]bool{}
	s.Reset()
	return ps
}

func (ps *PathState) fresh(name string, srt term.Sort) *term.Term {
	k := ps.names[name]
	ps.names[name] = k + 1
	v := term.Var(fmt.Sprintf("%s#%d", name, k), srt)
	return v
}

// FreshHarnessVar creates a named nondet variable that is reported in models.
func (ps *PathState) FreshHarnessVar(name string, srt term.Sort) *term.Term {
	v := ps.fresh(name, srt)
	ps.Vars = append(ps.Vars, v)
	return v
}

func (ps *PathState) addPC(c *term.Term) {
	if c.IsTrue() {
		return
	}
	ps.PC = append(ps.PC, c)
}

func (ps *PathState) sync() {
	for ps.asserted < len(ps.PC) {
		ps.S.Assert(ps.PC[ps.asserted])
		ps.asserted++
	}
}

func (ps *PathState) check(extra ...*term.Term) solver.Result {
	ps.sync()
	r, _, err := ps.S.CheckWith(extra, nil)
	if err != nil {
		ps.Res.Unknowns++
		if strings.Contains(err.Error(), "died") {
			panic(&abortPath{Kind: "unsupported", Reason: "solver: " + err.Error()})
		}
		return solver.Unknown
	}
	if r == solver.Unknown {
		ps.Res.Unknowns++
	}
	return r
}

func (ps *PathState) checkModel(extra ...*term.Term) (solver.Result, map[string]*big.Int) {
	ps.sync()
	r, m, err := ps.S.CheckWith(extra, ps.Vars)
	if err != nil {
		ps.Res.Unknowns++
		return solver.Unknown, nil
	}
	if r == solver.Unknown {
		ps.Res.Unknowns++
	}
	return r, m
}

// decide resolves a symbolic condition to a concrete branch, forking when both
// outcomes are feasible under the path condition.
func (fr *frame) decide(c *term.Term) bool {
	if c.IsTrue() {
		return true
	}
	if c.IsFalse() {
		return false
	}
	ps := fr.i.ps
	if ps == nil {
		panic(unsupported("symbolic branch outside a path"))
	}
	if fr.fn != nil && !isHarnessFn(fr.fn) {
		ps.Res.SymBranch++
	}
	if ps.pos < len(ps.Prefix) {
		d := ps.Prefix[ps.pos]
		ps.pos++
		if d.Kind != 'b' {
			panic(&abortPath{Kind: "unsupported", Reason: "decision prefix out of sync (expected bool decision)"})
		}
		ps.Decs = append(ps.Decs, d)
		if d.Out == 1 {
			ps.addPC(c)
			return true
		}
		ps.addPC(term.Not(c))
		return false
	}
	rT := ps.check(c)
	feasT := rT != solver.Unsat
	feasF := true
	if feasT {
		feasF = ps.check(term.Not(c)) != solver.Unsat
	}
	switch {
	case feasT && feasF:
		alt := append(append([]Decision{}, ps.Decs...), Decision{Kind: 'b', Out: 0})
		ps.Forks = append(ps.Forks, alt)
		ps.Decs = append(ps.Decs, Decision{Kind: 'b', Out: 1})
		ps.addPC(c)
		return true
	case feasT:
		ps.Decs = append(ps.Decs, Decision{Kind: 'b', Out: 1})
		ps.addPC(c)
		return true
	default:
		ps.Decs = append(ps.Decs, Decision{Kind: 'b', Out: 0})
		ps.addPC(term.Not(c))
		return false
	}
}

// choose makes a free n-way choice (no solver involved); all alternatives are explored.
func (fr *frame) choose(n int) int {
	if n <= 1 {
		return 0
	}
	ps := fr.i.ps
	if ps.pos < len(ps.Prefix) {
		d := ps.Prefix[ps.pos]
		ps.pos++
		if d.Kind != 'c' || d.N != n {
			panic(&abortPath{Kind: "unsupported", Reason: "decision prefix out of sync (expected choice)"})
		}
		ps.Decs = append(ps.Decs, d)
		return d.Out
	}
	for alt := n - 1; alt >= 1; alt-- {
		a := append(append([]Decision{}, ps.Decs...), Decision{Kind: 'c', Out: alt, N: n})
		ps.Forks = append(ps.Forks, a)
	}
	ps.Decs = append(ps.Decs, Decision{Kind: 'c', Out: 0, N: n})
	return 0
}

// assume conjoins c to the path condition; ends the path if infeasible.
func (fr *frame) assume(c *term.Term) {
	ps := fr.i.ps
	if c.IsTrue() {
		return
	}
	if c.IsFalse() {
		panic(&abortPath{Kind: "infeasible", Reason: "assume(false)"})
	}
	ps.addPC(c)
	if ps.pos < len(ps.Prefix) {
		return // feasibility was established when the prefix was created
	}
	if ps.check() == solver.Unsat {
		panic(&abortPath{Kind: "infeasible", Reason: "assumption unsatisfiable"})
	}
}

func (fr *frame) tag(id string, c *term.Term) {
	ps := fr.i.ps
	for i := range ps.tags {
		if ps.tags[i].id == id {
			ps.tags[i].t = term.Or(ps.tags[i].t, c)
			return
		}
	}
	ps.tags = append(ps.tags, tagRec{id, c})
}

// assertProp checks the property c under the current path condition.
func (fr *frame) assertProp(label string, c *term.Term, msg string) {
	ps := fr.i.ps
	ps.Res.Reached[label]++
	if c.IsTrue() {
		return
	}
	var knownT []*term.Term
	var knownIDs []string
	for _, tg := range ps.tags {
		if ps.Known[tg.id] && !tg.t.IsFalse() && labelCovered(ps.KnownLabels[tg.id], label) {
			knownT = append(knownT, tg.t)
			knownIDs = append(knownIDs, tg.id)
		}
	}
	excl := term.Or(knownT...)
	q := term.And(term.Not(c), term.Not(excl))
	if !q.IsFalse() {
		r, m := ps.checkModel(q)
		switch r {
		case solver.Sat:
			ps.Res.Violations = append(ps.Res.Violations, Violation{Label: label, Model: m, Decs: append([]Decision{}, ps.Decs...), Choices: append([]int{}, ps.Choices...), Msg: msg})
		case solver.Unknown:
			ps.Res.Violations = append(ps.Res.Violations, Violation{Label: label, Decs: append([]Decision{}, ps.Decs...), Msg: "UNKNOWN: solver could not decide"})
		}
	}
	for i, kt := range knownT {
		r, m := ps.checkModel(term.And(term.Not(c), kt))
		if r == solver.Sat {
			ps.Res.Violations = append(ps.Res.Violations, Violation{Label: label, Model: m, Decs: append([]Decision{}, ps.Decs...), Choices: append([]int{}, ps.Choices...), KnownTag: knownIDs[i], Msg: msg})
		}
	}
	if c.IsFalse() {
		panic(&abortPath{Kind: "assert-end", Reason: label})
	}
	ps.addPC(c)
	if ps.check() == solver.Unsat {
		panic(&abortPath{Kind: "assert-end", Reason: label})
	}
}

func (fr *frame) cover(label string, c *term.Term) {
	ps := fr.i.ps
	if _, ok := ps.Res.Covered[label]; !ok {
		ps.Res.Covered[label] = false
	}
	if c.IsFalse() || ps.Res.Covered[label] {
		return
	}
	if c.IsTrue() || ps.check(c) == solver.Sat {
		ps.Res.Covered[label] = true
	}
}

// finish computes the witness model of the final path condition.
func (ps *PathState) finish() {
	ps.Res.Decs = ps.Decs
	ps.Res.Forks = ps.Forks
	ps.Res.Choices = ps.Choices
	if ps.WantWit && len(ps.Vars) > 0 {
		r, m := ps.checkModel()
		if r == solver.Sat {
			ps.Res.Witness = m
		}
	}
}

func SortedKeys(m map[string]bool) []string {
	out := make([]string, 0, len(m))
	for k := range m {
		out = append(out, k)
	}
	sort.Strings(out)
	return out
}

// decideNoFork resolves c preferring outcome prefer when both outcomes are feasible,
// without enqueueing the alternative (a deliberate, stated under-approximation).
func (fr *frame) decideNoFork(c *term.Term, prefer bool) bool {
	if c.IsTrue() {
		return true
	}
	if c.IsFalse() {
		return false
	}
	ps := fr.i.ps
	if ps.pos < len(ps.Prefix) {
		d := ps.Prefix[ps.pos]
		ps.pos++
		ps.Decs = append(ps.Decs, d)
		if d.Out == 1 {
			ps.addPC(c)
			return true
		}
		ps.addPC(term.Not(c))
		return false
	}
	want := c
	if !prefer {
		want = term.Not(c)
	}
	out := prefer
	if ps.check(want) == solver.Unsat {
		out = !prefer
	}
	o := 0
	if out {
		o = 1
		ps.addPC(c)
	} else {
		ps.addPC(term.Not(c))
	}
	ps.Decs = append(ps.Decs, Decision{Kind: 'b', Out: o})
	return out
}

func labelCovered(labels []string, label string) bool {
	if len(labels) == 0 {
		return true
	}
	for _, l := range labels {
		if l == label || (strings.HasSuffix(l, "*") && strings.HasPrefix(label, strings.TrimSuffix(l, "*"))) {
			return true
		}
	}
	return false
}
