package interp

import (
	"encoding/json"
	"fmt"
	"go/types"
	"reflect"
	"strings"
)

// jsonDecodeConcrete decodes concrete JSON text into the interpreter value at dst
// (type-directed). Returns an error message or "".
func jsonDecodeConcrete(fr *frame, data []byte, t types.Type, dst *value) string {
	var x interface{}
	dec := json.NewDecoder(strings.NewReader(string(data)))
	dec.UseNumber()
	if err := dec.Decode(&x); err != nil {
		return err.Error()
	}
	v, err := jsonToValue(x, t, *dst)
	if err != "" {
		return err
	}
	*dst = v
	return ""
}

func jsonToValue(x interface{}, t types.Type, old value) (value, string) {
	if nt, ok := t.(*types.Named); ok {
		if hasMethod(nt, "UnmarshalJSON") || hasMethod(nt, "UnmarshalText") {
			panic(unsupported("json decoding of concrete text into type with custom unmarshaller: " + nt.String()))
		}
	}
	if x == nil {
		return zero(t), ""
	}
	switch u := t.Underlying().(type) {
	case *types.Basic:
		switch {
		case u.Kind() == types.String:
			s, ok := x.(string)
			if !ok {
				return nil, "json: cannot unmarshal non-string into Go value of type string"
			}
			return s, ""
		case u.Kind() == types.Bool:
			b, ok := x.(bool)
			if !ok {
				return nil, "json: cannot unmarshal non-bool into Go value of type bool"
			}
			return b, ""
		case u.Info()&types.IsInteger != 0:
			n, ok := x.(json.Number)
			if !ok {
				return nil, "json: cannot unmarshal non-number into Go integer"
			}
			i, err := n.Int64()
			if err != nil {
				var uu uint64
				if _, e2 := fmt.Sscan(string(n), &uu); e2 != nil {
					return nil, "json: cannot unmarshal number " + string(n)
				}
				i = int64(uu)
			}
			return fromInt64(i, u.Kind()), ""
		case u.Info()&types.IsFloat != 0:
			n, ok := x.(json.Number)
			if !ok {
				return nil, "json: cannot unmarshal non-number into Go float"
			}
			f, _ := n.Float64()
			if u.Kind() == types.Float32 {
				return float32(f), ""
			}
			return f, ""
		}
	case *types.Pointer:
		var cell value = zero(u.Elem())
		if p, ok := old.(*value); ok && p != nil {
			cell = *p
		}
		v, err := jsonToValue(x, u.Elem(), cell)
		if err != "" {
			return nil, err
		}
		return &v, ""
	case *types.Struct:
		m, ok := x.(map[string]interface{})
		if !ok {
			return nil, "json: cannot unmarshal non-object into Go struct"
		}
		out, ok := old.(structure)
		if !ok {
			out = zero(t).(structure)
		} else {
			out = append(structure{}, out...)
		}
		for i := 0; i < u.NumFields(); i++ {
			f := u.Field(i)
			if !f.Exported() {
				continue
			}
			name := f.Name()
			tag := reflect.StructTag(u.Tag(i)).Get("json")
			if tag == "-" {
				continue
			}
			if tag != "" {
				if n := strings.Split(tag, ",")[0]; n != "" {
					name = n
				}
			}
			var fv interface{}
			found := false
			for k, v := range m {
				if k == name || strings.EqualFold(k, name) {
					fv, found = v, true
					break
				}
			}
			if !found {
				continue
			}
			v, err := jsonToValue(fv, f.Type(), out[i])
			if err != "" {
				return nil, err
			}
			out[i] = v
		}
		return out, ""
	case *types.Slice:
		if b, ok := u.Elem().Underlying().(*types.Basic); ok && b.Kind() == types.Uint8 {
			panic(unsupported("json decoding of base64 bytes from concrete text"))
		}
		arr, ok := x.([]interface{})
		if !ok {
			return nil, "json: cannot unmarshal non-array into Go slice"
		}
		out := make([]value, len(arr))
		for i, e := range arr {
			v, err := jsonToValue(e, u.Elem(), zero(u.Elem()))
			if err != "" {
				return nil, err
			}
			out[i] = v
		}
		return out, ""
	case *types.Map:
		m, ok := x.(map[string]interface{})
		if !ok {
			return nil, "json: cannot unmarshal non-object into Go map"
		}
		out := newOmap(u.Key())
		keys := make([]string, 0, len(m))
		for k := range m {
			keys = append(keys, k)
		}
		sortStrings(keys)
		for _, k := range keys {
			v, err := jsonToValue(m[k], u.Elem(), zero(u.Elem()))
			if err != "" {
				return nil, err
			}
			out.keys = append(out.keys, k)
			out.vals = append(out.vals, v)
			out.idx[k] = len(out.keys) - 1
		}
		return out, ""
	case *types.Interface:
		switch y := x.(type) {
		case string:
			return iface{types.Typ[types.String], y}, ""
		case bool:
			return iface{types.Typ[types.Bool], y}, ""
		case json.Number:
			f, _ := y.Float64()
			return iface{types.Typ[types.Float64], f}, ""
		}
		panic(unsupported("json decoding of composite into interface{}"))
	}
	panic(unsupported("json decoding into " + t.String()))
}

func fromInt64(i int64, k types.BasicKind) value {
	switch k {
	case types.Int:
		return int(i)
	case types.Int8:
		return int8(i)
	case types.Int16:
		return int16(i)
	case types.Int32:
		return int32(i)
	case types.Int64:
		return i
	case types.Uint:
		return uint(i)
	case types.Uint8:
		return uint8(i)
	case types.Uint16:
		return uint16(i)
	case types.Uint32:
		return uint32(i)
	case types.Uint64:
		return uint64(i)
	case types.Uintptr:
		return uintptr(i)
	}
	panic("fromInt64")
}

func sortStrings(xs []string) {
	for i := 1; i < len(xs); i++ {
		for j := i; j > 0 && xs[j] < xs[j-1]; j-- {
			xs[j], xs[j-1] = xs[j-1], xs[j]
		}
	}
}
