package interp

// Insertion-ordered maps whose keys may contain symbolic parts, and the
// generic (term-valued) equality relation.

import (
	"golang.org/x/tools/go/ssa"
	"os"
	"fmt"
	"go/token"
	"go/types"
	"strings"

	"symgo/term"
)

type omap struct {
	keyType types.Type
	keys    []value
	vals    []value
	idx     map[interface{}]int // canonical concrete key -> position
	nsym    int                 // number of keys without canonical concrete form
}

func newOmap(kt types.Type) *omap {
	return &omap{keyType: kt, idx: map[interface{}]int{}}
}

// canonKey returns a Go-comparable canonical form of a fully concrete key.
func canonKey(v value) (interface{}, bool) {
	switch v := v.(type) {
	case bool, int, int8, int16, int32, int64, uint, uint8, uint16, uint32, uint64, uintptr, float32, float64, string, *value, chan value, complex64, complex128:
		return v, true
	case *chanv:
		return v, true
	case symv, *symStr:
		return nil, false
	case structure:
		var b strings.Builder
		b.WriteString("{")
		for _, f := range v {
			c, ok := canonKey(f)
			if !ok {
				return nil, false
			}
			fmt.Fprintf(&b, "%T:%v;", c, c)
		}
		b.WriteString("}")
		return b.String(), true
	case array:
		var b strings.Builder
		b.WriteString("[")
		for _, f := range v {
			c, ok := canonKey(f)
			if !ok {
				return nil, false
			}
			fmt.Fprintf(&b, "%v;", c)
		}
		b.WriteString("]")
		return b.String(), true
	case iface:
		if v.t == nil {
			return "iface<nil>", true
		}
		c, ok := canonKey(v.v)
		if !ok {
			return nil, false
		}
		return fmt.Sprintf("iface<%s>%T:%v", v.t.String(), c, c), true
	case rtype:
		return "rtype:" + v.t.String(), true
	}
	return nil, false
}

// find returns the position of key k or -1. It may fork.
func (m *omap) find(fr *frame, k value) int {
	if m == nil {
		return -1
	}
	ck, conc := canonKey(k)
	if conc {
		if i, ok := m.idx[ck]; ok {
			return i
		}
		if m.nsym == 0 {
			return -1
		}
	}
	for i, ki := range m.keys {
		if conc {
			if _, kc := canonKey(ki); kc {
				continue // concrete vs concrete already decided by idx
			}
		}
		c := eqTerm(fr, m.keyType, ki, k)
		if fr.decide(c) {
			return i
		}
	}
	return -1
}

func (m *omap) lookup(fr *frame, k value) (value, bool) {
	i := m.find(fr, k)
	if i < 0 {
		return nil, false
	}
	return m.vals[i], true
}

func (m *omap) insert(fr *frame, k, v value) {
	if m == nil {
		panic("assignment to entry in nil map")
	}
	if i := m.find(fr, k); i >= 0 {
		m.vals[i] = v
		return
	}
	if ck, ok := canonKey(k); ok {
		m.idx[ck] = len(m.keys)
	} else {
		m.nsym++
	}
	m.keys = append(m.keys, k)
	m.vals = append(m.vals, v)
}

func (m *omap) delete(fr *frame, k value) {
	if m == nil {
		return
	}
	i := m.find(fr, k)
	if i < 0 {
		return
	}
	if _, ok := canonKey(m.keys[i]); !ok {
		m.nsym--
	}
	m.keys = append(m.keys[:i:i], m.keys[i+1:]...)
	m.vals = append(m.vals[:i:i], m.vals[i+1:]...)
	m.idx = map[interface{}]int{}
	for j, kj := range m.keys {
		if ck, ok := canonKey(kj); ok {
			m.idx[ck] = j
		}
	}
}

func (m *omap) len() int {
	if m == nil {
		return 0
	}
	return len(m.keys)
}

type omapIter struct {
	keys, vals []value
	i          int
}

func (it *omapIter) next() tuple {
	if it.i >= len(it.keys) {
		return tuple{false, nil, nil}
	}
	k, v := it.keys[it.i], it.vals[it.i]
	it.i++
	return tuple{true, k, v}
}

// rangeOmap snapshots the entries; with map-order exploration enabled the
// iteration order of small maps is a free choice (all permutations explored).
func rangeOmap(fr *frame, m *omap) iter {
	it := &omapIter{}
	if m == nil {
		return it
	}
	n := len(m.keys)
	it.keys = append([]value{}, m.keys...)
	it.vals = append([]value{}, m.vals...)
	if fr.i.ps != nil && fr.i.ps.PermMaps && n >= 2 && permutable(fr) {
		if n > fr.i.maxPerm {
			// too many entries for all n! orders: a stated sample of three orders (insertion
			// order, its reverse, rotation by one) - every pair of entries is visited in both
			// relative orders
			switch fr.choose(3) {
			case 1:
				for a, b := 0, n-1; a < b; a, b = a+1, b-1 {
					it.keys[a], it.keys[b] = it.keys[b], it.keys[a]
					it.vals[a], it.vals[b] = it.vals[b], it.vals[a]
				}
			case 2:
				it.keys = append(it.keys[1:], it.keys[0])
				it.vals = append(it.vals[1:], it.vals[0])
			}
			return it
		}
		permute(fr, it.keys, it.vals)
	}
	return it
}

func permute(fr *frame, keys, vals []value) {
	n := len(keys)
	for i := 0; i < n-1; i++ {
		j := i + fr.choose(n-i)
		keys[i], keys[j] = keys[j], keys[i]
		vals[i], vals[j] = vals[j], vals[i]
	}
}

// permutable: only ranges executed in code of the repository under test (and its
// harnesses) take part in map-order exploration.
func permutable(fr *frame) bool {
	if fr.fn == nil || fr.fn.Pkg == nil {
		return false
	}
	p := fr.fn.Pkg.Pkg.Path()
	return strings.HasPrefix(p, "github.com/meshplus/bitxhub/") || p == "github.com/meshplus/bitxhub" ||
		strings.HasPrefix(p, "github.com/meshplus/bitxhub-core/")
}

// eqTerm is Go's == for type t as a Bool term (constant when both sides are concrete).
func eqTerm(fr *frame, t types.Type, x, y value) *term.Term {
	switch x := x.(type) {
	case symv:
		return boolTerm(symBinop(fr, token.EQL, x, y))
	case bool, int, int8, int16, int32, int64, uint, uint8, uint16, uint32, uint64, uintptr:
		if _, ok := y.(symv); ok {
			return boolTerm(symBinop(fr, token.EQL, x, y))
		}
		return term.BoolConst(x == y)
	case float32, float64, complex64, complex128:
		return term.BoolConst(x == y)
	case string:
		if ys, ok := y.(string); ok {
			return term.BoolConst(x == ys)
		}
		return strEqTerm(fr, x, y)
	case *symStr:
		return strEqTerm(fr, x, y)
	case *value:
		return term.BoolConst(x == y.(*value))
	case *chanv:
		return term.BoolConst(x == y.(*chanv))
	case structure:
		ys := y.(structure)
		var tStruct *types.Struct
		if t != nil {
			tStruct, _ = t.Underlying().(*types.Struct)
		}
		var cs []*term.Term
		for i := range x {
			var ft types.Type
			if tStruct != nil {
				f := tStruct.Field(i)
				if f.Name() == "_" {
					continue
				}
				ft = f.Type()
			}
			c := eqTerm(fr, ft, x[i], ys[i])
			if c.IsFalse() {
				return term.False
			}
			cs = append(cs, c)
		}
		return term.And(cs...)
	case array:
		ya := y.(array)
		var et types.Type
		if t != nil {
			if at, ok := t.Underlying().(*types.Array); ok {
				et = at.Elem()
			}
		}
		var cs []*term.Term
		for i := range x {
			c := eqTerm(fr, et, x[i], ya[i])
			if c.IsFalse() {
				return term.False
			}
			cs = append(cs, c)
		}
		return term.And(cs...)
	case iface:
		yi := y.(iface)
		if x.t == nil || yi.t == nil {
			return term.BoolConst(x.t == nil && yi.t == nil)
		}
		if !types.Identical(x.t, yi.t) {
			return term.False
		}
		return eqTerm(fr, x.t, x.v, yi.v)
	case rtype:
		return term.BoolConst(types.Identical(x.t, y.(rtype).t))
	case *ssa.Function:
		// only reached by structural comparison of codec snapshots (Go itself compares
		// functions with nil only): two nil function fields are equal
		if yf, ok := y.(*ssa.Function); ok {
			return term.BoolConst(x == yf)
		}
		return term.False
	case bigval:
		panic(unsupported("== on big.Int values"))
	}
	if os.Getenv("SYMGO_DEBUG") != "" {
		fmt.Fprintf(os.Stderr, "uncomparable in %v\n", fr.fn)
		for f := fr; f != nil; f = f.caller {
			fmt.Fprintf(os.Stderr, "   called from %v\n", f.fn)
		}
	}
	panic(fmt.Sprintf("comparing uncomparable type %s (%T)", t, x))
}

// equals is the concrete form of eqTerm: the answer must not depend on symbolic data
// unless a frame is available to decide it.
func equals(fr *frame, t types.Type, x, y value) bool {
	c := eqTerm(fr, t, x, y)
	if c.IsConst() {
		return c.IsTrue()
	}
	return fr.decide(c)
}
