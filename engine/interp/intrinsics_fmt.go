package interp

// fmt.Sprintf / Errorf / Sprint family over segment lists. Verbs %s %d %v %q %x %t %w
// on strings, integers, bools, byte slices, errors and Stringers are exact; the
// rendering of composite values under %v is approximate (flows into messages only).

import (
	"symgo/term"
	"fmt"
	"go/types"
	"strings"

	"golang.org/x/tools/go/ssa"
)

func lit(s string) []seg { return []seg{{kind: sLit, lit: s}} }

func isErrorType(t types.Type) bool {
	ms := types.NewMethodSet(t)
	sel := ms.Lookup(nil, "Error")
	if sel == nil {
		return false
	}
	sig, ok := sel.Type().(*types.Signature)
	return ok && sig.Params().Len() == 0 && sig.Results().Len() == 1
}

func isStringerType(t types.Type) bool {
	ms := types.NewMethodSet(t)
	sel := ms.Lookup(nil, "String")
	if sel == nil {
		return false
	}
	sig, ok := sel.Type().(*types.Signature)
	return ok && sig.Params().Len() == 0 && sig.Results().Len() == 1
}

func renderArg(fr *frame, verb byte, plus bool, a value, depth int) []seg {
	it, ok := a.(iface)
	if !ok {
		return renderValue(fr, verb, plus, nil, a, depth)
	}
	if it.t == nil {
		if verb == 'v' {
			return lit("<nil>")
		}
		return lit("%!" + string(verb) + "(<nil>)")
	}
	return renderValue(fr, verb, plus, it.t, it.v, depth)
}

func renderValue(fr *frame, verb byte, plus bool, t types.Type, v value, depth int) []seg {
	if depth > 6 {
		return lit("...")
	}
	if verb == 'T' {
		if t == nil {
			return lit("<nil>")
		}
		return lit(types.TypeString(t, func(p *types.Package) string { return p.Name() }))
	}
	if t != nil && (verb == 's' || verb == 'v' || verb == 'q' || verb == 'w') {
		nilPtr := false
		if p, ok := v.(*value); ok && p == nil {
			nilPtr = true
		}
		if !nilPtr {
			if isErrorType(t) {
				if r, ok := callMethod(fr, t, v, "Error"); ok {
					return quoteIf(verb, segsOf(r))
				}
			}
			if isStringerType(t) {
				if r, ok := callMethod(fr, t, v, "String"); ok {
					return quoteIf(verb, segsOf(r))
				}
			}
		}
	}
	switch x := v.(type) {
	case string, *symStr:
		switch verb {
		case 'x':
			if s, ok := x.(string); ok {
				return lit(fmt.Sprintf("%x", s))
			}
			panic(unsupported("%x of symbolic string"))
		}
		return quoteIf(verb, segsOf(x))
	case bool:
		return lit(fmt.Sprintf("%t", x))
	case symv:
		if x.k == types.Bool {
			if fr.decide(x.t) {
				return lit("true")
			}
			return lit("false")
		}
		switch verb {
		case 'd', 'v', 's':
			return decSegs(fr, x)
		}
		panic(unsupported(fmt.Sprintf("%%%c of symbolic integer", verb)))
	case int, int8, int16, int32, int64, uint, uint8, uint16, uint32, uint64, uintptr:
		switch verb {
		case 'd', 'v':
			return lit(fmt.Sprintf("%d", x))
		case 'x':
			return lit(fmt.Sprintf("%x", x))
		case 'X':
			return lit(fmt.Sprintf("%X", x))
		case 'c':
			return lit(fmt.Sprintf("%c", x))
		case 'q':
			return lit(fmt.Sprintf("%q", x))
		case 's':
			return lit(fmt.Sprintf("%%!s(%T=%d)", x, x))
		case 'b':
			return lit(fmt.Sprintf("%b", x))
		}
		return lit(fmt.Sprintf("%d", x))
	case float32, float64:
		return lit(fmt.Sprintf("%"+string(verb), x))
	case bigval:
		return decSegs(fr, x)
	case []value:
		isBytes := false
		if t != nil {
			if st, ok := t.Underlying().(*types.Slice); ok {
				if b, ok := st.Elem().Underlying().(*types.Basic); ok && b.Kind() == types.Uint8 {
					isBytes = true
				}
			}
		}
		if isBytes {
			switch verb {
			case 's', 'q':
				return quoteIf(verb, segsOf(bytesToStr(x)))
			case 'x':
				if b, ok := concBytes(x); ok {
					return lit(fmt.Sprintf("%x", b))
				}
				return lit("<symbolic-hex>")
			}
			if b, ok := concBytes(x); ok {
				return lit(fmt.Sprintf("%v", b))
			}
			return lit("[<symbolic bytes>]")
		}
		var et types.Type
		if t != nil {
			if st, ok := t.Underlying().(*types.Slice); ok {
				et = st.Elem()
			}
		}
		out := lit("[")
		for i, e := range x {
			if i > 0 {
				out = append(out, lit(" ")...)
			}
			out = append(out, renderElem(fr, verb, plus, et, e, depth+1)...)
		}
		return append(out, lit("]")...)
	case array:
		var et types.Type
		if t != nil {
			if at, ok := t.Underlying().(*types.Array); ok {
				et = at.Elem()
			}
		}
		if verb == 'x' {
			if b, ok := concBytes([]value(x)); ok {
				return lit(fmt.Sprintf("%x", b))
			}
		}
		out := lit("[")
		for i, e := range x {
			if i > 0 {
				out = append(out, lit(" ")...)
			}
			out = append(out, renderElem(fr, verb, plus, et, e, depth+1)...)
		}
		return append(out, lit("]")...)
	case structure:
		var st *types.Struct
		if t != nil {
			st, _ = t.Underlying().(*types.Struct)
		}
		out := lit("{")
		for i, e := range x {
			if i > 0 {
				out = append(out, lit(" ")...)
			}
			var ft types.Type
			if st != nil {
				ft = st.Field(i).Type()
				if plus {
					out = append(out, lit(st.Field(i).Name()+":")...)
				}
			}
			out = append(out, renderElem(fr, verb, plus, ft, e, depth+1)...)
		}
		return append(out, lit("}")...)
	case *value:
		if x == nil {
			return lit("<nil>")
		}
		if t != nil {
			if pt, ok := t.Underlying().(*types.Pointer); ok {
				if _, isStruct := pt.Elem().Underlying().(*types.Struct); isStruct && depth == 0 {
					return append(lit("&"), renderValue(fr, verb, plus, pt.Elem(), *x, depth+1)...)
				}
			}
		}
		// a pointer printed as such: its address differs from run to run and from node to node.
		// Rendered as "0xc" + 8 unconstrained symbolic bytes whose names mark them as address bytes
		// (zz.NoAddress finds them)
		out := lit("0xc")
		for k := 0; k < 8; k++ {
			out = append(out, seg{kind: sByte, t: fr.i.ps.fresh("addr", term.BV(8))})
		}
		return out
	case *omap:
		out := lit("map[")
		if x != nil {
			mt, _ := t.Underlying().(*types.Map)
			for i := range x.keys {
				if i > 0 {
					out = append(out, lit(" ")...)
				}
				var kt, vt types.Type
				if mt != nil {
					kt, vt = mt.Key(), mt.Elem()
				}
				out = append(out, renderElem(fr, verb, plus, kt, x.keys[i], depth+1)...)
				out = append(out, lit(":")...)
				out = append(out, renderElem(fr, verb, plus, vt, x.vals[i], depth+1)...)
			}
		}
		return append(out, lit("]")...)
	case iface:
		return renderArg(fr, verb, plus, x, depth+1)
	case nil:
		return lit("<nil>")
	case *closure, *ssa.Function:
		return lit("0xfunc")
	case rtype:
		return lit(x.t.String())
	}
	return lit(fmt.Sprintf("<%T>", v))
}

func renderElem(fr *frame, verb byte, plus bool, t types.Type, v value, depth int) []seg {
	if it, ok := v.(iface); ok {
		return renderArg(fr, verb, plus, it, depth)
	}
	return renderValue(fr, verb, plus, t, v, depth)
}

func quoteIf(verb byte, s []seg) []seg {
	if verb != 'q' {
		return s
	}
	return append(append(lit("\""), s...), lit("\"")...)
}

func sprintf(fr *frame, format string, args []value) value {
	var out []seg
	ai := 0
	i := 0
	for i < len(format) {
		c := format[i]
		if c != '%' {
			j := strings.IndexByte(format[i:], '%')
			if j < 0 {
				j = len(format) - i
			}
			out = append(out, lit(format[i:i+j])...)
			i += j
			continue
		}
		i++
		if i >= len(format) {
			out = append(out, lit("%!(NOVERB)")...)
			break
		}
		plus := false
		specStart := i
		// flags / width / precision
		for i < len(format) && strings.IndexByte("+-# 0123456789.", format[i]) >= 0 {
			if format[i] == '+' {
				plus = true
			}
			i++
		}
		spec := format[specStart:i]
		if i >= len(format) {
			break
		}
		verb := format[i]
		i++
		if verb == '%' {
			out = append(out, lit("%")...)
			continue
		}
		if ai >= len(args) {
			out = append(out, lit("%!"+string(verb)+"(MISSING)")...)
			continue
		}
		if spec != "" && spec != "+" {
			// width / padding / precision: exact for concrete scalars via native fmt
			if it, ok := args[ai].(iface); ok && it.t != nil {
				switch x := it.v.(type) {
				case int, int8, int16, int32, int64, uint, uint8, uint16, uint32, uint64, uintptr, float32, float64, string, bool:
					if !(isErrorType(it.t) || isStringerType(it.t)) {
						out = append(out, lit(fmt.Sprintf("%"+spec+string(verb), x))...)
						ai++
						continue
					}
				}
			}
		}
		out = append(out, renderArg(fr, verb, plus, args[ai], 0)...)
		ai++
	}
	if ai < len(args) {
		out = append(out, lit("%!(EXTRA)")...)
	}
	return mkStr(out)
}

func sprint(fr *frame, args []value, ln bool) value {
	var out []seg
	for i, a := range args {
		if i > 0 {
			// Sprint adds spaces between operands when neither is a string; Sprintln always
			addSpace := ln
			if !ln {
				_, s1 := args[i-1].(iface)
				_ = s1
				p, q := args[i-1].(iface), a.(iface)
				addSpace = !(p.t != nil && isStr(p.v)) && !(q.t != nil && isStr(q.v))
			}
			if addSpace {
				out = append(out, lit(" ")...)
			}
		}
		out = append(out, renderArg(fr, 'v', false, a, 0)...)
	}
	if ln {
		out = append(out, lit("\n")...)
	}
	return mkStr(out)
}

func wrapErrorValue(fr *frame, msg value, inner iface) value {
	pkg := fr.i.prog.ImportedPackage("fmt")
	t := pkg.Type("wrapError").Type()
	var cell value = structure{msg, inner}
	return iface{types.NewPointer(t), &cell}
}

func init() {
	reg("fmt.Sprintf", func(fr *frame, args []value) value {
		f, ok := concStr(args[0])
		if !ok {
			if len(args[1].([]value)) == 0 {
				return args[0]
			}
			panic(unsupported("Sprintf with symbolic format"))
		}
		return sprintf(fr, f, args[1].([]value))
	})
	reg("fmt.Errorf", func(fr *frame, args []value) value {
		f, ok := concStr(args[0])
		if !ok {
			if len(args[1].([]value)) == 0 {
				return errorValue(fr, args[0]) // symbolic text used as a message
			}
			panic(unsupported("Errorf with symbolic format"))
		}
		as := args[1].([]value)
		msg := sprintf(fr, f, as)
		if idx := strings.Index(f, "%w"); idx >= 0 {
			// find which argument %w refers to
			n := 0
			for i := 0; i+1 < len(f); i++ {
				if f[i] == '%' {
					if f[i+1] == '%' {
						i++
						continue
					}
					j := i + 1
					for j < len(f) && strings.IndexByte("+-# 0123456789.", f[j]) >= 0 {
						j++
					}
					if j < len(f) && f[j] == 'w' {
						if n < len(as) {
							if inner, ok := as[n].(iface); ok && inner.t != nil && isErrorType(inner.t) {
								return wrapErrorValue(fr, msg, inner)
							}
						}
						break
					}
					n++
					i = j
				}
			}
		}
		return errorValue(fr, msg)
	})
	reg("fmt.Sprint", func(fr *frame, args []value) value { return sprint(fr, args[0].([]value), false) })
	reg("fmt.Sprintln", func(fr *frame, args []value) value { return sprint(fr, args[0].([]value), true) })
	reg("fmt.Println", func(fr *frame, args []value) value { return tuple{0, nilError()} })
	reg("fmt.Printf", func(fr *frame, args []value) value { return tuple{0, nilError()} })
	reg("fmt.Print", func(fr *frame, args []value) value { return tuple{0, nilError()} })
	reg("fmt.Fprintf", func(fr *frame, args []value) value { return tuple{0, nilError()} })
	reg("fmt.Fprintln", func(fr *frame, args []value) value { return tuple{0, nilError()} })
	reg("fmt.Fprint", func(fr *frame, args []value) value { return tuple{0, nilError()} })
}
