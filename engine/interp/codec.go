package interp

// Codec stubs: Marshal produces an opaque blob holding a type-directed deep copy
// of the value; Unmarshal of a blob copies it back. Contract: the codec round
// trip is the identity on the encoded fields and encoding is deterministic and
// injective per type.

import (
	"encoding/base64"
	"fmt"
	"go/types"
	"reflect"
	"sort"
	"strings"
	"unicode/utf8"

	"symgo/term"
)

type copyMode struct {
	codec string // "json", "proto", "plain"
}

func hasMethod(t types.Type, name string) bool {
	ms := types.NewMethodSet(t)
	for i := 0; i < ms.Len(); i++ {
		if ms.At(i).Obj().Name() == name {
			return true
		}
	}
	if _, ok := t.(*types.Pointer); !ok {
		ms = types.NewMethodSet(types.NewPointer(t))
		for i := 0; i < ms.Len(); i++ {
			if ms.At(i).Obj().Name() == name {
				return true
			}
		}
	}
	return false
}

func deepCopy(m copyMode, t types.Type, v value, depth int) value {
	if depth > 60 {
		panic(unsupported("deepCopy: structure too deep or cyclic"))
	}
	switch tt := t.(type) {
	case *types.Named:
		// bitxhub-kit Hash / Address: only the raw bytes are encoded; the cached string
		// rendering (field 1) is not part of the document
		if ts := tt.String(); ts == "github.com/meshplus/bitxhub-kit/types.Hash" || ts == "github.com/meshplus/bitxhub-kit/types.Address" {
			if x, ok := v.(structure); ok && len(x) == 2 {
				st := tt.Underlying().(*types.Struct)
				return structure{deepCopy(copyMode{"plain"}, st.Field(0).Type(), x[0], depth+1), ""}
			}
		}
		if m.codec == "json" && (hasMethod(tt, "MarshalJSON") || hasMethod(tt, "MarshalText")) {
			return deepCopy(copyMode{"plain"}, tt.Underlying(), v, depth+1)
		}
		return deepCopy(m, tt.Underlying(), v, depth)
	case *types.Alias:
		return deepCopy(m, types.Unalias(tt), v, depth)
	}
	switch x := v.(type) {
	case nil:
		return nil
	case string:
		if m.codec == "json" {
			// encoding/json writes every byte that is not part of a valid UTF-8 sequence as U+FFFD
			return jsonCoerceUTF8(x)
		}
		return x
	case bool, int, int8, int16, int32, int64, uint, uint8, uint16, uint32, uint64, uintptr, float32, float64, complex64, complex128, symv, *symStr, bigval, decCell, *blobCell, rtype:
		return x
	case *value:
		if x == nil {
			return x
		}
		pt, ok := t.Underlying().(*types.Pointer)
		if !ok {
			panic(unsupported(fmt.Sprintf("deepCopy: pointer value with static type %s", t)))
		}
		c := deepCopy(m, pt.Elem(), *x, depth+1)
		return &c
	case structure:
		st, ok := t.Underlying().(*types.Struct)
		if !ok {
			panic(unsupported(fmt.Sprintf("deepCopy: struct value with static type %s", t)))
		}
		out := make(structure, len(x))
		for i := range x {
			f := st.Field(i)
			drop := false
			if m.codec == "json" {
				tag := reflect.StructTag(st.Tag(i)).Get("json")
				if !f.Exported() || tag == "-" {
					drop = true
				}
				if f.Embedded() && f.Exported() {
					drop = false
				}
			}
			if m.codec == "proto" && strings.HasPrefix(f.Name(), "XXX_") {
				drop = true
			}
			if drop {
				out[i] = zero(f.Type())
			} else {
				out[i] = deepCopy(m, f.Type(), x[i], depth+1)
			}
		}
		return out
	case array:
		at := t.Underlying().(*types.Array)
		out := make(array, len(x))
		for i := range x {
			out[i] = deepCopy(m, at.Elem(), x[i], depth+1)
		}
		return out
	case []value:
		if x == nil {
			return x
		}
		if len(x) == 0 && m.codec == "proto" {
			return []value(nil)
		}
		st, ok := t.Underlying().(*types.Slice)
		if !ok {
			panic(unsupported(fmt.Sprintf("deepCopy: slice value with static type %s", t)))
		}
		out := make([]value, len(x))
		for i := range x {
			out[i] = deepCopy(m, st.Elem(), x[i], depth+1)
		}
		return out
	case *omap:
		if x == nil {
			return x
		}
		if len(x.keys) == 0 && m.codec == "proto" {
			return (*omap)(nil)
		}
		mt := t.Underlying().(*types.Map)
		out := newOmap(x.keyType)
		order := make([]int, len(x.keys))
		for i := range order {
			order[i] = i
		}
		if m.codec == "json" {
			// the encoder writes the entries sorted by key; this only matters when two keys become
			// equal after the UTF-8 coercion (the decoder keeps the last one)
			allStr := true
			for _, k := range x.keys {
				if _, ok := k.(string); !ok {
					allStr = false
				}
			}
			if allStr {
				sort.SliceStable(order, func(a, b int) bool { return x.keys[order[a]].(string) < x.keys[order[b]].(string) })
				sorted := true
				for i := range order {
					if order[i] != i {
						sorted = false
					}
				}
				coerced := false
				for _, k := range x.keys {
					if jsonCoerceUTF8(k.(string)) != k.(string) {
						coerced = true
					}
				}
				if !coerced && !sorted {
					// no collision possible: keep the insertion order (iteration order is modelled elsewhere)
					for i := range order {
						order[i] = i
					}
				}
			}
		}
		for _, i := range order {
			k := deepCopy(m, mt.Key(), x.keys[i], depth+1)
			v := deepCopy(m, mt.Elem(), x.vals[i], depth+1)
			if ck, ok := canonKey(k); ok {
				if j, dup := out.idx[ck]; dup {
					out.vals[j] = v
					continue
				}
				out.idx[ck] = len(out.keys)
			} else {
				out.nsym++
			}
			out.keys = append(out.keys, k)
			out.vals = append(out.vals, v)
		}
		return out
	case iface:
		if x.t == nil {
			return x
		}
		if m.codec == "json" {
			switch x.t.Underlying().(type) {
			case *types.Basic:
				if b := x.t.Underlying().(*types.Basic); b.Kind() == types.String || b.Kind() == types.Bool {
					return x
				}
			}
			if sl, ok := x.t.Underlying().(*types.Slice); ok {
				if b, isB := sl.Elem().Underlying().(*types.Basic); isB && b.Kind() == types.Uint8 {
					// a []byte inside an interface{} is written as base64 text and read back as a string
					if bs, okv := x.v.([]value); okv {
						if raw, conc := concBytes(bs); conc {
							if bs == nil {
								return iface{}
							}
							return iface{t: types.Typ[types.String], v: base64.StdEncoding.EncodeToString(raw)}
						}
					}
				}
			}
			panic(unsupported(fmt.Sprintf("json of interface value holding %s", x.t)))
		}
		return iface{t: x.t, v: deepCopy(m, x.t, x.v, depth+1)}
	case *closure:
		return x
	case *chanv:
		return x
	}
	if fn, ok := v.(interface{ String() string }); ok {
		_ = fn
		return v
	}
	panic(unsupported(fmt.Sprintf("deepCopy of %T", v)))
}

// deepEqTerm is structural equality of two snapshots of type t.
func deepEqTerm(fr *frame, t types.Type, a, b value, depth int) *term.Term {
	if depth > 60 {
		panic(unsupported("deepEq: too deep"))
	}
	switch tt := t.(type) {
	case *types.Named:
		return deepEqTerm(fr, tt.Underlying(), a, b, depth)
	case *types.Alias:
		return deepEqTerm(fr, types.Unalias(tt), a, b, depth)
	}
	switch x := a.(type) {
	case nil:
		return term.BoolConst(b == nil)
	case *value:
		y := b.(*value)
		if x == nil || y == nil {
			return term.BoolConst(x == nil && y == nil)
		}
		return deepEqTerm(fr, t.Underlying().(*types.Pointer).Elem(), *x, *y, depth+1)
	case structure:
		y := b.(structure)
		st := t.Underlying().(*types.Struct)
		var cs []*term.Term
		for i := range x {
			c := deepEqTerm(fr, st.Field(i).Type(), x[i], y[i], depth+1)
			if c.IsFalse() {
				return term.False
			}
			cs = append(cs, c)
		}
		return term.And(cs...)
	case array:
		y := b.(array)
		et := t.Underlying().(*types.Array).Elem()
		var cs []*term.Term
		for i := range x {
			c := deepEqTerm(fr, et, x[i], y[i], depth+1)
			if c.IsFalse() {
				return term.False
			}
			cs = append(cs, c)
		}
		return term.And(cs...)
	case []value:
		y := b.([]value)
		if len(x) != len(y) {
			return term.False
		}
		var et types.Type
		if st, ok := t.Underlying().(*types.Slice); ok {
			et = st.Elem()
		}
		if et != nil {
			if bt, ok := et.Underlying().(*types.Basic); ok && bt.Kind() == types.Uint8 {
				return strEqTerm(fr, bytesToStr(x), bytesToStr(y))
			}
		}
		var cs []*term.Term
		for i := range x {
			c := deepEqTerm(fr, et, x[i], y[i], depth+1)
			if c.IsFalse() {
				return term.False
			}
			cs = append(cs, c)
		}
		return term.And(cs...)
	case *omap:
		y := b.(*omap)
		if x.len() != y.len() {
			return term.False
		}
		if x.len() == 0 {
			return term.True
		}
		mt := t.Underlying().(*types.Map)
		var cs []*term.Term
		for i, k := range x.keys {
			ck, ok := canonKey(k)
			if !ok || y.nsym > 0 {
				panic(unsupported("deepEq of maps with symbolic keys"))
			}
			j, ok := y.idx[ck]
			if !ok {
				return term.False
			}
			c := deepEqTerm(fr, mt.Elem(), x.vals[i], y.vals[j], depth+1)
			if c.IsFalse() {
				return term.False
			}
			cs = append(cs, c)
		}
		return term.And(cs...)
	case iface:
		y := b.(iface)
		if x.t == nil || y.t == nil {
			return term.BoolConst(x.t == nil && y.t == nil)
		}
		if !types.Identical(x.t, y.t) {
			return term.False
		}
		return deepEqTerm(fr, x.t, x.v, y.v, depth+1)
	case bigval:
		return term.Eq(x.t, b.(bigval).t)
	case *closure, *chanv:
		return term.BoolConst(a == b)
	}
	return eqTerm(fr, t, a, b)
}

var blobCounter int

// marshalBlob snapshots v (an interface value holding a value or pointer) into a one-cell byte slice.
func marshalBlob(fr *frame, codec string, t types.Type, v value) []value {
	// strip pointers
	for {
		p, ok := v.(*value)
		if !ok {
			break
		}
		pt, isPtr := t.Underlying().(*types.Pointer)
		if !isPtr {
			break
		}
		if p == nil {
			fr.i.ps.blobSeq++
			return []value{&blobCell{codec: codec, typ: t, snap: nil, id: fr.i.ps.blobSeq}}
		}
		t, v = pt.Elem(), *p
	}
	snap := deepCopy(copyMode{codec}, t, v, 0)
	if codec == "proto" {
		// a message whose fields all hold their zero value encodes to no bytes at all
		if z := protoIsZero(fr, t, snap, 0); z.IsTrue() || (!z.IsFalse() && fr.decide(z)) {
			return []value{}
		}
	}
	fr.i.ps.blobSeq++
	return []value{&blobCell{codec: codec, typ: t, snap: snap, id: fr.i.ps.blobSeq}}
}

// unmarshalBlob copies the snapshot into *dst (static type of dst is pointer to dt).
// Returns false if data is not a blob that fits.
func unmarshalBlob(fr *frame, codec string, data []value, dt types.Type, dst *value) (bool, string) {
	if len(data) != 1 {
		return false, ""
	}
	b, ok := data[0].(*blobCell)
	if !ok {
		return false, ""
	}
	if b.codec != codec {
		return false, "codec mismatch"
	}
	// dt may itself be a pointer type (Unmarshal(data, &ptr))
	if b.snap == nil {
		// "null"
		*dst = zero(dt)
		return true, ""
	}
	if types.Identical(dt, b.typ) {
		c := deepCopy(copyMode{codec}, dt, b.snap, 0)
		storeMerge(codec, dt, dst, c)
		return true, ""
	}
	if pt, ok := dt.Underlying().(*types.Pointer); ok && types.Identical(pt.Elem(), b.typ) {
		c := deepCopy(copyMode{codec}, b.typ, b.snap, 0)
		if op, ok := (*dst).(*value); ok && op != nil && codec == "json" {
			*op = jsonMerge(b.typ, *op, c, 0) // a non-nil pointer keeps its pointee
			return true, ""
		}
		*dst = &c
		return true, ""
	}
	if c, ok := convertShape(copyMode{codec}, b.typ, dt, b.snap, 0); ok {
		storeMerge(codec, dt, dst, c)
		return true, ""
	}
	if codec == "json" {
		// a document of one JSON kind never decodes into a Go value of another kind: encoding/json
		// reports an UnmarshalTypeError (the destination is left as it was)
		if sk, dk := jsonKind(b.typ), jsonKind(dt); sk != "" && dk != "" && sk != dk {
			return false, fmt.Sprintf("jsonerr:json: cannot unmarshal %s into Go value of type %s", sk, dt)
		}
	}
	// interface{} target: unsupported
	return false, fmt.Sprintf("type mismatch: encoded %s, decoding into %s", b.typ, dt)
}

// jsonKind: the kind of JSON document a value of type t encodes to ("" = not known here).
func jsonKind(t types.Type) string {
	for depth := 0; depth < 8; depth++ {
		if nt, ok := t.(*types.Named); ok && (hasMethod(nt, "MarshalJSON") || hasMethod(nt, "MarshalText") || hasMethod(nt, "UnmarshalJSON") || hasMethod(nt, "UnmarshalText")) {
			return ""
		}
		switch u := t.Underlying().(type) {
		case *types.Pointer:
			t = u.Elem()
			continue
		case *types.Basic:
			switch {
			case u.Kind() == types.String:
				return "string"
			case u.Kind() == types.Bool:
				return "bool"
			case u.Info()&types.IsNumeric != 0:
				return "number"
			}
			return ""
		case *types.Struct, *types.Map:
			return "object"
		case *types.Slice:
			if b, ok := u.Elem().Underlying().(*types.Basic); ok && b.Kind() == types.Uint8 {
				return "string"
			}
			return "array"
		case *types.Array:
			return "array"
		}
		return ""
	}
	return ""
}

// storeMerge stores decoded value c into *dst. encoding/json decodes INTO the existing destination:
// fields that are not encoded stay, a non-nil map keeps its other entries, the elements of a slice are
// decoded into the old elements of its backing array (up to its capacity), a non-nil pointer keeps
// its pointee (see jsonMerge).
func storeMerge(codec string, t types.Type, dst *value, c value) {
	if codec == "json" {
		*dst = jsonMerge(t, *dst, c, 0)
		return
	}
	*dst = c
}

// jsonCoerceUTF8: what a string looks like after a trip through encoding/json.
func jsonCoerceUTF8(s string) string {
	if utf8.ValidString(s) {
		return s
	}
	var b strings.Builder
	for i := 0; i < len(s); {
		r, size := utf8.DecodeRuneInString(s[i:])
		if r == utf8.RuneError && size == 1 {
			b.WriteString("\uFFFD")
		} else {
			b.WriteString(s[i : i+size])
		}
		i += size
	}
	return b.String()
}

// jsonIsEmpty: encoding/json's omitempty test; ok=false when it cannot be decided concretely.
func jsonIsEmpty(v value) (empty bool, ok bool) {
	switch x := v.(type) {
	case nil:
		return true, true
	case bool:
		return !x, true
	case int:
		return x == 0, true
	case int8:
		return x == 0, true
	case int16:
		return x == 0, true
	case int32:
		return x == 0, true
	case int64:
		return x == 0, true
	case uint:
		return x == 0, true
	case uint8:
		return x == 0, true
	case uint16:
		return x == 0, true
	case uint32:
		return x == 0, true
	case uint64:
		return x == 0, true
	case uintptr:
		return x == 0, true
	case float32:
		return x == 0, true
	case float64:
		return x == 0, true
	case string:
		return x == "", true
	case *value:
		return x == nil, true
	case []value:
		return len(x) == 0, true
	case array:
		return len(x) == 0, true
	case *omap:
		return x == nil || len(x.keys) == 0, true
	case iface:
		return x.t == nil, true
	case structure:
		return false, true
	}
	return false, false
}

// jsonMerge computes what the destination holds after decoding the document whose content is the
// snapshot nw (a deep copy already) into a destination that currently holds old.
func jsonMerge(t types.Type, old, nw value, depth int) value {
	if depth > 60 {
		panic(unsupported("jsonMerge: structure too deep"))
	}
	if nt, isNamed := t.(*types.Named); isNamed {
		if ts := nt.String(); ts == "github.com/meshplus/bitxhub-kit/types.Hash" || ts == "github.com/meshplus/bitxhub-kit/types.Address" {
			// UnmarshalJSON copies the raw bytes into the receiver and leaves the cached rendering alone
			o, ok1 := old.(structure)
			n, ok2 := nw.(structure)
			if ok1 && ok2 && len(o) == 2 && len(n) == 2 {
				return structure{n[0], o[1]}
			}
			return nw
		}
		if hasMethod(nt, "UnmarshalJSON") || hasMethod(nt, "UnmarshalText") {
			return nw
		}
	}
	if a, ok := t.(*types.Alias); ok {
		return jsonMerge(types.Unalias(a), old, nw, depth)
	}
	switch u := t.Underlying().(type) {
	case *types.Pointer:
		np, ok1 := nw.(*value)
		op, ok2 := old.(*value)
		if !ok1 || np == nil || !ok2 || op == nil {
			return nw
		}
		*op = jsonMerge(u.Elem(), *op, *np, depth+1)
		return op
	case *types.Struct:
		o, ok1 := old.(structure)
		n, ok2 := nw.(structure)
		if !ok1 || !ok2 || len(o) != len(n) {
			return nw
		}
		for i := range n {
			f := u.Field(i)
			tag := reflect.StructTag(u.Tag(i)).Get("json")
			if (!f.Exported() || tag == "-") && !(f.Embedded() && f.Exported()) {
				n[i] = o[i]
				continue
			}
			if strings.Contains(tag, ",omitempty") {
				if e, ok := jsonIsEmpty(n[i]); ok && e {
					n[i] = o[i] // absent from the document
					continue
				}
			}
			n[i] = jsonMerge(f.Type(), o[i], n[i], depth+1)
		}
		return n
	case *types.Slice:
		if b, ok := u.Elem().Underlying().(*types.Basic); ok && b.Kind() == types.Uint8 {
			return nw // base64 text: replaced as a whole
		}
		n, ok1 := nw.([]value)
		o, ok2 := old.([]value)
		if !ok1 || n == nil || !ok2 || cap(o) == 0 {
			return nw
		}
		full := o[:cap(o)]
		res := o[:0]
		for i := range n {
			if i < len(full) {
				res = full[:i+1]
				res[i] = jsonMerge(u.Elem(), full[i], n[i], depth+1)
			} else {
				res = append(res, n[i])
			}
		}
		return res
	case *types.Array:
		n, ok1 := nw.(array)
		o, ok2 := old.(array)
		if !ok1 || !ok2 || len(n) != len(o) {
			return nw
		}
		for i := range n {
			n[i] = jsonMerge(u.Elem(), o[i], n[i], depth+1)
		}
		return n
	case *types.Map:
		n, ok1 := nw.(*omap)
		o, ok2 := old.(*omap)
		if !ok1 || n == nil || !ok2 || o == nil {
			return nw
		}
		for i := range n.keys {
			ck, ok := canonKey(n.keys[i])
			if !ok {
				panic(unsupported("json decode into a non-empty map with symbolic keys"))
			}
			if j, dup := o.idx[ck]; dup {
				o.vals[j] = n.vals[i]
				continue
			}
			if o.nsym > 0 {
				panic(unsupported("json decode into a non-empty map with symbolic keys"))
			}
			o.idx[ck] = len(o.keys)
			o.keys = append(o.keys, n.keys[i])
			o.vals = append(o.vals, n.vals[i])
		}
		return o
	}
	return nw
}

// convertShape re-shapes a snapshot of type st into type dt when both denote the same
// encoded document up to pointer indirection (T vs *T) inside slices, maps and pointers.
func convertShape(m copyMode, st, dt types.Type, v value, depth int) (value, bool) {
	if depth > 40 {
		return nil, false
	}
	if types.Identical(st, dt) {
		return deepCopy(m, dt, v, depth), true
	}
	if dp, ok := dt.Underlying().(*types.Pointer); ok {
		if sp, ok := st.Underlying().(*types.Pointer); ok {
			p := v.(*value)
			if p == nil {
				return (*value)(nil), true
			}
			c, ok := convertShape(m, sp.Elem(), dp.Elem(), *p, depth+1)
			if !ok {
				return nil, false
			}
			return &c, true
		}
		c, ok := convertShape(m, st, dp.Elem(), v, depth+1)
		if !ok {
			return nil, false
		}
		return &c, true
	}
	if sp, ok := st.Underlying().(*types.Pointer); ok {
		p := v.(*value)
		if p == nil {
			return zero(dt), true
		}
		return convertShape(m, sp.Elem(), dt, *p, depth+1)
	}
	switch du := dt.Underlying().(type) {
	case *types.Slice:
		su, ok := st.Underlying().(*types.Slice)
		if !ok {
			return nil, false
		}
		xs := v.([]value)
		if xs == nil {
			return []value(nil), true
		}
		out := make([]value, len(xs))
		for i, x := range xs {
			c, ok := convertShape(m, su.Elem(), du.Elem(), x, depth+1)
			if !ok {
				return nil, false
			}
			out[i] = c
		}
		return out, true
	case *types.Map:
		su, ok := st.Underlying().(*types.Map)
		if !ok || !types.Identical(su.Key(), du.Key()) {
			return nil, false
		}
		x := v.(*omap)
		if x == nil {
			return (*omap)(nil), true
		}
		out := newOmap(x.keyType)
		for i := range x.keys {
			c, ok := convertShape(m, su.Elem(), du.Elem(), x.vals[i], depth+1)
			if !ok {
				return nil, false
			}
			out.keys = append(out.keys, x.keys[i])
			out.vals = append(out.vals, c)
			if ck, ok := canonKey(x.keys[i]); ok {
				out.idx[ck] = i
			} else {
				out.nsym++
			}
		}
		return out, true
	case *types.Struct:
		// two struct types describing the same JSON document: fields are matched by their JSON
		// names the way encoding/json does (exact, else case-insensitive); fields of the
		// destination without a counterpart keep their zero value, extra source fields are dropped
		su, ok := st.Underlying().(*types.Struct)
		if !ok || m.codec != "json" {
			return nil, false
		}
		if nt, isNamed := st.(*types.Named); isNamed && (hasMethod(nt, "MarshalJSON") || hasMethod(types.NewPointer(nt), "MarshalJSON") || hasMethod(nt, "MarshalText")) {
			return nil, false
		}
		if nt, isNamed := dt.(*types.Named); isNamed && (hasMethod(types.NewPointer(nt), "UnmarshalJSON") || hasMethod(types.NewPointer(nt), "UnmarshalText")) {
			return nil, false
		}
		jsonName := func(t *types.Struct, i int) (string, bool) {
			f := t.Field(i)
			tag := reflect.StructTag(t.Tag(i)).Get("json")
			if !f.Exported() || tag == "-" || f.Embedded() {
				return "", false
			}
			if k := strings.IndexByte(tag, ','); k >= 0 {
				if strings.Contains(tag[k:], "string") {
					return "", false
				}
				tag = tag[:k]
			}
			if tag == "" {
				tag = f.Name()
			}
			return tag, true
		}
		for i := 0; i < su.NumFields(); i++ {
			if su.Field(i).Embedded() {
				return nil, false
			}
		}
		src := v.(structure)
		out := zero(dt).(structure)
		for j := 0; j < du.NumFields(); j++ {
			if du.Field(j).Embedded() {
				return nil, false
			}
			dn, ok := jsonName(du, j)
			if !ok {
				continue
			}
			match := -1
			for i := 0; i < su.NumFields(); i++ {
				sn, ok := jsonName(su, i)
				if !ok {
					continue
				}
				if sn == dn {
					match = i
					break
				}
				if match < 0 && strings.EqualFold(sn, dn) {
					match = i
				}
			}
			if match < 0 {
				continue
			}
			c, ok := convertShape(m, su.Field(match).Type(), du.Field(j).Type(), src[match], depth+1)
			if !ok {
				return nil, false
			}
			out[j] = c
		}
		return out, true
	}
	return nil, false
}

// protoIsZero: does a gogo-proto message snapshot encode to zero bytes? proto3 omits every field
// that holds its zero value: numbers 0, false, "", empty bytes / repeated fields / maps, nil
// sub-messages and nil custom types. A non-nil pointer (sub-message or custom type) is encoded
// even when empty. The answer is a term because scalar fields may be symbolic.
func protoIsZero(fr *frame, t types.Type, v value, depth int) *term.Term {
	if depth > 20 {
		return term.False
	}
	switch x := v.(type) {
	case nil:
		return term.True
	case symv, bool, int, int8, int16, int32, int64, uint, uint8, uint16, uint32, uint64, uintptr, float32, float64, string, *symStr:
		return eqTerm(fr, t, v, zero(t))
	case *value:
		return term.BoolConst(x == nil)
	case []value:
		return term.BoolConst(len(x) == 0)
	case *omap:
		return term.BoolConst(x == nil || len(x.keys) == 0)
	case iface:
		return term.BoolConst(x.t == nil)
	case structure:
		st, ok := t.Underlying().(*types.Struct)
		if !ok {
			return term.False
		}
		res := term.True
		for i := range x {
			if strings.HasPrefix(st.Field(i).Name(), "XXX_") {
				continue
			}
			res = term.And(res, protoIsZero(fr, st.Field(i).Type(), x[i], depth+1))
		}
		return res
	case array:
		return term.False
	}
	return term.False
}
