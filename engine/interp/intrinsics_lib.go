package interp

// Library intrinsics: strings, strconv, bytes, sort, hex, hashes, errors.

import (
	"os"
	"bytes"
	"crypto/sha256"
	"encoding/base64"
	"encoding/hex"
	"fmt"
	"go/token"
	"go/types"
	"math/big"
	"sort"
	"strconv"
	"strings"
	"unicode/utf8"

	"golang.org/x/crypto/sha3"

	"symgo/term"
)

const (
	tokenADD = token.ADD
	tokenSUB = token.SUB
	tokenMUL = token.MUL
	tokenQUO = token.QUO
	tokenLSS = token.LSS
	tokenGEQ = token.GEQ
)

func concStr(v value) (string, bool) { s, ok := v.(string); return s, ok }

func concStrs(v value) ([]string, bool) {
	xs, ok := v.([]value)
	if !ok {
		return nil, false
	}
	out := make([]string, len(xs))
	for i, x := range xs {
		s, ok := x.(string)
		if !ok {
			return nil, false
		}
		out[i] = s
	}
	return out, true
}

func strsValue(xs []string) []value {
	out := make([]value, len(xs))
	for i, x := range xs {
		out[i] = x
	}
	return out
}

func errorValue(fr *frame, msg value) value {
	pkg := fr.i.prog.ImportedPackage("errors")
	t := pkg.Type("errorString").Type()
	var cell value = structure{msg}
	return iface{types.NewPointer(t), &cell}
}

func nilError() value { return iface{} }

// callMethod calls method name on dynamic value (t, v) if it exists.
func callMethod(fr *frame, t types.Type, v value, name string) (value, bool) {
	mset := fr.i.prog.MethodSets.MethodSet(t)
	sel := mset.Lookup(nil, name)
	if sel == nil {
		// try unexported lookup not needed
		return nil, false
	}
	fn := fr.i.prog.MethodValue(sel)
	if fn == nil {
		return nil, false
	}
	return call(fr.i, fr, token.NoPos, fn, []value{v}), true
}

func callMethod2(fr *frame, t types.Type, v value, name string, arg value) (value, bool) {
	mset := fr.i.prog.MethodSets.MethodSet(t)
	sel := mset.Lookup(nil, name)
	if sel == nil {
		return nil, false
	}
	fn := fr.i.prog.MethodValue(sel)
	if fn == nil {
		return nil, false
	}
	return call(fr.i, fr, token.NoPos, fn, []value{v, arg}), true
}

func ss2(name string, f func(a, b string) value) {
	regOpt(name, func(fr *frame, args []value) (value, bool) {
		a, ok1 := concStr(args[0])
		b, ok2 := concStr(args[1])
		if !ok1 || !ok2 {
			return nil, false
		}
		return f(a, b), true
	})
}

func s1(name string, f func(a string) value) {
	regOpt(name, func(fr *frame, args []value) (value, bool) {
		a, ok1 := concStr(args[0])
		if !ok1 {
			return nil, false
		}
		return f(a), true
	})
}

func init() {
	// ---- strings ----
	ss2("strings.Contains", func(a, b string) value { return strings.Contains(a, b) })
	ss2("strings.ContainsAny", func(a, b string) value { return strings.ContainsAny(a, b) })
	ss2("strings.HasPrefix", func(a, b string) value { return strings.HasPrefix(a, b) })
	ss2("strings.HasSuffix", func(a, b string) value { return strings.HasSuffix(a, b) })
	ss2("strings.Index", func(a, b string) value { return strings.Index(a, b) })
	ss2("strings.LastIndex", func(a, b string) value { return strings.LastIndex(a, b) })
	ss2("strings.Count", func(a, b string) value { return strings.Count(a, b) })
	ss2("strings.EqualFold", func(a, b string) value { return strings.EqualFold(a, b) })
	ss2("strings.Compare", func(a, b string) value { return strings.Compare(a, b) })
	ss2("strings.TrimPrefix", func(a, b string) value { return strings.TrimPrefix(a, b) })
	ss2("strings.TrimSuffix", func(a, b string) value { return strings.TrimSuffix(a, b) })
	ss2("strings.Trim", func(a, b string) value { return strings.Trim(a, b) })
	ss2("strings.TrimLeft", func(a, b string) value { return strings.TrimLeft(a, b) })
	ss2("strings.TrimRight", func(a, b string) value { return strings.TrimRight(a, b) })
	ss2("strings.Fields", func(a, b string) value { return nil })
	delete(intrinsics, "strings.Fields")
	s1("strings.ToLower", func(a string) value { return strings.ToLower(a) })
	s1("strings.ToUpper", func(a string) value { return strings.ToUpper(a) })
	s1("strings.TrimSpace", func(a string) value { return strings.TrimSpace(a) })
	s1("strings.Title", func(a string) value { return strings.Title(a) })
	s1("strings.Fields", func(a string) value { return strsValue(strings.Fields(a)) })
	regOpt("strings.IndexByte", func(fr *frame, args []value) (value, bool) {
		a, ok := concStr(args[0])
		b, ok2 := args[1].(uint8)
		if !ok || !ok2 {
			return nil, false
		}
		return strings.IndexByte(a, b), true
	})
	regOpt("strings.Split", func(fr *frame, args []value) (value, bool) {
		sep, ok := concStr(args[1])
		if !ok {
			return nil, false
		}
		return strSplit(fr, args[0], sep, -1), true
	})
	regOpt("strings.SplitN", func(fr *frame, args []value) (value, bool) {
		sep, ok := concStr(args[1])
		n, ok2 := args[2].(int)
		if !ok || !ok2 {
			return nil, false
		}
		if _, conc := args[0].(string); !conc && n == 0 {
			return []value(nil), true
		}
		return strSplit(fr, args[0], sep, n), true
	})
	reg("strings.Join", func(fr *frame, args []value) value {
		xs := args[0].([]value)
		var segs []seg
		for i, x := range xs {
			if i > 0 {
				segs = append(segs, segsOf(args[1])...)
			}
			segs = append(segs, segsOf(x)...)
		}
		return mkStr(segs)
	})
	regOpt("strings.Replace", func(fr *frame, args []value) (value, bool) {
		a, ok1 := concStr(args[0])
		b, ok2 := concStr(args[1])
		c, ok3 := concStr(args[2])
		n, ok4 := args[3].(int)
		if !ok1 || !ok2 || !ok3 || !ok4 {
			return nil, false
		}
		return strings.Replace(a, b, c, n), true
	})
	regOpt("strings.ReplaceAll", func(fr *frame, args []value) (value, bool) {
		a, ok1 := concStr(args[0])
		b, ok2 := concStr(args[1])
		c, ok3 := concStr(args[2])
		if !ok1 || !ok2 || !ok3 {
			return nil, false
		}
		return strings.ReplaceAll(a, b, c), true
	})
	regOpt("strings.Repeat", func(fr *frame, args []value) (value, bool) {
		a, ok1 := concStr(args[0])
		n, ok2 := args[1].(int)
		if !ok1 || !ok2 {
			return nil, false
		}
		return strings.Repeat(a, n), true
	})
	// symbolic-aware prefix/suffix/contains for the literal-needle case
	symPrefix := func(name string, f func(fr *frame, s *symStr, needle string) (value, bool)) {
		old := intrinsics[name]
		regOpt(name, func(fr *frame, args []value) (value, bool) {
			if r, ok := old(fr, args); ok {
				return r, true
			}
			ss, ok1 := args[0].(*symStr)
			nd, ok2 := concStr(args[1])
			if !ok1 || !ok2 {
				panic(unsupported(name + " with symbolic needle"))
			}
			return f(fr, ss, nd)
		})
	}
	symPrefix("strings.HasPrefix", func(fr *frame, s *symStr, nd string) (value, bool) {
		pre, _, ok := splitAt(s.segs, len(nd))
		if !ok {
			// shorter than needle or variable part reached
			if n, fixed := fixedLen(s.segs); fixed && n < len(nd) {
				return false, true
			}
			if len(s.segs) > 0 && s.segs[0].kind == sLit {
				l := s.segs[0].lit
				if len(l) >= len(nd) {
					return strings.HasPrefix(l, nd), true
				}
				if !strings.HasPrefix(nd, l) {
					return false, true
				}
			}
			panic(unsupported("HasPrefix reaching into variable-length symbolic part"))
		}
		return mkSym(strEqTerm(fr, mkStr(pre), nd), types.Bool), true
	})
	symPrefix("strings.Contains", func(fr *frame, s *symStr, nd string) (value, bool) {
		// decide with literal parts only when the needle has no digit and symbolic bytes cannot complete it
		for _, sg := range s.segs {
			if sg.kind == sLit && strings.Contains(sg.lit, nd) {
				return true, true
			}
		}
		for i := 0; i < len(nd); i++ {
			if isDigit(nd[i]) {
				panic(unsupported("Contains on symbolic string with digit in needle"))
			}
		}
		for _, sg := range s.segs {
			if sg.kind == sByte {
				panic(unsupported("Contains on string with symbolic bytes"))
			}
		}
		// the needle has no digit, so it cannot overlap a decimal hole; blobs are opaque
		// (documented: codec output never contains a searched-for literal)
		return false, true
	})

	// strings.Builder / bytes.Buffer: interpreted bodies use unsafe; model via the buf field
	reg("(*strings.Builder).String", func(fr *frame, args []value) value {
		st := structOf(args[0])
		return bytesToStr(st[1].([]value))
	})
	reg("(*strings.Builder).copyCheck", func(fr *frame, args []value) value { return nil })

	// ---- strconv ----
	reg("strconv.Itoa", func(fr *frame, args []value) value { return mkStr(decSegs(fr, args[0])) })
	regOpt("strconv.FormatUint", func(fr *frame, args []value) (value, bool) {
		if b, ok := args[1].(int); ok && b == 10 {
			return mkStr(decSegs(fr, args[0])), true
		}
		if isSym(args[0]) {
			panic(unsupported("FormatUint symbolic non-decimal"))
		}
		return strconv.FormatUint(args[0].(uint64), args[1].(int)), true
	})
	regOpt("strconv.FormatInt", func(fr *frame, args []value) (value, bool) {
		if b, ok := args[1].(int); ok && b == 10 {
			return mkStr(decSegs(fr, args[0])), true
		}
		if isSym(args[0]) {
			panic(unsupported("FormatInt symbolic non-decimal"))
		}
		return strconv.FormatInt(args[0].(int64), args[1].(int)), true
	})
	numErr := func(fr *frame, fn, s string, msg string) value {
		return errorValue(fr, fmt.Sprintf("strconv.%s: parsing %q: %s", fn, s, msg))
	}
	reg("strconv.Atoi", func(fr *frame, args []value) value {
		if s, ok := concStr(args[0]); ok {
			n, err := strconv.Atoi(s)
			if err != nil {
				return tuple{0, numErr(fr, "Atoi", s, "invalid syntax")}
			}
			return tuple{n, nilError()}
		}
		t, ok := parseDec(args[0])
		if !ok {
			return tuple{0, numErr(fr, "Atoi", "<symbolic>", "invalid syntax")}
		}
		// range check
		lo, hi := term.IntConst(new(big.Int).Neg(new(big.Int).Lsh(big.NewInt(1), 63))), term.IntConst(new(big.Int).Sub(new(big.Int).Lsh(big.NewInt(1), 63), big.NewInt(1)))
		if fr.decide(term.And(term.IntCmp(">=", t, lo), term.IntCmp("<=", t, hi))) {
			return tuple{mkSym(term.Int2BV(t, 64), types.Int), nilError()}
		}
		return tuple{0, numErr(fr, "Atoi", "<symbolic>", "value out of range")}
	})
	reg("strconv.ParseUint", func(fr *frame, args []value) value {
		base, _ := args[1].(int)
		bits, _ := args[2].(int)
		if s, ok := concStr(args[0]); ok {
			n, err := strconv.ParseUint(s, base, bits)
			if err != nil {
				return tuple{n, numErr(fr, "ParseUint", s, "invalid syntax")}
			}
			return tuple{n, nilError()}
		}
		if base != 10 && base != 0 {
			panic(unsupported("ParseUint symbolic non-decimal"))
		}
		if bits == 0 {
			bits = 64
		}
		t, ok := parseDec(args[0])
		if !ok {
			return tuple{uint64(0), numErr(fr, "ParseUint", "<symbolic>", "invalid syntax")}
		}
		hi := term.IntConst(new(big.Int).Sub(new(big.Int).Lsh(big.NewInt(1), uint(bits)), big.NewInt(1)))
		if fr.decide(term.And(term.IntCmp(">=", t, term.IntConstI(0)), term.IntCmp("<=", t, hi))) {
			return tuple{mkSym(term.Int2BV(t, 64), types.Uint64), nilError()}
		}
		return tuple{uint64(0), numErr(fr, "ParseUint", "<symbolic>", "value out of range")}
	})
	reg("strconv.ParseInt", func(fr *frame, args []value) value {
		base, _ := args[1].(int)
		bits, _ := args[2].(int)
		if s, ok := concStr(args[0]); ok {
			n, err := strconv.ParseInt(s, base, bits)
			if err != nil {
				return tuple{n, numErr(fr, "ParseInt", s, "invalid syntax")}
			}
			return tuple{n, nilError()}
		}
		if bits == 0 {
			bits = 64
		}
		t, ok := parseDec(args[0])
		if !ok {
			return tuple{int64(0), numErr(fr, "ParseInt", "<symbolic>", "invalid syntax")}
		}
		lim := new(big.Int).Lsh(big.NewInt(1), uint(bits-1))
		lo, hi := term.IntConst(new(big.Int).Neg(lim)), term.IntConst(new(big.Int).Sub(lim, big.NewInt(1)))
		if fr.decide(term.And(term.IntCmp(">=", t, lo), term.IntCmp("<=", t, hi))) {
			return tuple{mkSym(term.Int2BV(t, 64), types.Int64), nilError()}
		}
		return tuple{int64(0), numErr(fr, "ParseInt", "<symbolic>", "value out of range")}
	})
	regOpt("strconv.ParseBool", func(fr *frame, args []value) (value, bool) {
		s, ok := concStr(args[0])
		if !ok {
			panic(unsupported("ParseBool symbolic"))
		}
		b, err := strconv.ParseBool(s)
		if err != nil {
			return tuple{false, numErr(fr, "ParseBool", s, "invalid syntax")}, true
		}
		return tuple{b, nilError()}, true
	})
	regOpt("strconv.ParseFloat", func(fr *frame, args []value) (value, bool) {
		s, ok := concStr(args[0])
		if !ok {
			panic(unsupported("ParseFloat symbolic"))
		}
		f, err := strconv.ParseFloat(s, args[1].(int))
		if err != nil {
			return tuple{f, numErr(fr, "ParseFloat", s, "invalid syntax")}, true
		}
		return tuple{f, nilError()}, true
	})
	regOpt("strconv.Quote", func(fr *frame, args []value) (value, bool) {
		if s, ok := concStr(args[0]); ok {
			return strconv.Quote(s), true
		}
		return mkStr(append(append([]seg{{kind: sLit, lit: "\""}}, segsOf(args[0])...), seg{kind: sLit, lit: "\""})), true
	})
	regOpt("strconv.FormatBool", func(fr *frame, args []value) (value, bool) {
		if b, ok := args[0].(bool); ok {
			return strconv.FormatBool(b), true
		}
		if fr.decide(boolTerm(args[0])) {
			return "true", true
		}
		return "false", true
	})
	regOpt("strconv.FormatFloat", func(fr *frame, args []value) (value, bool) {
		return strconv.FormatFloat(args[0].(float64), args[1].(byte), args[2].(int), args[3].(int)), true
	})

	// ---- bytes ----
	reg("bytes.Equal", func(fr *frame, args []value) value {
		a, b := args[0].([]value), args[1].([]value)
		return mkSym(strEqTerm(fr, bytesToStr(a), bytesToStr(b)), types.Bool)
	})
	reg("bytes.Compare", func(fr *frame, args []value) value {
		a, b := bytesToStr(args[0].([]value)), bytesToStr(args[1].([]value))
		if x, ok := a.(string); ok {
			if y, ok := b.(string); ok {
				return strings.Compare(x, y)
			}
		}
		if fr.decide(strEqTerm(fr, a, b)) {
			return 0
		}
		if fr.decide(strLessTerm(fr, a, b)) {
			return -1
		}
		return 1
	})
	regOpt("bytes.HasPrefix", func(fr *frame, args []value) (value, bool) {
		a, ok1 := concBytes(args[0].([]value))
		b, ok2 := concBytes(args[1].([]value))
		if !ok1 || !ok2 {
			return nil, false
		}
		return bytes.HasPrefix(a, b), true
	})
	regOpt("bytes.IndexByte", func(fr *frame, args []value) (value, bool) {
		a, ok1 := concBytes(args[0].([]value))
		b, ok2 := args[1].(uint8)
		if !ok1 || !ok2 {
			return nil, false
		}
		return bytes.IndexByte(a, b), true
	})
	reg("internal/bytealg.IndexByteString", func(fr *frame, args []value) value {
		a, ok := concStr(args[0])
		b, ok2 := args[1].(uint8)
		if !ok || !ok2 {
			panic(unsupported("bytealg.IndexByteString symbolic"))
		}
		return strings.IndexByte(a, b)
	})
	reg("internal/bytealg.IndexByte", func(fr *frame, args []value) value {
		a, ok := concBytes(args[0].([]value))
		b, ok2 := args[1].(uint8)
		if !ok || !ok2 {
			panic(unsupported("bytealg.IndexByte symbolic"))
		}
		return bytes.IndexByte(a, b)
	})
	reg("internal/bytealg.CountString", func(fr *frame, args []value) value {
		a, ok := concStr(args[0])
		b, ok2 := args[1].(uint8)
		if !ok || !ok2 {
			panic(unsupported("bytealg.CountString symbolic"))
		}
		return strings.Count(a, string([]byte{b}))
	})
	reg("internal/bytealg.IndexString", func(fr *frame, args []value) value {
		a, ok := concStr(args[0])
		b, ok2 := concStr(args[1])
		if !ok || !ok2 {
			panic(unsupported("bytealg.IndexString symbolic"))
		}
		return strings.Index(a, b)
	})
	reg("internal/bytealg.Equal", func(fr *frame, args []value) value {
		return mkSym(strEqTerm(fr, bytesToStr(args[0].([]value)), bytesToStr(args[1].([]value))), types.Bool)
	})
	reg("internal/bytealg.Compare", func(fr *frame, args []value) value {
		a, ok := concBytes(args[0].([]value))
		b, ok2 := concBytes(args[1].([]value))
		if !ok || !ok2 {
			panic(unsupported("bytealg.Compare symbolic"))
		}
		return bytes.Compare(a, b)
	})
	reg("internal/stringslite.Index", func(fr *frame, args []value) value {
		a, ok := concStr(args[0])
		b, ok2 := concStr(args[1])
		if !ok || !ok2 {
			panic(unsupported("stringslite.Index symbolic"))
		}
		return strings.Index(a, b)
	})
	regOpt("unicode/utf8.ValidString", func(fr *frame, args []value) (value, bool) {
		if s, ok := concStr(args[0]); ok {
			return utf8.ValidString(s), true
		}
		return true, true
	})
	regOpt("unicode/utf8.RuneCountInString", func(fr *frame, args []value) (value, bool) {
		if s, ok := concStr(args[0]); ok {
			return utf8.RuneCountInString(s), true
		}
		return nil, false
	})

	// ---- hex / base64 ----
	regOpt("encoding/hex.EncodeToString", func(fr *frame, args []value) (value, bool) {
		b, ok := concBytes(args[0].([]value))
		if !ok {
			return nil, false
		}
		return hex.EncodeToString(b), true
	})
	regOpt("encoding/hex.DecodeString", func(fr *frame, args []value) (value, bool) {
		s, ok := concStr(args[0])
		if !ok {
			return nil, false
		}
		b, err := hex.DecodeString(s)
		if err != nil {
			return tuple{bytesValue(b), errorValue(fr, err.Error())}, true
		}
		if b == nil {
			b = []byte{}
		}
		return tuple{bytesValue(b), nilError()}, true
	})
	regOpt("(*encoding/base64.Encoding).EncodeToString", func(fr *frame, args []value) (value, bool) {
		b, ok := concBytes(args[1].([]value))
		if !ok {
			return nil, false
		}
		return base64.StdEncoding.EncodeToString(b), true
	})

	// ---- sort ----
	reg("sort.Strings", func(fr *frame, args []value) value {
		xs := args[0].([]value)
		if ss, ok := concStrs(xs); ok {
			sort.Strings(ss)
			copy(xs, strsValue(ss))
			return nil
		}
		insertionSort(fr, len(xs), func(i, j int) bool { return fr.decide(strLessTerm(fr, xs[i], xs[j])) }, func(i, j int) { xs[i], xs[j] = xs[j], xs[i] })
		return nil
	})
	sortSlice := func(fr *frame, args []value) value {
		xs := args[0].(iface).v.([]value)
		less := args[1]
		insertionSort(fr, len(xs), func(i, j int) bool {
			r := call(fr.i, fr, token.NoPos, less, []value{i, j})
			switch r := r.(type) {
			case bool:
				return r
			case symv:
				return fr.decide(r.t)
			}
			panic("sort.Slice less result")
		}, func(i, j int) { xs[i], xs[j] = xs[j], xs[i] })
		return nil
	}
	reg("sort.Slice", sortSlice)
	reg("sort.SliceStable", sortSlice)

	// ---- hashes ----
	reg("crypto/sha256.Sum256", func(fr *frame, args []value) value {
		return array(bytesValue(hashBytes(fr, "sha256", args[0].([]value))))
	})

	// ---- errors ----
	reg("errors.New", func(fr *frame, args []value) value { return errorValue(fr, args[0]) })
	reg("errors.Is", func(fr *frame, args []value) value {
		err, target := args[0].(iface), args[1].(iface)
		for depth := 0; depth < 20; depth++ {
			if err.t == nil {
				return target.t == nil
			}
			if target.t != nil && types.Identical(err.t, target.t) && types.Comparable(err.t) {
				c := eqTerm(fr, err.t, err.v, target.v)
				if fr.decide(c) {
					return true
				}
			}
			u, ok := callMethod(fr, err.t, err.v, "Unwrap")
			if !ok {
				return false
			}
			ui, ok := u.(iface)
			if !ok {
				return false
			}
			err = ui
		}
		return false
	})
	reg("errors.Unwrap", func(fr *frame, args []value) value {
		err := args[0].(iface)
		if err.t == nil {
			return iface{}
		}
		u, ok := callMethod(fr, err.t, err.v, "Unwrap")
		if !ok {
			return iface{}
		}
		if ui, ok := u.(iface); ok {
			return ui
		}
		return iface{}
	})
	reg("errors.As", func(fr *frame, args []value) value {
		err, target := args[0].(iface), args[1].(iface)
		pt, ok := target.t.Underlying().(*types.Pointer)
		if !ok {
			panic("errors.As: target must be a non-nil pointer")
		}
		tt := pt.Elem()
		for depth := 0; depth < 20 && err.t != nil; depth++ {
			if it, isI := tt.Underlying().(*types.Interface); isI {
				if types.Implements(err.t, it) {
					*(target.v.(*value)) = err
					return true
				}
			} else if types.Identical(err.t, tt) {
				*(target.v.(*value)) = err.v
				return true
			}
			u, ok := callMethod(fr, err.t, err.v, "Unwrap")
			if !ok {
				return false
			}
			ui, ok := u.(iface)
			if !ok {
				return false
			}
			err = ui
		}
		return false
	})
}

func insertionSort(fr *frame, n int, less func(i, j int) bool, swap func(i, j int)) {
	for i := 1; i < n; i++ {
		for j := i; j > 0 && less(j, j-1); j-- {
			swap(j, j-1)
		}
	}
}

// hashBytes: real digest for concrete input; for symbolic input a pseudo digest,
// made functionally consistent (and injective) by deciding equality with every
// earlier symbolic input of the same hash function on this path.
func hashBytes(fr *frame, fn string, in []value) []byte {
	if b, ok := concBytes(in); ok {
		return realHash(fn, b)
	}
	ps := fr.i.ps
	sv := bytesToStr(in)
	for _, h := range ps.hashLog {
		if h.fn != fn {
			continue
		}
		c := hashInputEq(fr, h.in, sv)
		if os.Getenv("SYMGO_DEBUG") == "hash" && c.IsFalse() {
			fmt.Fprintf(os.Stderr, "hash inputs differ:\n  A=%s\n  B=%s\n", toString(h.in), toString(sv))
		}
		if ps.NoHashFork && !c.IsConst() {
			// stated bound: two hash inputs that can differ are taken to differ (the
			// "equal inputs" branch is explored only when the path condition forces it)
			if fr.decideNoFork(c, false) {
				return h.digest
			}
			continue
		}
		if fr.decide(c) {
			return h.digest
		}
	}
	d := realHash(fn, []byte(fmt.Sprintf("symgo-pseudo-digest#%d", len(ps.hashLog))))
	ps.hashLog = append(ps.hashLog, hashRec{fn: fn, in: sv, digest: d})
	return d
}

func realHash(fn string, b []byte) []byte {
	switch fn {
	case "sha256":
		h := sha256.Sum256(b)
		return h[:]
	case "keccak256":
		h := sha3.NewLegacyKeccak256()
		h.Write(b)
		return h.Sum(nil)
	case "sha3-256":
		h := sha3.Sum256(b)
		return h[:]
	}
	panic("realHash " + fn)
}

// ---- streaming hash objects (sha3 keccak, sha256.New) ----

type hashState struct {
	fn  string
	buf []value
}

func newHashObj(fr *frame, pkgPath, typeName, fn string) value {
	pkg := fr.i.prog.ImportedPackage(pkgPath)
	if pkg == nil {
		panic(unsupported("package not loaded: " + pkgPath))
	}
	t := pkg.Type(typeName).Type()
	var cell value = &hashState{fn: fn}
	return iface{types.NewPointer(t), &cell}
}

func hashObj(recv value) *hashState {
	p, ok := recv.(*value)
	if !ok || p == nil {
		panic("runtime error: invalid memory address or nil pointer dereference")
	}
	h, ok := (*p).(*hashState)
	if !ok {
		panic(unsupported("hash object not created through a modelled constructor"))
	}
	return h
}

func init() {
	reg("golang.org/x/crypto/sha3.NewLegacyKeccak256", func(fr *frame, args []value) value {
		return newHashObj(fr, "golang.org/x/crypto/sha3", "state", "keccak256")
	})
	reg("golang.org/x/crypto/sha3.New256", func(fr *frame, args []value) value {
		return newHashObj(fr, "golang.org/x/crypto/sha3", "state", "sha3-256")
	})
	reg("crypto/sha256.New", func(fr *frame, args []value) value {
		return newHashObj(fr, "crypto/sha256", "digest", "sha256")
	})
	for _, recv := range []string{"(*golang.org/x/crypto/sha3.state).", "(*crypto/sha256.digest)."} {
		reg(recv+"Write", func(fr *frame, args []value) value {
			h := hashObj(args[0])
			b := args[1].([]value)
			h.buf = append(h.buf, b...)
			return tuple{len(b), nilError()}
		})
		reg(recv+"Sum", func(fr *frame, args []value) value {
			h := hashObj(args[0])
			var pre []value
			if args[1] != nil {
				pre = args[1].([]value)
			}
			return append(append([]value{}, pre...), bytesValue(hashBytes(fr, h.fn, h.buf))...)
		})
		reg(recv+"Reset", func(fr *frame, args []value) value {
			hashObj(args[0]).buf = nil
			return nil
		})
		reg(recv+"Read", func(fr *frame, args []value) value {
			h := hashObj(args[0])
			out := args[1].([]value)
			d := bytesValue(hashBytes(fr, h.fn, h.buf))
			n := copy(out, d)
			return tuple{n, nilError()}
		})
		reg(recv+"Size", func(fr *frame, args []value) value { return 32 })
		reg(recv+"BlockSize", func(fr *frame, args []value) value { return 64 })
	}
}

// hashInputEq compares two hash inputs; an opaque codec blob is taken to differ from any
// input that is not a blob at the same position (stated assumption of the hash model).
func hashInputEq(fr *frame, a, b value) (c *term.Term) {
	defer func() {
		if r := recover(); r != nil {
			if ap, ok := r.(*abortPath); ok && ap.Kind == "unsupported" && strings.Contains(ap.Reason, "string equality") {
				c = term.False
				return
			}
			panic(r)
		}
	}()
	return strEqTerm(fr, a, b)
}
