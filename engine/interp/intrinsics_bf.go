package interp

// Block file model: bitxhub-kit's BlockFile code (AppendBlock, Get, TruncateBlocks,
// repair) is interpreted; only the file-backed BlockTable is replaced by an in-memory
// table (append-only list of blobs + item count) with an optional "durability limit"
// used by crash-recovery harnesses: appends beyond the limit are lost.

import (
	"fmt"
	"go/token"
	"go/types"

	"golang.org/x/tools/go/ssa"
)

const bfPkg = "github.com/meshplus/bitxhub-kit/storage/blockfile"

type bfTable struct {
	data [][]value
}

type bfState struct {
	tables       map[*value]*bfTable
	appendsLeft  int // -1: unlimited
}

func (i *interpreter) bf() *bfState {
	if i.bfst == nil {
		i.bfst = &bfState{tables: map[*value]*bfTable{}, appendsLeft: -1}
	}
	return i.bfst
}

func (s *bfState) table(p value) *bfTable {
	pp := p.(*value)
	t := s.tables[pp]
	if t == nil {
		t = &bfTable{}
		s.tables[pp] = t
	}
	return t
}

var bfTableNames = []string{"hashes", "bodies", "transactions", "receipts", "interchain"}

// newBlockFileValue builds a *blockfile.BlockFile whose tables hold the given data.
func newBlockFileValue(fr *frame, old map[string]*bfTable, logger value) value {
	pkg := fr.i.prog.ImportedPackage(bfPkg)
	if pkg == nil {
		panic(unsupported("blockfile package not loaded"))
	}
	bft := pkg.Type("BlockFile").Type()
	btt := pkg.Type("BlockTable").Type()
	st := zero(bft).(structure)
	stt := bft.Underlying().(*types.Struct)
	tables := newOmap(types.Typ[types.String])
	for _, n := range bfTableNames {
		var cell value = zero(btt)
		p := &cell
		t := fr.i.bf().table(p)
		if old != nil && old[n] != nil {
			t.data = append([][]value{}, old[n].data...)
		}
		cell.(structure)[0] = uint64(len(t.data))
		tables.insert(fr, n, p)
	}
	for k := 0; k < stt.NumFields(); k++ {
		switch stt.Field(k).Name() {
		case "tables":
			st[k] = tables
		case "logger":
			st[k] = logger
		}
	}
	var c value = st
	bf := &c
	// repair(): truncate all tables to the shortest
	ms := fr.i.prog.MethodSets.MethodSet(types.NewPointer(bft))
	if sel := ms.Lookup(pkg.Pkg, "repair"); sel != nil {
		call(fr.i, fr, token.NoPos, fr.i.prog.MethodValue(sel), []value{bf})
	}
	return bf
}

func bfTablesOf(fr *frame, bf value) map[string]*bfTable {
	st := structOf(bf)
	out := map[string]*bfTable{}
	for _, f := range st {
		if m, ok := f.(*omap); ok && m != nil {
			for i, k := range m.keys {
				if name, ok := k.(string); ok {
					out[name] = fr.i.bf().table(m.vals[i])
				}
			}
		}
	}
	return out
}

func init() {
	reg("(*"+bfPkg+".BlockTable).Append", func(fr *frame, args []value) value {
		st := structOf(args[0])
		items := st[0].(uint64)
		item := args[1]
		if isSym(item) {
			panic(unsupported("BlockTable.Append with symbolic item number"))
		}
		if items != item.(uint64) {
			return errorValue(fr, fmt.Sprintf("appending unexpected item: want %d, have %d", items, item))
		}
		s := fr.i.bf()
		if s.appendsLeft == 0 {
			return nilError() // lost in the crash: the process never sees the difference
		}
		if s.appendsLeft > 0 {
			s.appendsLeft--
		}
		t := s.table(args[0])
		t.data = append(t.data, append([]value{}, args[2].([]value)...))
		st[0] = items + 1
		return nilError()
	})
	reg("(*"+bfPkg+".BlockTable).Retrieve", func(fr *frame, args []value) value {
		st := structOf(args[0])
		items := st[0].(uint64)
		item := fr.concretizeInt(args[1], 0, int64(items)+1)
		if item < 0 || uint64(item) >= items {
			return tuple{[]value(nil), errorValue(fr, "out of bounds")}
		}
		t := fr.i.bf().table(args[0])
		return tuple{append([]value{}, t.data[item]...), nilError()}
	})
	reg("(*"+bfPkg+".BlockTable).truncate", func(fr *frame, args []value) value {
		st := structOf(args[0])
		items := st[0].(uint64)
		n := uint64(fr.concretizeInt(args[1], 0, int64(items)+1))
		if items <= n {
			return nilError()
		}
		t := fr.i.bf().table(args[0])
		t.data = t.data[:n]
		st[0] = n
		return nilError()
	})
	reg("(*"+bfPkg+".BlockTable).Close", func(fr *frame, args []value) value { return nilError() })
	const zz = "github.com/meshplus/bitxhub/internal/zzverif."
	reg(zz+"NewBlockFile", func(fr *frame, args []value) value {
		lg := call(fr.i, fr, token.NoPos, fr.i.prog.ImportedPackage("github.com/meshplus/bitxhub/internal/zzverif").Func("Logger"), nil)
		return newBlockFileValue(fr, nil, lg)
	})
	reg(zz+"BlockFileDurable", func(fr *frame, args []value) value {
		fr.i.bf().appendsLeft = args[1].(int)
		return nil
	})
	reg(zz+"ReopenBlockFile", func(fr *frame, args []value) value {
		old := bfTablesOf(fr, args[0])
		fr.i.bf().appendsLeft = -1
		lg := call(fr.i, fr, token.NoPos, fr.i.prog.ImportedPackage("github.com/meshplus/bitxhub/internal/zzverif").Func("Logger"), nil)
		return newBlockFileValue(fr, old, lg)
	})
	// the instance lock of a BlockFile
	regPrefix("github.com/prometheus/tsdb/fileutil.", func(fr *frame, fn *ssa.Function, name string, args []value) (value, bool) {
		return zeroResult(fn), true
	})
}
