package interp

// Instruction execution (derived from x/tools go/ssa/interp, extended with
// symbolic values, deterministic goroutines, lazy package initialisation).

import (
	"os"
	"fmt"
	"go/token"
	"go/types"
	"runtime"
	"slices"
	"strings"

	"golang.org/x/tools/go/ssa"
)

func mustDeref(t types.Type) types.Type {
	if p, ok := t.Underlying().(*types.Pointer); ok {
		return p.Elem()
	}
	panic(fmt.Sprintf("mustDeref: %v is not a pointer", t))
}

type noopCall struct{ sig *types.Signature }

// poison marks SSA values whose defining instruction was skipped during a
// tolerant package initialisation.
type poison struct{ why string }

// killed is the panic value used to unwind parked goroutines at path end.
type killedT struct{}

func isControl(r interface{}) bool {
	switch r.(type) {
	case *abortPath, killedT:
		return true
	}
	return false
}

// visitInstr interprets a single ssa.Instruction within the activation
// record frame.  It returns a continuation value indicating where to
// read the next instruction from.
func visitInstr(fr *frame, instr ssa.Instruction) continuation {
	switch instr := instr.(type) {
	case *ssa.DebugRef:
		// no-op

	case *ssa.UnOp:
		fr.env[instr] = unop(fr, instr, fr.get(instr.X))

	case *ssa.BinOp:
		fr.env[instr] = binop(fr, instr.Op, instr.X.Type(), fr.get(instr.X), fr.get(instr.Y))

	case *ssa.Call:
		fn, args := prepareCall(fr, &instr.Call)
		fr.env[instr] = call(fr.i, fr, instr.Pos(), fn, args)

	case *ssa.ChangeInterface:
		fr.env[instr] = fr.get(instr.X)

	case *ssa.ChangeType:
		fr.env[instr] = fr.get(instr.X) // (can't fail)

	case *ssa.Convert:
		fr.env[instr] = conv(fr, instr.Type(), instr.X.Type(), fr.get(instr.X))

	case *ssa.SliceToArrayPointer:
		fr.env[instr] = sliceToArrayPointer(instr.Type(), instr.X.Type(), fr.get(instr.X))

	case *ssa.MakeInterface:
		fr.env[instr] = iface{t: instr.X.Type(), v: fr.get(instr.X)}

	case *ssa.Extract:
		fr.env[instr] = fr.get(instr.Tuple).(tuple)[instr.Index]

	case *ssa.Slice:
		fr.env[instr] = slice(fr, fr.get(instr.X), fr.get(instr.Low), fr.get(instr.High), fr.get(instr.Max))

	case *ssa.Return:
		switch len(instr.Results) {
		case 0:
		case 1:
			fr.result = fr.get(instr.Results[0])
		default:
			var res []value
			for _, r := range instr.Results {
				res = append(res, fr.get(r))
			}
			fr.result = tuple(res)
		}
		fr.block = nil
		return kReturn

	case *ssa.RunDefers:
		fr.runDefers()

	case *ssa.Panic:
		panic(targetPanic{fr.get(instr.X)})

	case *ssa.Send:
		chanSend(fr, fr.get(instr.Chan).(*chanv), fr.get(instr.X))

	case *ssa.Store:
		store(mustDeref(instr.Addr.Type()), fr.get(instr.Addr).(*value), fr.get(instr.Val))

	case *ssa.If:
		succ := 1
		c := fr.get(instr.Cond)
		var b bool
		switch c := c.(type) {
		case bool:
			b = c
		case symv:
			b = fr.decide(c.t)
		default:
			panic(fmt.Sprintf("If on %T", c))
		}
		if b {
			succ = 0
		}
		fr.prevBlock, fr.block = fr.block, fr.block.Succs[succ]
		return kJump

	case *ssa.Jump:
		fr.prevBlock, fr.block = fr.block, fr.block.Succs[0]
		return kJump

	case *ssa.Defer:
		fn, args := prepareCall(fr, &instr.Call)
		defers := &fr.defers
		if instr.DeferStack != nil {
			if into := fr.get(instr.DeferStack); into != nil {
				defers = into.(**deferred)
			}
		}
		*defers = &deferred{
			fn:    fn,
			args:  args,
			instr: instr,
			tail:  *defers,
		}

	case *ssa.Go:
		fn, args := prepareCall(fr, &instr.Call)
		fr.i.sched.spawn(fr, instr.Pos(), fn, args)

	case *ssa.MakeChan:
		fr.env[instr] = &chanv{cap: int(asInt64(fr.get(instr.Size)))}

	case *ssa.Alloc:
		var addr *value
		if instr.Heap {
			// new
			addr = new(value)
			fr.env[instr] = addr
		} else {
			// local
			addr = fr.env[instr].(*value)
		}
		*addr = zero(mustDeref(instr.Type()))

	case *ssa.MakeSlice:
		n := fr.concretizeInt(fr.get(instr.Cap), 0, 64)
		slice := make([]value, n)
		tElt := instr.Type().Underlying().(*types.Slice).Elem()
		for i := range slice {
			slice[i] = zero(tElt)
		}
		fr.env[instr] = slice[:fr.concretizeInt(fr.get(instr.Len), 0, 64)]

	case *ssa.MakeMap:
		fr.env[instr] = newOmap(instr.Type().Underlying().(*types.Map).Key())

	case *ssa.Range:
		fr.env[instr] = rangeIter(fr, fr.get(instr.X), instr.X.Type())

	case *ssa.Next:
		fr.env[instr] = fr.get(instr.Iter).(iter).next()

	case *ssa.FieldAddr:
		p := fr.get(instr.X).(*value)
		if p == nil {
			panic("runtime error: invalid memory address or nil pointer dereference")
		}
		fr.env[instr] = &(*p).(structure)[instr.Field]

	case *ssa.Field:
		fr.env[instr] = fr.get(instr.X).(structure)[instr.Field]

	case *ssa.IndexAddr:
		x := fr.get(instr.X)
		idx := fr.get(instr.Index)
		switch x := x.(type) {
		case []value:
			i := fr.indexCheck(idx, len(x))
			fr.env[instr] = &x[i]
		case *value: // *array
			if x == nil {
				panic("runtime error: invalid memory address or nil pointer dereference")
			}
			a := (*x).(array)
			i := fr.indexCheck(idx, len(a))
			fr.env[instr] = &a[i]
		default:
			panic(fmt.Sprintf("unexpected x type in IndexAddr: %T", x))
		}

	case *ssa.Index:
		x := fr.get(instr.X)
		idx := fr.get(instr.Index)

		switch x := x.(type) {
		case array:
			fr.env[instr] = x[fr.indexCheck(idx, len(x))]
		case string:
			fr.env[instr] = x[fr.indexCheck(idx, len(x))]
		case *symStr:
			fr.env[instr] = strIndex(fr, x, idx)
		default:
			panic(fmt.Sprintf("unexpected x type in Index: %T", x))
		}

	case *ssa.Lookup:
		fr.env[instr] = lookup(fr, instr, fr.get(instr.X), fr.get(instr.Index))

	case *ssa.MapUpdate:
		m := fr.get(instr.Map)
		key := fr.get(instr.Key)
		v := fr.get(instr.Value)
		switch m := m.(type) {
		case *omap:
			m.insert(fr, key, v)
		default:
			panic(fmt.Sprintf("illegal map type: %T", m))
		}

	case *ssa.TypeAssert:
		fr.env[instr] = typeAssert(fr.i, instr, fr.get(instr.X).(iface))

	case *ssa.MakeClosure:
		var bindings []value
		for _, binding := range instr.Bindings {
			bindings = append(bindings, fr.get(binding))
		}
		fr.env[instr] = &closure{instr.Fn.(*ssa.Function), bindings}

	case *ssa.Phi:
		panic("unreachable") // phis are processed at block entry

	case *ssa.Select:
		fr.env[instr] = doSelect(fr, instr)

	default:
		panic(fmt.Sprintf("unexpected instruction: %T", instr))
	}

	return kNext
}

// indexCheck resolves an index (possibly symbolic) against a concrete length,
// raising Go's bounds panic when out of range.
func (fr *frame) indexCheck(idx value, n int) int {
	if s, ok := idx.(symv); ok {
		i := fr.concretizeInt(s, 0, int64(n)-1)
		if i >= int64(n) {
			panic(fmt.Sprintf("runtime error: index out of range [symbolic] with length %d", n))
		}
		return int(i)
	}
	i := asInt64(idx)
	if i < 0 || i >= int64(n) {
		panic(fmt.Sprintf("runtime error: index out of range [%d] with length %d", i, n))
	}
	return int(i)
}

// prepareCall determines the function value and argument values for a
// function call in a Call, Go or Defer instruction, performing
// interface method lookup if needed.
func prepareCall(fr *frame, call *ssa.CallCommon) (fn value, args []value) {
	v := fr.get(call.Value)
	if call.Method == nil {
		// Function call.
		fn = v
	} else {
		// Interface method invocation.
		recv := v.(iface)
		if recv.t == nil {
			if ts := call.Value.Type().String(); strings.Contains(ts, "github.com/prometheus/") || strings.Contains(ts, "go-ethereum/log.") {
				// metrics objects are never constructed (constructors are no-ops)
				return noopCall{call.Method.Type().(*types.Signature)}, nil
			}
			panic("runtime error: invalid memory address or nil pointer dereference (method invoked on nil interface)")
		}
		if f := lookupMethod(fr.i, recv.t, call.Method); f == nil {
			// Unreachable in well-typed programs.
			panic(fmt.Sprintf("method set for dynamic type %v does not contain %s", recv.t, call.Method))
		} else {
			fn = f
		}
		args = append(args, recv.v)
	}
	for _, arg := range call.Args {
		args = append(args, fr.get(arg))
	}
	return
}

// call interprets a call to a function (function, builtin or closure)
// fn with arguments args, returning its result.
// callpos is the position of the callsite.
func call(i *interpreter, caller *frame, callpos token.Pos, fn value, args []value) value {
	switch fn := fn.(type) {
	case *ssa.Function:
		if fn == nil {
			panic("runtime error: invalid memory address or nil pointer dereference (call of nil function)") // nil of func type
		}
		return callSSA(i, caller, callpos, fn, args, nil)
	case *closure:
		return callSSA(i, caller, callpos, fn.Fn, args, fn.Env)
	case *ssa.Builtin:
		return callBuiltin(caller, callpos, fn, args)
	case poison:
		panic(unsupported("call of poisoned function value: " + fn.why))
	case noopCall:
		switch fn.sig.Results().Len() {
		case 0:
			return nil
		case 1:
			return zero(fn.sig.Results().At(0).Type())
		}
		return zero(fn.sig.Results())
	}
	panic(fmt.Sprintf("cannot call %T", fn))
}

func loc(fset *token.FileSet, pos token.Pos) string {
	if pos == token.NoPos {
		return ""
	}
	return " at " + fset.Position(pos).String()
}

// callSSA interprets a call to function fn with arguments args,
// and lexical environment env, returning its result.
// callpos is the position of the callsite.
func callSSA(i *interpreter, caller *frame, callpos token.Pos, fn *ssa.Function, args []value, env []value) value {
	fr := &frame{
		i:      i,
		caller: caller, // for panic/recover
		fn:     fn,
	}
	if caller != nil {
		fr.g = caller.g
	}
	if i.mode&EnableTracing != 0 {
		fmt.Fprintf(tracew, "%sEntering %s\n", strings.Repeat(" ", fr.depth()), fn)
	}
	name := fn.String()
	if fn.Parent() == nil || fn.Synthetic != "" {
		if in := lookupIntrinsic(fn, name); in != nil {
			if r, ok := in(fr, args); ok {
				return r
			}
		}
	}
	if fn.Pkg != nil {
		i.shared.buildPkg(fn.Pkg)
	} else if o := fn.Origin(); o != nil && o.Pkg != nil {
		i.shared.buildPkg(o.Pkg)
	}
	if fn.Blocks == nil {
		if os.Getenv("SYMGO_DEBUG") != "" {
			for c := caller; c != nil; c = c.caller {
				fmt.Fprintf(os.Stderr, "  no-code stack: %s\n", c.fn)
			}
		}
		panic(unsupported("no code for function: " + name))
	}
	if i.ps != nil {
		if fn.Pkg != nil {
			i.ps.Res.Funcs[name] = true
		}
	}

	// generic function body?
	if fn.TypeParams().Len() > 0 && len(fn.TypeArgs()) == 0 {
		panic("interp requires ssa.BuilderMode to include InstantiateGenerics to execute generics")
	}

	fr.env = make(map[ssa.Value]value)
	fr.block = fn.Blocks[0]
	fr.locals = make([]value, len(fn.Locals))
	for i, l := range fn.Locals {
		fr.locals[i] = zero(mustDeref(l.Type()))
		fr.env[l] = &fr.locals[i]
	}
	for i, p := range fn.Params {
		fr.env[p] = args[i]
	}
	for i, fv := range fn.FreeVars {
		fr.env[fv] = env[i]
	}
	for fr.block != nil {
		runFrame(fr)
	}
	return fr.result
}

func (fr *frame) depth() int {
	d := 0
	for f := fr.caller; f != nil; f = f.caller {
		d++
	}
	return d
}

// runFrame executes SSA instructions starting at fr.block and
// continuing until a return, a panic, or a recovered panic.
func runFrame(fr *frame) {
	defer func() {
		if fr.block == nil {
			return // normal return
		}
		r := recover()
		if isControl(r) {
			panic(r)
		}
		if fr.i.mode&DisableRecover != 0 {
			panic(r)
		}
		if re, ok := r.(runtime.Error); ok {
			// A Go runtime error inside the engine while executing target code: usually the
			// image of a target runtime error (nil map write, bad type assertion, nil deref).
			r = re.Error()
			if fr.i.mode&EnableTracing != 0 || os.Getenv("SYMGO_DEBUG") == "rt" {
				buf := make([]byte, 4096)
				buf = buf[:runtime.Stack(buf, false)]
				fmt.Fprintf(os.Stderr, "engine runtime error in %s: %v\n%s\n", fr.fn, re, buf)
			}
		}
		fr.panicking = true
		fr.panic = r
		if fr.i.mode&EnableTracing != 0 {
			fmt.Fprintf(tracew, "Panicking in %s: %T %v.\n", fr.fn, fr.panic, panicString(fr.panic))
		}
		fr.runDefers()
		fr.block = fr.fn.Recover
	}()

	for {
		nonPhis := executePhis(fr)
		for _, instr := range nonPhis {
			if fr.i.mode&EnableTracing != 0 {
				if v, ok := instr.(ssa.Value); ok {
					fmt.Fprintln(tracew, strings.Repeat(" ", fr.depth()), "\t", v.Name(), "=", instr)
				} else {
					fmt.Fprintln(tracew, strings.Repeat(" ", fr.depth()), "\t", instr)
				}
			}
			if ps := fr.i.ps; ps != nil {
				ps.Res.Steps++
				if ps.Res.Steps > ps.MaxSteps {
					panic(&abortPath{Kind: "bound", Reason: fmt.Sprintf("path length bound %d SSA instructions exceeded in %s", ps.MaxSteps, fr.fn)})
				}
			}
			var k continuation
			if fr.tolerant {
				k = visitTolerant(fr, instr)
			} else {
				k = visitInstr(fr, instr)
			}
			if k == kReturn {
				return
			}
			// Inv: kNext (continue) or kJump (last instr)
		}
	}
}

// visitTolerant executes one instruction of a package initialiser; an
// instruction that cannot be executed is skipped and its result poisoned.
func visitTolerant(fr *frame, instr ssa.Instruction) (k continuation) {
	defer func() {
		if r := recover(); r != nil {
			if _, dead := r.(killedT); dead {
				panic(r)
			}
			if ap, ok := r.(*abortPath); ok && ap.Kind != "unsupported" {
				panic(r)
			}
			if v, ok := instr.(ssa.Value); ok {
				fr.env[v] = poison{fmt.Sprintf("%s: %v", fr.fn, panicString(r))}
			}
			if fr.i.mode&EnableTracing != 0 {
				fmt.Fprintf(tracew, "init: skipped %v in %s: %v\n", instr, fr.fn, panicString(r))
			}
			switch instr.(type) {
			case *ssa.If:
				// cannot evaluate the guard: take the "already initialised" exit
				fr.prevBlock, fr.block = fr.block, fr.block.Succs[0]
				k = kJump
			default:
				k = kNext
			}
		}
	}()
	if c, ok := instr.(*ssa.Call); ok {
		if callee := c.Call.StaticCallee(); callee != nil && callee.Pkg == fr.fn.Pkg && strings.HasPrefix(callee.Name(), "init#") {
			if !userInitAllowed(callee) {
				return kNext
			}
		}
		if callee := c.Call.StaticCallee(); callee != nil && callee.Pkg != nil && callee.Pkg != fr.fn.Pkg {
			if callee.Name() == "init" {
				return kNext // other packages are initialised lazily
			}
			if c.Referrers() == nil || len(*c.Referrers()) == 0 {
				if !initEffectAllowed(callee) {
					return kNext // registration-style call for effect only
				}
			}
		}
	}
	return visitInstr(fr, instr)
}

func initEffectAllowed(callee *ssa.Function) bool {
	return false
}

// userInitAllowed: hand-written init functions are executed only for the repository's
// own packages (and bitxhub-core); generated *.pb.go registrations are skipped.
func userInitAllowed(callee *ssa.Function) bool {
	p := callee.Pkg.Pkg.Path()
	if !(strings.HasPrefix(p, "github.com/meshplus/bitxhub/") || strings.HasPrefix(p, "github.com/meshplus/bitxhub-core/")) {
		return false
	}
	if pos := callee.Pos(); pos.IsValid() {
		if strings.HasSuffix(callee.Prog.Fset.Position(pos).Filename, ".pb.go") {
			return false
		}
	}
	return true
}

func panicString(p interface{}) string {
	switch p := p.(type) {
	case targetPanic:
		if it, ok := p.v.(iface); ok {
			if isStr(it.v) {
				return toString(it.v)
			}
			if pp, ok := it.v.(*value); ok && pp != nil {
				if st, ok := (*pp).(structure); ok && len(st) > 0 && isStr(st[0]) {
					return toString(st[0]) // errors.errorString / fmt.wrapError message
				}
			}
		}
		return toString(p.v)
	case error:
		return p.Error()
	case string:
		return p
	}
	return fmt.Sprintf("%v", p)
}

// executePhis executes the phi-nodes at the start of the current
// block and returns the non-phi instructions.
func executePhis(fr *frame) []ssa.Instruction {
	firstNonPhi := -1
	for i, instr := range fr.block.Instrs {
		if _, ok := instr.(*ssa.Phi); !ok {
			firstNonPhi = i
			break
		}
	}
	// Inv: 0 <= firstNonPhi; every block contains a non-phi.

	nonPhis := fr.block.Instrs[firstNonPhi:]
	if firstNonPhi > 0 {
		phis := fr.block.Instrs[:firstNonPhi]
		predIndex := slices.Index(fr.block.Preds, fr.prevBlock)
		fr.phitemps = fr.phitemps[:0]
		for _, phi := range phis {
			phi := phi.(*ssa.Phi)
			fr.phitemps = append(fr.phitemps, fr.get(phi.Edges[predIndex]))
		}
		for i, phi := range phis {
			fr.env[phi.(*ssa.Phi)] = fr.phitemps[i]
		}
	}
	return nonPhis
}

// doRecover implements the recover() built-in.
func doRecover(caller *frame) value {
	// recover() must be exactly one level beneath the deferred
	// function (two levels beneath the panicking function) to
	// have any effect.  Thus we ignore both "defer recover()" and
	// "defer f() -> g() -> recover()".
	if caller != nil && caller.i.mode&DisableRecover == 0 &&
		!caller.panicking &&
		caller.caller != nil && caller.caller.panicking {
		caller.caller.panicking = false
		p := caller.caller.panic
		caller.caller.panic = nil

		switch p := p.(type) {
		case targetPanic:
			// The target program explicitly called panic().
			return p.v
		case runtime.Error:
			// The interpreter encountered a runtime error.
			return iface{caller.i.runtimeErrorString, p.Error()}
		case string:
			// The interpreter explicitly called panic().
			return iface{caller.i.runtimeErrorString, p}
		default:
			panic(fmt.Sprintf("unexpected panic type %T in target call to recover()", p))
		}
	}
	return iface{}
}
