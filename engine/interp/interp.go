// Copyright 2013 The Go Authors. All rights reserved.
// Use of this source code is governed by a BSD-style
// license that can be found in the LICENSE file.

// Package ssa/interp defines an interpreter for the SSA
// representation of Go programs.
//
// This interpreter is provided as an adjunct for testing the SSA
// construction algorithm.  Its purpose is to provide a minimal
// metacircular implementation of the dynamic semantics of each SSA
// instruction.  It is not, and will never be, a production-quality Go
// interpreter.
//
// The following is a partial list of Go features that are currently
// unsupported or incomplete in the interpreter.
//
// * Unsafe operations, including all uses of unsafe.Pointer, are
// impossible to support given the "boxed" value representation we
// have chosen.
//
// * The reflect package is only partially implemented.
//
// * The "testing" package is no longer supported because it
// depends on low-level details that change too often.
//
// * "sync/atomic" operations are not atomic due to the "boxed" value
// representation: it is not possible to read, modify and write an
// interface value atomically. As a consequence, Mutexes are currently
// broken.
//
// * recover is only partially implemented.  Also, the interpreter
// makes no attempt to distinguish target panics from interpreter
// crashes.
//
// * the sizes of the int, uint and uintptr types in the target
// program are assumed to be the same as those of the interpreter
// itself.
//
// * all values occupy space, even those of types defined by the spec
// to have zero size, e.g. struct{}.  This can cause asymptotic
// performance degradation.
//
// * os.Exit is implemented using panic, causing deferred functions to
// run.
package interp // import "golang.org/x/tools/go/ssa/interp"

import (
	"fmt"
	"go/types"
	"os"

	"golang.org/x/tools/go/ssa"
)

type continuation int

const (
	kNext continuation = iota
	kReturn
	kJump
)

// Mode is a bitmask of options affecting the interpreter.
type Mode uint

const (
	DisableRecover Mode = 1 << iota // Disable recover() in target programs; show interpreter crash instead.
	EnableTracing                   // Print a trace of all instructions as they are interpreted.
)

type methodSet map[string]*ssa.Function

// State shared between all interpreted goroutines.
type interpreter struct {
	osArgs             []value                // the value of os.Args
	prog               *ssa.Program           // the SSA program
	globals            map[*ssa.Global]*value // addresses of global variables (lazily created per package)
	pkgInit            map[*ssa.Package]bool  // packages whose globals exist / init has run
	mode               Mode                   // interpreter options
	shared             *Shared                // per-program shared (read-only) data
	runtimeErrorString types.Type             // the runtime.errorString type
	sizes              types.Sizes            // the effective type-sizing function
	ps                 *PathState             // symbolic path state
	sched              *scheduler
	maxPerm            int
	syncMaps           map[*value]*omap
	bfst               *bfState
	govExprs           map[*value]*govExpr
}

type deferred struct {
	fn    value
	args  []value
	instr *ssa.Defer
	tail  *deferred
}

type frame struct {
	g                *gor
	tolerant         bool
	i                *interpreter
	caller           *frame
	fn               *ssa.Function
	block, prevBlock *ssa.BasicBlock
	env              map[ssa.Value]value // dynamic values of SSA variables
	locals           []value
	defers           *deferred
	result           value
	panicking        bool
	panic            interface{}
	phitemps         []value // temporaries for parallel phi assignment
}

func (fr *frame) get(key ssa.Value) value {
	switch key := key.(type) {
	case nil:
		// Hack; simplifies handling of optional attributes
		// such as ssa.Slice.{Low,High}.
		return nil
	case *ssa.Function, *ssa.Builtin:
		return key
	case *ssa.Const:
		return constValue(key)
	case *ssa.Global:
		return fr.i.globalAddr(fr, key)
	}
	if r, ok := fr.env[key]; ok {
		return r
	}
	panic(fmt.Sprintf("get: no value for %T: %v", key, key.Name()))
}

// runDefer runs a deferred call d.
// It always returns normally, but may set or clear fr.panic.
func (fr *frame) runDefer(d *deferred) {
	if fr.i.mode&EnableTracing != 0 {
		fmt.Fprintf(os.Stderr, "%s: invoking deferred function call\n",
			fr.i.prog.Fset.Position(d.instr.Pos()))
	}
	var ok bool
	defer func() {
		if !ok {
			// Deferred call created a new state of panic.
			r := recover()
			if isControl(r) {
				panic(r)
			}
			fr.panicking = true
			fr.panic = r
		}
	}()
	call(fr.i, fr, d.instr.Pos(), d.fn, d.args)
	ok = true
}

// runDefers executes fr's deferred function calls in LIFO order.
//
// On entry, fr.panicking indicates a state of panic; if
// true, fr.panic contains the panic value.
//
// On completion, if a deferred call started a panic, or if no
// deferred call recovered from a previous state of panic, then
// runDefers itself panics after the last deferred call has run.
//
// If there was no initial state of panic, or it was recovered from,
// runDefers returns normally.
func (fr *frame) runDefers() {
	for d := fr.defers; d != nil; d = d.tail {
		fr.runDefer(d)
	}
	fr.defers = nil
	if fr.panicking {
		panic(fr.panic) // new panic, or still panicking
	}
}

// lookupMethod returns the method set for type typ, which may be one
// of the interpreter's fake types.
func lookupMethod(i *interpreter, typ types.Type, meth *types.Func) *ssa.Function {
	switch typ {
	case rtypeType:
		return i.shared.rtypeMethods[meth.Id()]
	case errorType:
		return i.shared.errorMethods[meth.Id()]
	}
	return i.prog.LookupMethod(typ, meth.Pkg(), meth.Name())
}

