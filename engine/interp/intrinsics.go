package interp

// Intrinsics: functions that are modelled or executed natively instead of being
// interpreted from SSA. Key: ssa.Function.String(). An intrinsic returns
// ok=false to fall back to interpreting the function's body.

import (
	"fmt"
	"go/types"
	"strings"

	"golang.org/x/tools/go/ssa"

	"symgo/term"
)

type intrinsicFn func(fr *frame, args []value) (value, bool)

var intrinsics = map[string]intrinsicFn{}

// prefix-based intrinsics (checked when there is no exact match)
type prefixIntrinsic struct {
	prefix string
	fn     func(fr *frame, fn *ssa.Function, name string, args []value) (value, bool)
}

var prefixIntrinsics []prefixIntrinsic

// ExtraNoop lists additional function-name prefixes treated as no-ops (set by the driver).
var noopPrefixes = []string{
	"(*github.com/sirupsen/logrus.Logger).",
	"(*github.com/sirupsen/logrus.Entry).",
	"(github.com/sirupsen/logrus.Level).",
	"github.com/prometheus/client_golang/prometheus.",
	"(*github.com/prometheus/client_golang/prometheus.",
	"(github.com/prometheus/client_golang/prometheus.",
	"runtime/debug.",
	"github.com/ethereum/go-ethereum/log.",
	"(*github.com/ethereum/go-ethereum/event.Feed).",
	"(*sync.Mutex).", "(*sync.RWMutex).",
}

func lookupIntrinsic(fn *ssa.Function, name string) intrinsicFn {
	if in, ok := intrinsics[name]; ok {
		return in
	}
	if fn.Pkg == nil && fn.Synthetic == "" {
		return nil
	}
	// generic instantiations: strip type arguments "[...]"
	if i := strings.IndexByte(name, '['); i >= 0 {
		base := name[:i]
		if j := strings.LastIndexByte(name, ']'); j > i {
			base += name[j+1:]
		}
		if in, ok := intrinsics[base]; ok {
			return in
		}
	}
	for _, p := range prefixIntrinsics {
		if strings.HasPrefix(name, p.prefix) {
			pf := p.fn
			return func(fr *frame, args []value) (value, bool) { return pf(fr, fn, name, args) }
		}
	}
	return nil
}

func reg(name string, f func(fr *frame, args []value) value) {
	intrinsics[name] = func(fr *frame, args []value) (value, bool) { return f(fr, args), true }
}

func regOpt(name string, f intrinsicFn) { intrinsics[name] = f }

func regPrefix(prefix string, f func(fr *frame, fn *ssa.Function, name string, args []value) (value, bool)) {
	prefixIntrinsics = append(prefixIntrinsics, prefixIntrinsic{prefix, f})
}

// zeroResult builds the zero value of fn's result type.
func zeroResult(fn *ssa.Function) value {
	res := fn.Signature.Results()
	switch res.Len() {
	case 0:
		return nil
	case 1:
		return zero(res.At(0).Type())
	}
	return zero(res)
}

// field helpers on pointers to structs
func structOf(p value) structure {
	pp, ok := p.(*value)
	if !ok || pp == nil {
		panic("runtime error: invalid memory address or nil pointer dereference")
	}
	return (*pp).(structure)
}

// firstU32 finds the first uint32/int32 leaf cell inside a (nested) struct cell.
func firstWord(cell *value) *value {
	switch v := (*cell).(type) {
	case uint32, int32, uint64, int64:
		return cell
	case structure:
		for i := range v {
			if c := firstWord(&v[i]); c != nil {
				return c
			}
		}
	case array:
		for i := range v {
			if c := firstWord(&v[i]); c != nil {
				return c
			}
		}
	}
	return nil
}

func init() {
	// ---- no-ops by prefix (logging, metrics) ----
	for _, p := range noopPrefixes {
		p := p
		if strings.Contains(p, "sync.") {
			continue
		}
		regPrefix(p, func(fr *frame, fn *ssa.Function, name string, args []value) (value, bool) {
			short := name[strings.LastIndex(name, ".")+1:]
			if strings.Contains(p, "logrus") {
				if strings.HasPrefix(short, "Fatal") || short == "Exit" {
					panic(&abortPath{Kind: "exit", Reason: "logger." + short + " (process exit)"})
				}
				if strings.HasPrefix(short, "Panic") {
					panic(targetPanic{iface{types.Typ[types.String], "logrus panic"}})
				}
				res := fn.Signature.Results()
				if res.Len() == 1 {
					// With* return *Entry: hand back a dummy entry
					if pt, ok := res.At(0).Type().(*types.Pointer); ok {
						z := zero(pt.Elem())
						return &z, true
					}
				}
			}
			return zeroResult(fn), true
		})
	}

	// ---- sync ----
	lock := func(fr *frame, args []value) value {
		st := structOf(args[0])
		w := firstWord(&st[0])
		fr.i.sched.block(fr, "mutex", func() bool { return asInt64(*w) == 0 })
		*w = setWord(*w, 1)
		return nil
	}
	unlock := func(fr *frame, args []value) value {
		st := structOf(args[0])
		w := firstWord(&st[0])
		*w = setWord(*w, 0)
		return nil
	}
	reg("(*sync.Mutex).Lock", lock)
	reg("(*sync.Mutex).Unlock", unlock)
	reg("(*sync.Mutex).TryLock", func(fr *frame, args []value) value {
		st := structOf(args[0])
		w := firstWord(&st[0])
		if asInt64(*w) != 0 {
			return false
		}
		*w = setWord(*w, 1)
		return true
	})
	// RWMutex: field 0 is the writer mutex w; use its word as "write locked", readerCount as readers
	rwWord := func(args []value) (*value, *value) {
		st := structOf(args[0])
		w := firstWord(&st[0])
		var rc *value
		for i := len(st) - 1; i >= 1; i-- {
			if c := firstWord(&st[i]); c != nil {
				rc = c
				break
			}
		}
		return w, rc
	}
	reg("(*sync.RWMutex).Lock", func(fr *frame, args []value) value {
		w, rc := rwWord(args)
		fr.i.sched.block(fr, "rwmutex", func() bool { return asInt64(*w) == 0 && asInt64(*rc) == 0 })
		*w = setWord(*w, 1)
		return nil
	})
	reg("(*sync.RWMutex).Unlock", func(fr *frame, args []value) value {
		w, _ := rwWord(args)
		*w = setWord(*w, 0)
		return nil
	})
	reg("(*sync.RWMutex).RLock", func(fr *frame, args []value) value {
		w, rc := rwWord(args)
		fr.i.sched.block(fr, "rwmutex", func() bool { return asInt64(*w) == 0 })
		*rc = setWord(*rc, asInt64(*rc)+1)
		return nil
	})
	reg("(*sync.RWMutex).RUnlock", func(fr *frame, args []value) value {
		_, rc := rwWord(args)
		*rc = setWord(*rc, asInt64(*rc)-1)
		return nil
	})
	reg("(*sync.RWMutex).RLocker", func(fr *frame, args []value) value { panic(unsupported("RWMutex.RLocker")) })
	wgWord := func(args []value) *value {
		st := structOf(args[0])
		for i := len(st) - 1; i >= 0; i-- {
			if c := firstWord(&st[i]); c != nil {
				return c
			}
		}
		panic("waitgroup layout")
	}
	reg("(*sync.WaitGroup).Add", func(fr *frame, args []value) value {
		w := wgWord(args)
		n := asInt64(*w) + asInt64(args[1])
		if n < 0 {
			panic(targetPanic{iface{types.Typ[types.String], "sync: negative WaitGroup counter"}})
		}
		*w = setWord(*w, n)
		return nil
	})
	reg("(*sync.WaitGroup).Done", func(fr *frame, args []value) value {
		w := wgWord(args)
		n := asInt64(*w) - 1
		if n < 0 {
			panic(targetPanic{iface{types.Typ[types.String], "sync: negative WaitGroup counter"}})
		}
		*w = setWord(*w, n)
		return nil
	})
	reg("(*sync.WaitGroup).Wait", func(fr *frame, args []value) value {
		w := wgWord(args)
		fr.i.sched.block(fr, "WaitGroup.Wait", func() bool { return asInt64(*w) == 0 })
		return nil
	})
	reg("(*sync.Once).Do", func(fr *frame, args []value) value {
		st := structOf(args[0])
		w := firstWord(&st[0])
		if asInt64(*w) != 0 {
			return nil
		}
		*w = setWord(*w, 1)
		call(fr.i, fr, 0, args[1], nil)
		return nil
	})
	reg("(*sync.Pool).Get", func(fr *frame, args []value) value {
		st := structOf(args[0])
		nw := st[len(st)-1] // New func() any
		switch f := nw.(type) {
		case *ssa.Function:
			if f == nil {
				return iface{}
			}
		}
		return call(fr.i, fr, 0, nw, nil)
	})
	reg("(*sync.Pool).Put", func(fr *frame, args []value) value { return nil })
	// sync.Map: stored in a side table keyed by the receiver cell
	smap := func(fr *frame, recv value) *omap {
		p := recv.(*value)
		if p == nil {
			panic("runtime error: invalid memory address or nil pointer dereference")
		}
		m := fr.i.syncMaps[p]
		if m == nil {
			m = newOmap(types.NewInterfaceType(nil, nil))
			fr.i.syncMaps[p] = m
		}
		return m
	}
	reg("(*sync.Map).Load", func(fr *frame, args []value) value {
		v, ok := smap(fr, args[0]).lookup(fr, args[1])
		if !ok {
			return tuple{iface{}, false}
		}
		return tuple{v, true}
	})
	reg("(*sync.Map).Store", func(fr *frame, args []value) value {
		smap(fr, args[0]).insert(fr, args[1], args[2])
		return nil
	})
	reg("(*sync.Map).LoadOrStore", func(fr *frame, args []value) value {
		m := smap(fr, args[0])
		if v, ok := m.lookup(fr, args[1]); ok {
			return tuple{v, true}
		}
		m.insert(fr, args[1], args[2])
		return tuple{args[2], false}
	})
	reg("(*sync.Map).LoadAndDelete", func(fr *frame, args []value) value {
		m := smap(fr, args[0])
		v, ok := m.lookup(fr, args[1])
		if !ok {
			return tuple{iface{}, false}
		}
		m.delete(fr, args[1])
		return tuple{v, true}
	})
	reg("(*sync.Map).Delete", func(fr *frame, args []value) value {
		smap(fr, args[0]).delete(fr, args[1])
		return nil
	})
	reg("(*sync.Map).Range", func(fr *frame, args []value) value {
		m := smap(fr, args[0])
		it := rangeOmap(fr, m).(*omapIter)
		for i := range it.keys {
			r := call(fr.i, fr, 0, args[1], []value{it.keys[i], it.vals[i]})
			if b, ok := r.(bool); ok && !b {
				break
			}
		}
		return nil
	})

	// ---- sync/atomic (plain functions) ----
	for _, ty := range []string{"Int32", "Int64", "Uint32", "Uint64", "Uintptr"} {
		ty := ty
		reg("sync/atomic.Load"+ty, func(fr *frame, args []value) value { return *(args[0].(*value)) })
		reg("sync/atomic.Store"+ty, func(fr *frame, args []value) value { *(args[0].(*value)) = args[1]; return nil })
		reg("sync/atomic.Add"+ty, func(fr *frame, args []value) value {
			p := args[0].(*value)
			*p = binop(fr, tokenADD, nil, *p, args[1])
			return *p
		})
		reg("sync/atomic.Swap"+ty, func(fr *frame, args []value) value {
			p := args[0].(*value)
			old := *p
			*p = args[1]
			return old
		})
		reg("sync/atomic.CompareAndSwap"+ty, func(fr *frame, args []value) value {
			p := args[0].(*value)
			if equals(fr, nil, *p, args[1]) {
				*p = args[2]
				return true
			}
			return false
		})
	}
	reg("sync/atomic.LoadPointer", func(fr *frame, args []value) value { return *(args[0].(*value)) })
	reg("sync/atomic.StorePointer", func(fr *frame, args []value) value { *(args[0].(*value)) = args[1]; return nil })
	reg("(*sync/atomic.Value).Load", func(fr *frame, args []value) value {
		st := structOf(args[0])
		if v, ok := st[0].(iface); ok {
			return v
		}
		return iface{}
	})
	reg("(*sync/atomic.Value).Store", func(fr *frame, args []value) value {
		st := structOf(args[0])
		st[0] = args[1]
		return nil
	})
	reg("(*sync/atomic.Pointer).Load", func(fr *frame, args []value) value { return atomicPtrCell(args[0]).get() })
	reg("(*sync/atomic.Pointer).Store", func(fr *frame, args []value) value { atomicPtrCell(args[0]).set(args[1]); return nil })

	// ---- time ----
	reg("time.Now", func(fr *frame, args []value) value {
		// symbolic wall clock, non-decreasing; monotonic part omitted (wall=0 encodes "no monotonic")
		ps := fr.i.ps
		if ps.clockConcrete > 0 {
			// harness opted into a concrete clock (time is not its subject): strictly increasing instants
			ps.clockNow += ps.clockConcrete
			ps.lastClock = term.BVConstU(ps.clockNow, 64)
			return timeValue(fr, int64(ps.clockNow))
		}
		t := ps.fresh("clock", term.BV(64))
		// constrain to a sane positive range and monotone
		fr.assume(term.BVCmp("bvult", t, term.BVConstU(1<<60, 64)))
		if ps.lastClock != nil {
			fr.assume(term.BVCmp("bvuge", t, ps.lastClock))
			if ps.clockMaxStep > 0 {
				// harness opted into a paced clock: readings not separated by zz.Pause are close
				fr.assume(term.BVCmp("bvule", t, term.BVBin("bvadd", ps.lastClock, term.BVConstU(ps.clockMaxStep, 64))))
			}
		}
		ps.lastClock = t
		return timeValue(fr, symv{t, types.Int64})
	})
	reg("time.Since", func(fr *frame, args []value) value {
		ps := fr.i.ps
		d := ps.fresh("elapsed", term.BV(64))
		fr.assume(term.BVCmp("bvult", d, term.BVConstU(1<<60, 64)))
		return symv{d, types.Int64}
	})
	reg("time.Sleep", func(fr *frame, args []value) value { return nil })
	reg("(time.Time).UnixNano", func(fr *frame, args []value) value { return timeNanos(args[0]) })
	reg("(time.Time).Unix", func(fr *frame, args []value) value {
		n := timeNanos(args[0])
		return binop(fr, tokenQUO, nil, n, int64(1e9))
	})
	reg("(time.Time).Sub", func(fr *frame, args []value) value {
		return binop(fr, tokenSUB, nil, timeNanos(args[0]), timeNanos(args[1]))
	})
	reg("(time.Time).IsZero", func(fr *frame, args []value) value {
		return mkSym(eqTerm(fr, nil, timeNanos(args[0]), int64(0)), types.Bool)
	})
	reg("(time.Time).String", func(fr *frame, args []value) value { return "<time>" })
	reg("(time.Time).Format", func(fr *frame, args []value) value { return "<time>" })
	reg("time.Unix", func(fr *frame, args []value) value {
		n := binop(fr, tokenADD, nil, binop(fr, tokenMUL, nil, args[0], int64(1e9)), args[1])
		return timeValue(fr, n)
	})
	reg("time.After", func(fr *frame, args []value) value { return &chanv{cap: 1} })
	// a timer that never fires within the harness (same contract as the ticker below)
	reg("time.NewTimer", func(fr *frame, args []value) value {
		t := fr.i.prog.ImportedPackage("time").Type("Timer").Type()
		st := zero(t).(structure)
		ts := t.Underlying().(*types.Struct)
		for k := 0; k < ts.NumFields(); k++ {
			if ts.Field(k).Name() == "C" {
				st[k] = &chanv{cap: 1}
			}
		}
		var c value = st
		return &c
	})
	reg("(*time.Timer).Stop", func(fr *frame, args []value) value { return true })
	reg("(*time.Timer).Reset", func(fr *frame, args []value) value { return true })
	// a ticker that never fires within the harness (time-driven branches of a select loop are
	// outside the step being checked; stated as a bound where used)
	reg("time.NewTicker", func(fr *frame, args []value) value {
		t := fr.i.prog.ImportedPackage("time").Type("Ticker").Type()
		cell := zero(t)
		st := cell.(structure)
		ts := t.Underlying().(*types.Struct)
		for k := 0; k < ts.NumFields(); k++ {
			if ts.Field(k).Name() == "C" {
				st[k] = &chanv{cap: 1}
			}
		}
		var c value = st
		return &c
	})
	reg("(*time.Ticker).Stop", func(fr *frame, args []value) value { return nil })

	// ---- runtime / os ----
	reg("runtime.Gosched", func(fr *frame, args []value) value { return nil })
	reg("runtime.GC", func(fr *frame, args []value) value { return nil })
	reg("runtime.NumCPU", func(fr *frame, args []value) value { return 1 })
	reg("runtime.GOMAXPROCS", func(fr *frame, args []value) value { return 1 })
	reg("runtime.Callers", func(fr *frame, args []value) value { return 0 })
	reg("runtime.Caller", func(fr *frame, args []value) value { return tuple{uintptr(0), "", 0, false} })
	reg("runtime.SetFinalizer", func(fr *frame, args []value) value { return nil })
	reg("runtime.KeepAlive", func(fr *frame, args []value) value { return nil })
	reg("runtime.Stack", func(fr *frame, args []value) value { return 0 })
	reg("os.Exit", func(fr *frame, args []value) value {
		panic(&abortPath{Kind: "exit", Reason: "os.Exit"})
	})
	reg("os.Getenv", func(fr *frame, args []value) value { return "" })
	reg("os.MkdirTemp", func(fr *frame, args []value) value { return tuple{"/zz-no-filesystem/tmp", nilError()} })
	reg("os.RemoveAll", func(fr *frame, args []value) value { return nilError() })
	reg("os.LookupEnv", func(fr *frame, args []value) value { return tuple{"", false} })

	// ---- math/rand ----
	reg("math/rand.Intn", func(fr *frame, args []value) value {
		v := fr.i.ps.fresh("rand", term.BV(64))
		r := symv{v, types.Int}
		fr.assume(boolTerm(binop(fr, tokenGEQ, nil, r, 0)))
		fr.assume(boolTerm(binop(fr, tokenLSS, nil, r, args[0])))
		return r
	})
}

type ptrCell struct{ cell *value }

func (c ptrCell) get() value  { return *c.cell }
func (c ptrCell) set(v value) { *c.cell = v }

// atomicPtrCell locates the pointer cell of an atomic.Pointer[T] (struct{_ [0]*T; _ noCopy; v unsafe.Pointer}).
func atomicPtrCell(recv value) ptrCell {
	st := structOf(recv)
	return ptrCell{&st[len(st)-1]}
}

func setWord(old value, n int64) value {
	switch old.(type) {
	case uint32:
		return uint32(n)
	case int32:
		return int32(n)
	case uint64:
		return uint64(n)
	case int64:
		return n
	}
	panic(fmt.Sprintf("setWord on %T", old))
}

// time.Time is struct{wall uint64; ext int64; loc *Location}: we keep nanoseconds since the epoch in ext, wall=0.
func timeValue(fr *frame, nanos value) value {
	return structure{uint64(0), nanos, (*value)(nil)}
}

func timeNanos(t value) value {
	return t.(structure)[1]
}
