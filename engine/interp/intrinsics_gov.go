package interp

// Model of github.com/Knetic/govaluate for the strategy expressions bitxhub uses:
//   a OP t | a OP NUM | a OP NUM * t       with OP in > >= == < <= and NUM a decimal.
// Contract: evaluated exactly over naturals (a, t < 2^31), NUM as the exact rational.

import (
	"fmt"
	"go/types"
	"math/big"
	"regexp"
	"strings"

	"symgo/term"
)

const govPkg = "github.com/Knetic/govaluate"

var govExprRe = regexp.MustCompile(`^\s*a\s*(>=|<=|==|>|<)\s*(?:([0-9]+(?:\.[0-9]+)?)\s*(?:\*\s*t)?|t)\s*$`)

type govExpr struct {
	op       string
	num, den *big.Int // coefficient (rational) if present
	timesT   bool
}

func parseGovExpr(s string) (*govExpr, bool) {
	m := govExprRe.FindStringSubmatch(s)
	if m == nil {
		return nil, false
	}
	e := &govExpr{op: m[1], num: big.NewInt(1), den: big.NewInt(1)}
	e.timesT = strings.Contains(s, "t")
	if m[2] != "" {
		r, ok := new(big.Rat).SetString(m[2])
		if !ok {
			return nil, false
		}
		e.num, e.den = r.Num(), r.Denom()
	}
	return e, true
}

func init() {
	reg(govPkg+".NewEvaluableExpression", func(fr *frame, args []value) value {
		s, ok := concStr(args[0])
		if !ok {
			panic(unsupported("govaluate expression is symbolic"))
		}
		pkg := fr.i.prog.ImportedPackage(govPkg)
		t := pkg.Type("EvaluableExpression").Type()
		e, ok := parseGovExpr(s)
		if !ok {
			// expressions outside the modelled grammar
			if strings.ContainsAny(s, "+") && len(strings.TrimSpace(s)) <= 1 {
				return tuple{(*value)(nil), errorValue(fr, "Unexpected end of expression")}
			}
			panic(unsupported("govaluate expression outside the modelled grammar: " + s))
		}
		_ = e
		st := zero(t).(structure)
		st[0] = "zzexpr:" + s // QueryDateFormat carries the source text for the model
		var cell value = st
		return tuple{&cell, nilError()}
	})
	evalFn := func(fr *frame, args []value) value {
		var st structure
		switch r := args[0].(type) {
		case *value:
			st = (*r).(structure)
		case structure:
			st = r
		}
		src, _ := st[0].(string)
		if !strings.HasPrefix(src, "zzexpr:") {
			panic(unsupported("govaluate expression not created through the model"))
		}
		e, _ := parseGovExpr(strings.TrimPrefix(src, "zzexpr:"))
		params := args[1].(*omap)
		get := func(name string) *term.Term {
			v, ok := params.lookup(fr, name)
			if !ok {
				panic(unsupported("govaluate: missing parameter " + name))
			}
			it := v.(iface)
			s := toSym(it.v)
			w := kindWidth(s.k)
			if s.t.S.K == term.KInt {
				return term.Int2BV(s.t, 64)
			}
			return term.Resize(s.t, 64, kindSigned(s.k) && w < 64)
		}
		a := get("a")
		lhs := term.BVBin("bvmul", a, term.BVConst(e.den, 64))
		rhs := term.BVConst(e.num, 64)
		if e.timesT {
			rhs = term.BVBin("bvmul", get("t"), term.BVConst(e.num, 64))
		}
		var r *term.Term
		switch e.op {
		case ">":
			r = term.BVCmp("bvugt", lhs, rhs)
		case ">=":
			r = term.BVCmp("bvuge", lhs, rhs)
		case "<":
			r = term.BVCmp("bvult", lhs, rhs)
		case "<=":
			r = term.BVCmp("bvule", lhs, rhs)
		default:
			r = term.Eq(lhs, rhs)
		}
		return tuple{iface{types.Typ[types.Bool], mkSym(r, types.Bool)}, nilError()}
	}
	reg("(*"+govPkg+".EvaluableExpression).Evaluate", evalFn)
	reg("("+govPkg+".EvaluableExpression).Evaluate", evalFn)
}

var _ = fmt.Sprintf
