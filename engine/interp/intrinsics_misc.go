package interp

// math/big, codecs (json / protobuf Marshal stubs), and the zzverif harness API.

import (
	"fmt"
	"go/token"
	"go/types"
	"math/big"
	"os"
	"strings"
	"sync"

	"golang.org/x/tools/go/ssa"

	"symgo/term"
)

// bigval is the value of a math/big.Int: a mathematical Int term.
type bigval struct{ t *term.Term }

func bigOf(p value) *term.Term {
	pp, ok := p.(*value)
	if !ok || pp == nil {
		panic("runtime error: invalid memory address or nil pointer dereference")
	}
	switch v := (*pp).(type) {
	case bigval:
		return v.t
	case structure:
		return term.IntConstI(0)
	}
	panic(fmt.Sprintf("bigOf %T", *pp))
}

func bigSet(p value, t *term.Term) value {
	pp := p.(*value)
	if pp == nil {
		panic("runtime error: invalid memory address or nil pointer dereference")
	}
	*pp = bigval{t}
	return p
}

func newBig(t *term.Term) value {
	var c value = bigval{t}
	return &c
}

func quoTerm(fr *frame, a, b *term.Term) (q, r *term.Term) {
	// truncated division (Go's Quo/Rem) from Euclidean div/mod
	if a.IsConst() && b.IsConst() {
		qq, rr := new(big.Int).QuoRem(a.Val, b.Val, new(big.Int))
		return term.IntConst(qq), term.IntConst(rr)
	}
	ed := term.IntBin("div", a, b)
	em := term.IntBin("mod", a, b)
	// if a >= 0 or em == 0: same; else adjust
	adj := term.And(term.IntCmp("<", a, term.IntConstI(0)), term.Not(term.Eq(em, term.IntConstI(0))))
	bpos := term.IntCmp(">", b, term.IntConstI(0))
	q = term.Ite(adj, term.Ite(bpos, term.IntBin("+", ed, term.IntConstI(1)), term.IntBin("-", ed, term.IntConstI(1))), ed)
	r = term.IntBin("-", a, term.IntBin("*", q, b))
	return
}

func init() {
	reg("math/big.NewInt", func(fr *frame, args []value) value { return newBig(asIntTerm(args[0])) })
	reg("(*math/big.Int).SetInt64", func(fr *frame, args []value) value { return bigSet(args[0], asIntTerm(args[1])) })
	reg("(*math/big.Int).SetUint64", func(fr *frame, args []value) value { return bigSet(args[0], asIntTerm(args[1])) })
	reg("(*math/big.Int).Set", func(fr *frame, args []value) value { return bigSet(args[0], bigOf(args[1])) })
	bin := func(name, op string) {
		reg("(*math/big.Int)."+name, func(fr *frame, args []value) value {
			return bigSet(args[0], term.IntBin(op, bigOf(args[1]), bigOf(args[2])))
		})
	}
	bin("Add", "+")
	bin("Sub", "-")
	bin("Mul", "*")
	divz := func(fr *frame, b *term.Term) {
		if fr.decide(term.Eq(b, term.IntConstI(0))) {
			panic(targetPanic{iface{types.Typ[types.String], "division by zero"}})
		}
	}
	reg("(*math/big.Int).Div", func(fr *frame, args []value) value {
		a, b := bigOf(args[1]), bigOf(args[2])
		divz(fr, b)
		return bigSet(args[0], term.IntBin("div", a, b))
	})
	reg("(*math/big.Int).Mod", func(fr *frame, args []value) value {
		a, b := bigOf(args[1]), bigOf(args[2])
		divz(fr, b)
		return bigSet(args[0], term.IntBin("mod", a, b))
	})
	reg("(*math/big.Int).Quo", func(fr *frame, args []value) value {
		a, b := bigOf(args[1]), bigOf(args[2])
		divz(fr, b)
		q, _ := quoTerm(fr, a, b)
		return bigSet(args[0], q)
	})
	reg("(*math/big.Int).Rem", func(fr *frame, args []value) value {
		a, b := bigOf(args[1]), bigOf(args[2])
		divz(fr, b)
		_, r := quoTerm(fr, a, b)
		return bigSet(args[0], r)
	})
	reg("(*math/big.Int).DivMod", func(fr *frame, args []value) value {
		a, b := bigOf(args[1]), bigOf(args[2])
		divz(fr, b)
		q, r := term.IntBin("div", a, b), term.IntBin("mod", a, b)
		bigSet(args[3], r)
		bigSet(args[0], q)
		return tuple{args[0], args[3]}
	})
	reg("(*math/big.Int).QuoRem", func(fr *frame, args []value) value {
		a, b := bigOf(args[1]), bigOf(args[2])
		divz(fr, b)
		q, r := quoTerm(fr, a, b)
		bigSet(args[3], r)
		bigSet(args[0], q)
		return tuple{args[0], args[3]}
	})
	reg("(*math/big.Int).CmpAbs", func(fr *frame, args []value) value {
		abs := func(t *term.Term) *term.Term {
			return term.Ite(term.IntCmp("<", t, term.IntConstI(0)), term.IntNeg(t), t)
		}
		a, b := abs(bigOf(args[0])), abs(bigOf(args[1]))
		if fr.decide(term.IntCmp("<", a, b)) {
			return -1
		}
		if fr.decide(term.Eq(a, b)) {
			return 0
		}
		return 1
	})
	reg("(*math/big.Int).Neg", func(fr *frame, args []value) value {
		return bigSet(args[0], term.IntNeg(bigOf(args[1])))
	})
	reg("(*math/big.Int).Abs", func(fr *frame, args []value) value {
		a := bigOf(args[1])
		return bigSet(args[0], term.Ite(term.IntCmp("<", a, term.IntConstI(0)), term.IntNeg(a), a))
	})
	reg("(*math/big.Int).Cmp", func(fr *frame, args []value) value {
		a, b := bigOf(args[0]), bigOf(args[1])
		if fr.decide(term.IntCmp("<", a, b)) {
			return -1
		}
		if fr.decide(term.Eq(a, b)) {
			return 0
		}
		return 1
	})
	reg("(*math/big.Int).Sign", func(fr *frame, args []value) value {
		a := bigOf(args[0])
		if fr.decide(term.IntCmp("<", a, term.IntConstI(0))) {
			return -1
		}
		if fr.decide(term.Eq(a, term.IntConstI(0))) {
			return 0
		}
		return 1
	})
	reg("(*math/big.Int).Int64", func(fr *frame, args []value) value {
		return mkSym(term.Int2BV(bigOf(args[0]), 64), types.Int64)
	})
	reg("(*math/big.Int).Uint64", func(fr *frame, args []value) value {
		return mkSym(term.Int2BV(bigOf(args[0]), 64), types.Uint64)
	})
	reg("(*math/big.Int).IsUint64", func(fr *frame, args []value) value {
		a := bigOf(args[0])
		hi := term.IntConst(new(big.Int).Lsh(big.NewInt(1), 64))
		return mkSym(term.And(term.IntCmp(">=", a, term.IntConstI(0)), term.IntCmp("<", a, hi)), types.Bool)
	})
	reg("(*math/big.Int).IsInt64", func(fr *frame, args []value) value {
		a := bigOf(args[0])
		lim := new(big.Int).Lsh(big.NewInt(1), 63)
		return mkSym(term.And(term.IntCmp(">=", a, term.IntConst(new(big.Int).Neg(lim))), term.IntCmp("<", a, term.IntConst(lim))), types.Bool)
	})
	reg("(*math/big.Int).String", func(fr *frame, args []value) value {
		if p, ok := args[0].(*value); ok && p == nil {
			return "<nil>"
		}
		return mkStr(decSegs(fr, bigval{bigOf(args[0])}))
	})
	reg("(*math/big.Int).Text", func(fr *frame, args []value) value {
		if b, ok := args[1].(int); !ok || b != 10 {
			a := bigOf(args[0])
			if a.IsConst() {
				return a.Val.Text(args[1].(int))
			}
			panic(unsupported("big.Int.Text non-decimal symbolic"))
		}
		return mkStr(decSegs(fr, bigval{bigOf(args[0])}))
	})
	reg("(*math/big.Int).SetString", func(fr *frame, args []value) value {
		base, _ := args[2].(int)
		if s, ok := concStr(args[1]); ok {
			n, ok := new(big.Int).SetString(s, base)
			if !ok {
				return tuple{(*value)(nil), false}
			}
			return tuple{bigSet(args[0], term.IntConst(n)), true}
		}
		if base != 10 && base != 0 {
			panic(unsupported("big.Int.SetString symbolic non-decimal"))
		}
		t, ok := parseDec(args[1])
		if !ok {
			return tuple{(*value)(nil), false}
		}
		return tuple{bigSet(args[0], t), true}
	})
	reg("(*math/big.Int).Bytes", func(fr *frame, args []value) value {
		a := bigOf(args[0])
		if !a.IsConst() {
			panic(unsupported("big.Int.Bytes symbolic"))
		}
		return bytesValue(a.Val.Bytes())
	})
	reg("(*math/big.Int).SetBytes", func(fr *frame, args []value) value {
		b, ok := concBytes(args[1].([]value))
		if !ok {
			panic(unsupported("big.Int.SetBytes symbolic"))
		}
		return bigSet(args[0], term.IntConst(new(big.Int).SetBytes(b)))
	})
	reg("(*math/big.Int).BitLen", func(fr *frame, args []value) value {
		a := bigOf(args[0])
		if !a.IsConst() {
			panic(unsupported("big.Int.BitLen symbolic"))
		}
		return a.Val.BitLen()
	})

	// ---- codecs ----
	jsonMarshal := func(fr *frame, args []value) value {
		it := args[0].(iface)
		if it.t == nil {
			return tuple{strToBytes("null"), nilError()}
		}
		// a top-level value with its own MarshalJSON produces real JSON text
		if p, isPtr := it.v.(*value); !(isPtr && p == nil) && strings.Contains(it.t.String(), "bitxhub-kit/types.") {
			if r, ok := callMethod(fr, it.t, it.v, "MarshalJSON"); ok {
				return r
			}
		}
		return tuple{marshalBlob(fr, "json", it.t, it.v), nilError()}
	}
	reg("encoding/json.Marshal", jsonMarshal)
	reg("encoding/json.MarshalIndent", jsonMarshal)
	reg("encoding/json.Unmarshal", func(fr *frame, args []value) value {
		data := args[0].([]value)
		it := args[1].(iface)
		if it.t == nil {
			return errorValue(fr, "json: Unmarshal(nil)")
		}
		pt, ok := it.t.Underlying().(*types.Pointer)
		dst, ok2 := it.v.(*value)
		if !ok || !ok2 || dst == nil {
			return errorValue(fr, "json: Unmarshal(non-pointer)")
		}
		if ok, why := unmarshalBlob(fr, "json", data, pt.Elem(), dst); ok {
			return nilError()
		} else if strings.HasPrefix(why, "jsonerr:") {
			return errorValue(fr, strings.TrimPrefix(why, "jsonerr:"))
		} else if why != "" {
			panic(unsupported("json.Unmarshal: " + why))
		}
		if len(data) == 0 {
			return errorValue(fr, "unexpected end of JSON input")
		}
		if _, ok := concBytes(data); ok {
			if r, ok := callMethod2(fr, it.t, it.v, "UnmarshalJSON", data); ok {
				return r
			}
		}
		if b, ok := concBytes(data); ok {
			if err := jsonDecodeConcrete(fr, b, pt.Elem(), dst); err != "" {
				return errorValue(fr, err)
			}
			return nilError()
		}
		panic(unsupported("json.Unmarshal of symbolic non-blob bytes"))
	})
	protoPkgs := []string{
		"(*github.com/meshplus/bitxhub-model/pb.",
		"(*github.com/meshplus/bitxhub-core/",
		"(*github.com/meshplus/bitxhub/internal/model.",
		"(*github.com/coreos/etcd/raft/raftpb.",
		"(*github.com/meshplus/bitxhub/pkg/order/etcdraft/proto.",
		"(*github.com/meshplus/bitxhub/pkg/order/mempool/proto.",
	}
	for _, pp := range protoPkgs {
		regPrefix(pp, func(fr *frame, fn *ssa.Function, name string, args []value) (value, bool) {
			switch {
			case strings.HasSuffix(name, ").Marshal") && fn.Signature.Params().Len() == 0 && fn.Signature.Results().Len() == 2:
				rt := fn.Signature.Recv().Type()
				if p, ok := args[0].(*value); ok && p == nil {
					return tuple{[]value(nil), nilError()}, true
				}
				return tuple{marshalBlob(fr, "proto", rt, args[0]), nilError()}, true
			case strings.HasSuffix(name, ").Unmarshal") && fn.Signature.Params().Len() == 1 && fn.Signature.Results().Len() == 1:
				rt := fn.Signature.Recv().Type().(*types.Pointer).Elem()
				data, ok := args[1].([]value)
				if !ok {
					return nil, false
				}
				dst := args[0].(*value)
				if dst == nil {
					panic("runtime error: invalid memory address or nil pointer dereference")
				}
				if ok, why := unmarshalBlob(fr, "proto", data, rt, dst); ok {
					return nilError(), true
				} else if why != "" {
					panic(unsupported(name + ": " + why))
				}
				if _, conc := concBytes(data); conc {
					return nil, false // interpret the generated decoder on real bytes
				}
				panic(unsupported(name + " of symbolic non-blob bytes"))
			case strings.HasSuffix(name, ").Size") && fn.Signature.Params().Len() == 0:
				if p, ok := args[0].(*value); ok && p != nil {
					rt := fn.Signature.Recv().Type().(*types.Pointer).Elem()
					if z := protoIsZero(fr, rt, deepCopy(copyMode{"proto"}, rt, *p, 0), 0); z.IsTrue() || (!z.IsFalse() && fr.decide(z)) {
						return 0, true
					}
				}
				return 1, true
			}
			return nil, false
		})
	}

	// ---- zzverif harness API ----
	const zz = "github.com/meshplus/bitxhub/internal/zzverif."
	nondet := func(name string, k types.BasicKind) {
		reg(zz+name, func(fr *frame, args []value) value {
			n, _ := concStr(args[0])
			if k == types.Bool {
				return symv{fr.i.ps.FreshHarnessVar(n, term.BoolSort), k}
			}
			return symv{fr.i.ps.FreshHarnessVar(n, term.BV(kindWidth(k))), k}
		})
	}
	nondetInt := func(name string, k types.BasicKind) {
		reg(zz+name, func(fr *frame, args []value) value {
			n, _ := concStr(args[0])
			v := fr.i.ps.FreshHarnessVar(n, term.IntSort)
			fr.i.ps.addPC(term.And(term.IntCmp(">=", v, term.IntConstI(0)), term.IntCmp("<", v, pow2(kindWidth(k)))))
			return symv{v, k}
		})
	}
	nondetInt("U64i", types.Uint64)
	nondetInt("I64i", types.Int64)
	nondet("U64", types.Uint64)
	nondet("I64", types.Int64)
	nondet("I32", types.Int32)
	nondet("U32", types.Uint32)
	nondet("U8", types.Uint8)
	nondet("Int", types.Int)
	nondet("Bool", types.Bool)
	reg(zz+"Bytes", func(fr *frame, args []value) value {
		n, _ := concStr(args[0])
		cnt := args[1].(int)
		out := make([]value, cnt)
		for i := range out {
			out[i] = symv{fr.i.ps.FreshHarnessVar(fmt.Sprintf("%s[%d]", n, i), term.BV(8)), types.Uint8}
		}
		return out
	})
	reg(zz+"BigInt", func(fr *frame, args []value) value {
		n, _ := concStr(args[0])
		return newBig(fr.i.ps.FreshHarnessVar(n, term.IntSort))
	})
	reg(zz+"Choice", func(fr *frame, args []value) value {
		n := args[1].(int)
		c := fr.choose(n)
		fr.i.ps.Choices = append(fr.i.ps.Choices, c)
		return c
	})
	reg(zz+"Symbolic", func(fr *frame, args []value) value { return true })
	reg(zz+"Assume", func(fr *frame, args []value) value {
		fr.assume(boolTerm(args[0]))
		return nil
	})
	reg(zz+"Assert", func(fr *frame, args []value) value {
		l, _ := concStr(args[0])
		fr.assertProp(l, boolTerm(args[1]), "")
		return nil
	})
	reg(zz+"Cover", func(fr *frame, args []value) value {
		l, _ := concStr(args[0])
		fr.cover(l, boolTerm(args[1]))
		return nil
	})
	reg(zz+"Tag", func(fr *frame, args []value) value {
		l, _ := concStr(args[0])
		fr.tag(l, boolTerm(args[1]))
		return nil
	})
	reg(zz+"Cut", func(fr *frame, args []value) value {
		l, _ := concStr(args[0])
		panic(&abortPath{Kind: "cut", Reason: l})
	})
	reg(zz+"Observe", func(fr *frame, args []value) value {
		l, _ := concStr(args[0])
		fr.i.ps.Res.Observed = append(fr.i.ps.Res.Observed, l+"="+toString(args[1]))
		return nil
	})
	reg(zz+"And", func(fr *frame, args []value) value {
		return mkSym(term.And(boolTerm(args[0]), boolTerm(args[1])), types.Bool)
	})
	reg(zz+"Or", func(fr *frame, args []value) value {
		return mkSym(term.Or(boolTerm(args[0]), boolTerm(args[1])), types.Bool)
	})
	reg(zz+"Implies", func(fr *frame, args []value) value {
		return mkSym(term.Implies(boolTerm(args[0]), boolTerm(args[1])), types.Bool)
	})
	reg(zz+"Not", func(fr *frame, args []value) value {
		return mkSym(term.Not(boolTerm(args[0])), types.Bool)
	})
	reg(zz+"Iff", func(fr *frame, args []value) value {
		return mkSym(term.Eq(boolTerm(args[0]), boolTerm(args[1])), types.Bool)
	})
	reg(zz+"EqBytes", func(fr *frame, args []value) value {
		return mkSym(strEqTerm(fr, bytesToStr(args[0].([]value)), bytesToStr(args[1].([]value))), types.Bool)
	})
	reg(zz+"EqStr", func(fr *frame, args []value) value {
		return mkSym(strEqTerm(fr, args[0], args[1]), types.Bool)
	})
	reg(zz+"BigEq", func(fr *frame, args []value) value {
		return mkSym(term.Eq(bigOf(args[0]), bigOf(args[1])), types.Bool)
	})
	reg(zz+"BigLe", func(fr *frame, args []value) value {
		return mkSym(term.IntCmp("<=", bigOf(args[0]), bigOf(args[1])), types.Bool)
	})
	reg(zz+"BigLt", func(fr *frame, args []value) value {
		return mkSym(term.IntCmp("<", bigOf(args[0]), bigOf(args[1])), types.Bool)
	})
	reg(zz+"Methods", func(fr *frame, args []value) value {
		it := args[0].(iface)
		if it.t == nil {
			return []value(nil)
		}
		ms := fr.i.prog.MethodSets.MethodSet(it.t)
		var names []string
		for k := 0; k < ms.Len(); k++ {
			if o := ms.At(k).Obj(); o.Exported() {
				names = append(names, o.Name())
			}
		}
		sortStrings(names)
		return strsValue(names)
	})
	// PacedClock(maxStepNs): from now on two consecutive clock readings differ by at most
	// maxStepNs unless a Pause lies between them. Pause(ns): the clock jumps by ns..2ns.
	// NoAddress(label, data): data (bytes or string) must not contain a formatted memory address
	reg(zz+"NoAddress", func(fr *frame, args []value) value {
		var segs []seg
		switch d := args[1].(type) {
		case []value:
			segs = segsOf(bytesToStr(d))
		default:
			segs = segsOf(d)
		}
		clean := true
		for _, sg := range segs {
			if sg.kind == sByte && sg.t != nil && strings.HasPrefix(sg.t.Name, "addr#") {
				clean = false
			}
		}
		fr.assertProp(toString(args[0]), term.BoolConst(clean), "output contains a formatted memory address")
		return nil
	})
	reg(zz+"ConcreteClock", func(fr *frame, args []value) value {
		fr.i.ps.clockConcrete = uint64(args[0].(int64))
		if fr.i.ps.clockNow == 0 {
			fr.i.ps.clockNow = 1600000000000000000
		}
		return nil
	})
	// PacedClock(stepNs): time is driven by the harness. Every clock reading advances a concrete
	// clock by stepNs; Pause(ns) advances it by ns. Timing decisions of the code under test are
	// explored through the placement of pauses (a stated bound), not through symbolic instants.
	reg(zz+"PacedClock", func(fr *frame, args []value) value {
		ps := fr.i.ps
		ps.clockConcrete = uint64(args[0].(int64))
		if ps.clockNow == 0 {
			ps.clockNow = 1600000000000000000
		}
		return nil
	})
	reg(zz+"Pause", func(fr *frame, args []value) value {
		ps := fr.i.ps
		ns := uint64(args[0].(int64))
		if ps.clockConcrete > 0 {
			ps.clockNow += ns
			ps.lastClock = term.BVConstU(ps.clockNow, 64)
			return nil
		}
		t := ps.fresh("clock", term.BV(64))
		fr.assume(term.BVCmp("bvult", t, term.BVConstU(1<<60, 64)))
		if ps.lastClock != nil {
			fr.assume(term.BVCmp("bvuge", t, term.BVBin("bvadd", ps.lastClock, term.BVConstU(ns, 64))))
			fr.assume(term.BVCmp("bvule", t, term.BVBin("bvadd", ps.lastClock, term.BVConstU(2*ns, 64))))
		}
		ps.lastClock = t
		return nil
	})
	reg(zz+"HashForkOff", func(fr *frame, args []value) value {
		fr.i.ps.NoHashFork = true
		return nil
	})
	reg(zz+"PermuteMaps", func(fr *frame, args []value) value {
		fr.i.ps.PermMaps = args[0].(bool)
		return nil
	})
	reg(zz+"Schedule", func(fr *frame, args []value) value {
		fr.i.sched.policy = args[0].(int)
		return nil
	})
	reg(zz+"Crashed", func(fr *frame, args []value) value {
		before := len(fr.i.sched.crashed)
		diedInGoroutine := false
		panicked := func() (p bool) {
			defer func() {
				if r := recover(); r != nil {
					if os.Getenv("SYMGO_DEBUG") != "" {
						fmt.Fprintf(os.Stderr, "Crashed recovered %T %v crashed=%d before=%d\n", r, r, len(fr.i.sched.crashed), before)
					}
					if ap, ok := r.(*abortPath); ok && ap.Kind == "goroutine-panic" && len(fr.i.sched.crashed) > before {
						p = true // the process died from a panic in a goroutine started by f
						for _, g := range fr.i.sched.crashed[before:] {
							fr.i.ps.Res.Observed = append(fr.i.ps.Res.Observed, "goroutine-panic="+panicString(g.panicv))
						}
						fr.i.sched.crashed = fr.i.sched.crashed[:before]
						diedInGoroutine = true
						return
					}
					if isControl(r) {
						panic(r)
					}
					p = true
					fr.i.ps.Res.Observed = append(fr.i.ps.Res.Observed, "panic="+panicString(r))
				}
			}()
			call(fr.i, fr, token.NoPos, args[0], nil)
			return false
		}()
		fr.i.sched.quiesce()
		inG := len(fr.i.sched.crashed) > before
		if inG {
			for _, g := range fr.i.sched.crashed[before:] {
				fr.i.ps.Res.Observed = append(fr.i.ps.Res.Observed, "goroutine-panic="+panicString(g.panicv))
			}
			fr.i.sched.crashed = fr.i.sched.crashed[:before]
		}
		return tuple{panicked || inG, inG || diedInGoroutine}
	})
	reg(zz+"Logger", func(fr *frame, args []value) value {
		pkg := fr.i.prog.ImportedPackage("github.com/sirupsen/logrus")
		if pkg == nil {
			panic(unsupported("logrus not loaded"))
		}
		t := pkg.Type("Logger").Type()
		z := zero(t)
		return iface{types.NewPointer(t), &z}
	})
}

func init() {
	reg("github.com/meshplus/bitxhub/internal/zzverif.Thorough", func(fr *frame, args []value) value {
		return os.Getenv("VERIF_TIER") == "thorough"
	})
}

// concrete-only math/big operations (bloom filters etc.)
func init() {
	conc := func(fr *frame, v value) *big.Int {
		t := bigOf(v)
		if !t.IsConst() {
			panic(unsupported("bitwise math/big operation on a symbolic value"))
		}
		return t.Val
	}
	bin := func(name string, f func(z, x, y *big.Int) *big.Int) {
		reg("(*math/big.Int)."+name, func(fr *frame, args []value) value {
			return bigSet(args[0], term.IntConst(f(new(big.Int), conc(fr, args[1]), conc(fr, args[2]))))
		})
	}
	bin("Or", func(z, x, y *big.Int) *big.Int { return z.Or(x, y) })
	bin("And", func(z, x, y *big.Int) *big.Int { return z.And(x, y) })
	bin("Xor", func(z, x, y *big.Int) *big.Int { return z.Xor(x, y) })
	bin("AndNot", func(z, x, y *big.Int) *big.Int { return z.AndNot(x, y) })
	sh := func(name string, f func(z, x *big.Int, n uint) *big.Int) {
		reg("(*math/big.Int)."+name, func(fr *frame, args []value) value {
			n, ok := args[2].(uint)
			if !ok {
				panic(unsupported("big.Int shift by symbolic amount"))
			}
			return bigSet(args[0], term.IntConst(f(new(big.Int), conc(fr, args[1]), n)))
		})
	}
	sh("Lsh", func(z, x *big.Int, n uint) *big.Int { return z.Lsh(x, n) })
	sh("Rsh", func(z, x *big.Int, n uint) *big.Int { return z.Rsh(x, n) })
	reg("(*math/big.Int).Bit", func(fr *frame, args []value) value { return conc(fr, args[0]).Bit(args[1].(int)) })
	reg("(*math/big.Int).SetBit", func(fr *frame, args []value) value {
		return bigSet(args[0], term.IntConst(new(big.Int).SetBit(conc(fr, args[1]), args[2].(int), args[3].(uint))))
	})
	reg("(*math/big.Int).FillBytes", func(fr *frame, args []value) value {
		buf := args[1].([]value)
		b := make([]byte, len(buf))
		conc(fr, args[0]).FillBytes(b)
		copy(buf, bytesValue(b))
		return buf
	})
	reg("(*math/big.Int).Exp", func(fr *frame, args []value) value {
		var m *big.Int
		if p, ok := args[3].(*value); ok && p != nil {
			m = conc(fr, args[3])
		}
		return bigSet(args[0], term.IntConst(new(big.Int).Exp(conc(fr, args[1]), conc(fr, args[2]), m)))
	})
}

// signature model for the harness validator keys
var zzSignerAddrs = []string{
	"0x1a642f0E3c3aF545E7AcBD38b07251B3990914F1",
	"0x5050A4F4b3f9338C3472dcC01A87C76A144b3c9c",
	"0x3325a78425F17a7E487Eb5666b2bFd93aBb06c70",
	"0xc48B812bB43401392c037381AcA934F4069C0517",
	"0xd09Ad14080d4b257a819a4f579b8485Be88f086c",
}

func init() {
	const zz = "github.com/meshplus/bitxhub/internal/zzverif."
	reg(zz+"SignerAddr", func(fr *frame, args []value) value { return zzSignerAddrs[args[0].(int)] })
	reg(zz+"SignDigest", func(fr *frame, args []value) value {
		i := args[0].(int)
		out := append([]value{}, strToBytes("zzsig")...)
		out = append(out, uint8(i))
		out = append(out, args[1].([]value)...)
		for len(out) < 65 {
			out = append(out, uint8(0))
		}
		return out
	})
	// Signature model at the level of bitxhub-kit's ecdsa package, so that bitxhub's own
	// recoverSignAddress is interpreted: a harness signature is the 65-byte token
	// "zzsig" i digest[32] 0..., recovery yields the 65-byte model key "\x04zzpub" i 0... for
	// exactly that digest, an unrelated model key for another digest, and an error for any
	// other byte string (wrong length: the real length error; right length: "recovery failed").
	const kit = "github.com/meshplus/bitxhub-kit/crypto/asym/ecdsa."
	reg(kit+"Ecrecover", func(fr *frame, args []value) value {
		dig, sig := args[0].([]value), args[1].([]value)
		if len(sig) != 65 {
			return tuple{[]value(nil), errorValue(fr, "invalid signature length")}
		}
		pre, ok := concBytes(sig[:6])
		if !ok || string(pre[:5]) != "zzsig" {
			return tuple{[]value(nil), errorValue(fr, "recovery failed")}
		}
		id := pre[5]
		same := strEqTerm(fr, bytesToStr(sig[6:38]), bytesToStr(dig))
		if !fr.decide(same) || int(id) >= len(zzSignerAddrs) {
			id = 0xff
		}
		pub := make([]byte, 65)
		copy(pub, "\x04zzpub")
		pub[6] = id
		return tuple{bytesValue(pub), nilError()}
	})
	reg(kit+"UnmarshalPublicKey", func(fr *frame, args []value) value {
		data := args[0].([]value)
		pre, ok := concBytes(data[:minInt(len(data), 7)])
		if !ok || len(data) != 65 || string(pre[:6]) != "\x04zzpub" {
			return tuple{iface{}, errorValue(fr, "invalid secp256k1 public key")}
		}
		t := fr.i.prog.ImportedPackage("github.com/meshplus/bitxhub-kit/crypto/asym/ecdsa").Type("PublicKey").Type()
		cell := zero(t)
		modelPubKeys.Store(&cell, int(pre[6]))
		return tuple{iface{types.NewPointer(t), &cell}, nilError()}
	})
	reg("(*github.com/meshplus/bitxhub-kit/crypto/asym/ecdsa.PublicKey).Address", func(fr *frame, args []value) value {
		id, ok := modelPubKeys.Load(args[0].(*value))
		if !ok {
			panic(&abortPath{Kind: "unsupported", Reason: "(*ecdsa.PublicKey).Address on a key that is not a harness model key"})
		}
		addr := "0x00000000000000000000000000000000DeaDBeef"
		if i := id.(int); i < len(zzSignerAddrs) {
			addr = zzSignerAddrs[i]
		}
		f := fr.i.prog.ImportedPackage("github.com/meshplus/bitxhub-kit/types").Func("NewAddressByStr")
		return tuple{call(fr.i, fr, token.NoPos, f, []value{addr}), nilError()}
	})
}

// etcd snapshotter model: snapshots saved through a Snapshotter are kept in memory per object
// (no files); Load returns the latest one or the library's "no snapshot" error.
var modelSnapshots sync.Map // *value (Snapshotter cell) -> value (raftpb.Snapshot structure)

func init() {
	const sp = "github.com/coreos/etcd/snap."
	reg(sp+"New", func(fr *frame, args []value) value {
		t := fr.i.prog.ImportedPackage("github.com/coreos/etcd/snap").Type("Snapshotter").Type()
		cell := zero(t)
		return &cell
	})
	reg("(*github.com/coreos/etcd/snap.Snapshotter).SaveSnap", func(fr *frame, args []value) value {
		snapT := fr.i.prog.ImportedPackage("github.com/coreos/etcd/raft/raftpb").Type("Snapshot").Type()
		v := args[1]
		modelSnapshots.Store(args[0].(*value), load(snapT, &v))
		return nilError()
	})
	reg("(*github.com/coreos/etcd/snap.Snapshotter).Load", func(fr *frame, args []value) value {
		v, ok := modelSnapshots.Load(args[0].(*value))
		if !ok {
			return tuple{(*value)(nil), errorValue(fr, "snap: no available snapshot")}
		}
		snapT := fr.i.prog.ImportedPackage("github.com/coreos/etcd/raft/raftpb").Type("Snapshot").Type()
		stored := v.(value)
		c := load(snapT, &stored)
		return tuple{&c, nilError()}
	})
}

var modelPubKeys sync.Map // *value (model PublicKey cell) -> signer id

func minInt(a, b int) int {
	if a < b {
		return a
	}
	return b
}
