package interp

// Model of the wasmtime FFI boundary (github.com/bytecodealliance/wasmtime-go, cgo).
//
// The engine cannot execute cgo. The wasm runtime is replaced by a model that knows exactly
// one valid module, the empty module "\0asm" + version 1 (8 bytes), and rejects every shorter
// byte string and every other 8-byte string, which is what the real runtime does with them.
// Byte strings longer than 8 bytes are outside the model (the path is abandoned as
// unsupported), because the model cannot say whether the real runtime accepts them. The empty
// module exports nothing: every GetFunc answers nil. Everything above this boundary
// (bitxhub-core/wasm and bitxhub's pkg/vm/wasm) is executed from its SSA.

import (
	"go/types"
)

const wasmtimePkg = "github.com/bytecodealliance/wasmtime-go"

var wasmEmptyModule = "\x00asm\x01\x00\x00\x00"

func init() {
	newOf := func(name string) func(fr *frame, args []value) value {
		return func(fr *frame, args []value) value {
			t := fr.i.prog.ImportedPackage(wasmtimePkg).Type(name).Type()
			cell := zero(t)
			return &cell
		}
	}
	const p = wasmtimePkg + "."
	const m = "(*" + wasmtimePkg + "."
	reg(p+"NewConfig", newOf("Config"))
	reg(p+"NewEngineWithConfig", newOf("Engine"))
	reg(p+"NewEngine", newOf("Engine"))
	reg(p+"NewWasiConfig", newOf("WasiConfig"))
	reg(p+"NewStore", func(fr *frame, args []value) value {
		t := fr.i.prog.ImportedPackage(wasmtimePkg).Type("Store").Type()
		cell := zero(t)
		// Store.Engine is an exported field read by bitxhub-core
		st := cell.(structure)
		for k := 0; k < t.Underlying().(*types.Struct).NumFields(); k++ {
			if t.Underlying().(*types.Struct).Field(k).Name() == "Engine" {
				st[k] = args[0]
			}
		}
		var c value = st
		return &c
	})
	reg(p+"NewLinker", newOf("Linker"))
	nop := func(fr *frame, args []value) value { return nil }
	reg(m+"Config).SetWasmReferenceTypes", nop)
	reg(m+"Config).SetConsumeFuel", nop)
	reg(m+"Store).SetWasi", nop)
	reg(m+"Linker).DefineFunc", func(fr *frame, args []value) value { return nilError() })
	reg(m+"Linker).DefineWasi", func(fr *frame, args []value) value { return nilError() })
	reg(p+"NewModule", func(fr *frame, args []value) value {
		code := args[1].([]value)
		bad := tuple{(*value)(nil), errorValue(fr, "failed to parse WebAssembly module")}
		if len(code) < 8 {
			return bad
		}
		if len(code) > 8 {
			panic(unsupported("wasm module longer than the empty module: outside the wasmtime model"))
		}
		if !fr.decide(strEqTerm(fr, bytesToStr(code), wasmEmptyModule)) {
			return bad
		}
		return tuple{newOf("Module")(fr, nil), nilError()}
	})
	reg(m+"Linker).Instantiate", func(fr *frame, args []value) value {
		return tuple{newOf("Instance")(fr, nil), nilError()}
	})
	reg(m+"Instance).GetFunc", func(fr *frame, args []value) value { return (*value)(nil) })
	reg(m+"Instance).GetExport", func(fr *frame, args []value) value { return (*value)(nil) })
	reg(m+"Store).AddFuel", func(fr *frame, args []value) value { return nilError() })
	reg(m+"Store).FuelConsumed", func(fr *frame, args []value) value { return tuple{uint64(0), true} })
}
