#!/bin/bash
# usage: scripts/try_seed.sh <patch.diff> <PROP> [more props...]  -- applies the patch to /repo, runs the quick checks, reverts
set -u
P="$1"; shift
cd /repo || exit 2
if ! git apply --check "$P" 2>/dev/null; then echo "PATCH DOES NOT APPLY: $P"; exit 2; fi
git apply "$P"
# evidence files must describe runs on the unchanged tree: keep them aside and put them back
EVB=$(mktemp -d /verif/.evidence_keep.XXXX); cp -a /verif/evidence/. "$EVB"/
trap 'cp -a "$EVB"/. /verif/evidence/; rm -rf "$EVB"; git -C /repo checkout -- . ; git -C /repo status --short | grep -v "^ M scripts/quick_start\|libwasmer" | head -3' EXIT
for id in "$@"; do
  echo "== $id =="
  (cd /verif && timeout 1500 scripts/check "$id" --tier quick 2>&1 | grep "^VIOLATION\|^INCONCL\|^ENGINE\|^VACUOUS\|symgo:" | cut -c1-220 | head -8)
done
