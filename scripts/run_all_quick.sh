#!/bin/bash
# Runs every property's quick check on /repo in turn (evidence is rewritten under /verif/evidence);
# one summary line per property; logs under /tmp/runall.<ID>.log. Used before committing evidence.
cd "$(dirname "$0")/.."
for id in C01 C02 C03 C04 C05 C06 C07 C08 C09 C10 C11 C12 C13 C14 C15 C16 C17 C18 C19 C20; do
  s=$(date +%s)
  VERIF_SEED=1 scripts/check $id --tier quick > /tmp/runall.$id.log 2>&1
  echo "$id exit=$? secs=$(( $(date +%s)-s )) $(grep -c '^KNOWN-FINDING' /tmp/runall.$id.log) known; $(grep '^VIOL\|^INCONC\|^ENGINE\|^VACUOUS' /tmp/runall.$id.log | head -3 | cut -c1-200)"
done
