#!/usr/bin/env python3
"""Regenerates /verif/MANIFEST.json from the table below (claimed properties + not_applicable)."""
import json, sys

CLAIMED = {
 # id: (level text, level note)
}
NOTES = json.load(open('/verif/scripts/claims.json'))
props = [json.loads(l)['id'] for l in open('/verif/properties.jsonl')]
m = {
 "version": 1,
 "setup_cmd": "cd /verif/engine && GOFLAGS=-mod=mod GOPROXY=off GOSUMDB=off GOTOOLCHAIN=local go build -o /verif/bin/symgo ./cmd/symgo",
 "hooks": {"guard": "verif",
           "enable": "no source hooks: harness files (//go:build verif) are injected with go/packages Overlay for the symbolic run and with go test -overlay -tags verif for native replay",
           "baseline_off_cmd": "cd /repo && go test -mod=mod -json -vet=off -count=1 -timeout 25m ./...",
           "source_commits": [], "add_only": True},
 "engines": [{"name": "symgo", "path": "/verif/engine", "serves_properties": sorted(NOTES["claimed"].keys()),
              "kind_free_text": "own symbolic executor over go/ssa (concrete-by-default interpreter with symbolic scalars/strings/maps, cooperative goroutines, codec/hash/clock stubs) deciding assertions with z3 over all symbolic inputs within stated bounds; counterexamples replayed natively"}],
 "checks": [], "not_applicable": [],
 "notes": "All checks: scripts/check <ID> --tier quick|thorough. Exit 0 = held (KNOWN-FINDING lines for recorded defects), 1 = VIOLATION (natively replayed), 2 = inconclusive (never a verdict)."
}
for p in props:
    if p in NOTES["claimed"]:
        c = NOTES["claimed"][p]
        m["checks"].append({
            "property_id": p,
            "quick_cmd": f"scripts/check {p} --tier quick",
            "thorough_cmd": f"scripts/check {p} --tier thorough",
            "evidence_file": f"/verif/evidence/{p}.json",
            "replay_cmd_template": f"scripts/check {p} --replay {{path}}",
            "engine": "symgo",
            "level_claimed": {"category": "model_checking", "text": c["text"], "design_ref": "DESIGN.md section 6, " + p},
            "level_note": c["note"],
            "technique": "solver-based bounded symbolic execution of the real Go code from go/ssa (own engine symgo) with z3; every assertion decided over all symbolic inputs within the stated bounds; counterexamples replayed natively",
        })
    else:
        m["not_applicable"].append({"property_id": p, "reason": NOTES["not_applicable"].get(p, "no check built yet in this round (see DESIGN.md section 6)")})
json.dump(m, open('/verif/MANIFEST.json', 'w'), indent=1)
print("claimed:", len(m["checks"]), "not_applicable:", len(m["not_applicable"]))
