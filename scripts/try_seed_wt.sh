#!/bin/bash
# usage: scripts/try_seed_wt.sh <patch.diff> <PROP> [more props...]
# Like try_seed.sh, but in a scratch worktree of /repo (HEAD) under /tmp, so /repo itself and
# /verif/evidence stay untouched (other checks may run on /repo at the same time).
set -u
P="$1"; shift
WT=/tmp/seedwt-$$
git -C /repo worktree add -q "$WT" HEAD || exit 2
trap 'git -C /repo worktree remove --force "$WT" 2>/dev/null; git -C /repo worktree prune' EXIT
if ! git -C "$WT" apply --check "$P" 2>/dev/null; then echo "PATCH DOES NOT APPLY: $P"; exit 2; fi
git -C "$WT" apply "$P"
mkdir -p /tmp/seedwt-ev
for id in "$@"; do
  echo "== $id =="
  (cd /verif && timeout 1800 scripts/check "$id" --tier quick -repo "$WT" -evidence "/tmp/seedwt-ev/$id.json" 2>&1 | grep "^VIOLATION\|^INCONCL\|^ENGINE\|^VACUOUS\|symgo:" | cut -c1-220 | head -8)
done
