#!/bin/bash
# usage: scripts/confirm_seed.sh <ID> <seed dir> <pkg dir for demo> <run regexp> [ldflags]
# Confirms in a fresh scratch worktree: patch applies, builds, baseline packages pass, demo fails with / passes without.
set -u
ID="$1"; SD="$2"; PKG="$3"; RUN="$4"; LD="${5:-}"
export GOFLAGS=-mod=mod GOPROXY=off GOSUMDB=off GOTOOLCHAIN=local
WT=/tmp/confirm-$ID
git -C /repo worktree remove --force $WT 2>/dev/null
git -C /repo worktree add -q $WT HEAD || exit 2
cd $WT
mkdir -p "$PKG"; cp "$SD/demo_test.go" "$PKG/zz_seed_demo_test.go"
echo "--- demo WITHOUT change (expect pass)"
TMPDIR=$(mktemp -d) go test -mod=mod -vet=off -count=1 $LD -run "$RUN" ./$PKG/ 2>&1 | tail -3
git apply "$SD/patch.diff" || { echo "PATCH FAILED"; exit 2; }
echo "--- build"
go build $LD ./internal/... ./pkg/... 2>&1 | tail -3
echo "--- baseline packages WITH change"
mv "$PKG/zz_seed_demo_test.go" /tmp/zz_seed_demo_$ID.go
TMPDIR=$(mktemp -d) go test -mod=mod -vet=off -count=1 ./internal/ledger/... ./internal/model/... ./internal/repo/... ./pkg/order/ ./pkg/order/mempool/... ./pkg/ratelimiter/... ./pkg/vm/wasm/... 2>&1 | grep -v "no test files" | grep -v "^ld:\|wasm.test\|GNU-stack\|deprecated" | tail -14
mv /tmp/zz_seed_demo_$ID.go "$PKG/zz_seed_demo_test.go"
echo "--- demo WITH change (expect FAIL)"
TMPDIR=$(mktemp -d) go test -mod=mod -vet=off -count=1 $LD -run "$RUN" ./$PKG/ 2>&1 | grep -v "^\s\|^===\|ld: " | tail -4
cd /; git -C /repo worktree remove --force $WT
